"""Canonical, positional, value-level view (CNetlist) of a spydrnet netlist, and an independent
identity-level well-formedness oracle.  Reads private fields directly (no hooks needed)."""
import spydrnet as sdn
from spydrnet.ir.innerpin import InnerPin as _InnerPinBase
from spydrnet.ir.outerpin import OuterPin as _OuterPinBase


def jval(v):
    """JSON-like image of a data value (tuples->lists, sets sorted, other objects -> repr)."""
    if v is None or isinstance(v, (bool, int, str)):
        return v
    if isinstance(v, float):
        return {"float": repr(v)}
    if isinstance(v, (list, tuple)):
        return [jval(x) for x in v]
    if isinstance(v, dict):
        return {str(k): jval(x) for k, x in sorted(v.items(), key=lambda kv: str(kv[0]))}
    if isinstance(v, (set, frozenset)):
        return {"set": sorted(repr(x) for x in v)}
    return {"obj": type(v).__name__ + ":" + str(v)}


def jdata(e, skip=(".NS",)):
    return {k: jval(v) for k, v in sorted(e._data.items()) if k not in skip}


def dir_name(p):
    return p.direction.name if hasattr(p.direction, "name") else str(p.direction)


def cnetlist(nl, with_data=True, skip=(".NS",)):
    """Positional canonical value. References are (library index, definition index) inside this
    netlist, or ["ext", name] when they point outside it."""
    libs = list(nl._libraries)
    dpos = {}
    for li, lib in enumerate(libs):
        for di, d in enumerate(lib._definitions):
            dpos[id(d)] = [li, di]

    def ref_of(inst):
        r = inst._reference
        if r is None:
            return None
        return dpos.get(id(r), ["ext", r.name])

    out = {"name": nl.name, "data": jdata(nl, skip) if with_data else {}, "libraries": []}
    for lib in libs:
        L = {"name": lib.name, "data": jdata(lib, skip) if with_data else {}, "definitions": []}
        for d in lib._definitions:
            ports = list(d._ports)
            kids = list(d._children)
            ppos = {}
            for pi, p in enumerate(ports):
                for bi, q in enumerate(p._pins):
                    ppos[id(q)] = ["p", pi, bi]
            kpos = {id(k): ki for ki, k in enumerate(kids)}

            def pinref(x):
                if isinstance(x, _OuterPinBase):
                    inst, q = x._instance, x._inner_pin
                    if inst is None or q is None or id(inst) not in kpos:
                        return ["x", "outer-foreign"]
                    port = q._port
                    r = inst._reference
                    if port is None or r is None or port not in r._ports:
                        return ["x", "outer-noport"]
                    return ["i", kpos[id(inst)], r._ports.index(port), port._pins.index(q)]
                return ppos.get(id(x), ["x", "inner-foreign"])

            D = {"name": d.name, "data": jdata(d, skip) if with_data else {},
                 "ports": [{"name": p.name, "dir": dir_name(p), "width": len(p._pins), "scalar": bool(p.is_scalar),
                            "lower": p._lower_index, "downto": bool(p._is_downto),
                            "data": jdata(p, skip) if with_data else {}} for p in ports],
                 "cables": [{"name": c.name, "scalar": bool(c.is_scalar), "lower": c._lower_index,
                             "downto": bool(c._is_downto), "data": jdata(c, skip) if with_data else {},
                             "wires": [[pinref(x) for x in w._pins] for w in c._wires]} for c in d._cables],
                 "instances": [{"name": k.name, "ref": ref_of(k), "data": jdata(k, skip) if with_data else {}} for k in kids]}
            L["definitions"].append(D)
        out["libraries"].append(L)
    t = nl._top_instance
    if t is None:
        out["top"] = None
    else:
        out["top"] = {"name": t.name, "ref": ref_of(t), "data": jdata(t, skip) if with_data else {},
                      "child_of": dpos.get(id(t._parent)) if t._parent is not None else None}
    return out


def wf_problems(nl, limit=20):
    """Independent well-formedness / self-containedness oracle on the live object graph.
    Returns a list of short problem strings (empty = well-formed)."""
    pr = []

    def bad(s):
        if len(pr) < limit:
            pr.append(s)
    libs = list(nl._libraries)
    if len(set(map(id, libs))) != len(libs):
        bad("duplicate library")
    defs_in = {}
    for lib in libs:
        if lib._netlist is not nl:
            bad("library.netlist")
        if len(set(map(id, lib._definitions))) != len(lib._definitions):
            bad("duplicate definition")
        for d in lib._definitions:
            defs_in[id(d)] = d
            if d._library is not lib:
                bad("definition.library")
    all_insts = []
    for d in defs_in.values():
        for nm, lst, back in (("port", d._ports, "_definition"), ("cable", d._cables, "_definition"), ("child", d._children, "_parent")):
            if len(set(map(id, lst))) != len(lst):
                bad("duplicate " + nm)
            for x in lst:
                if getattr(x, back) is not d:
                    bad(nm + " back-pointer")
        inner = {}
        for p in d._ports:
            if len(set(map(id, p._pins))) != len(p._pins):
                bad("duplicate pin")
            for q in p._pins:
                if q._port is not p:
                    bad("pin.port")
                inner[id(q)] = q
        kids = {id(k): k for k in d._children}
        all_insts.extend(d._children)
        for c in d._cables:
            if len(set(map(id, c._wires))) != len(c._wires):
                bad("duplicate wire")
            for w in c._wires:
                if w._cable is not c:
                    bad("wire.cable")
                seen = set()
                for x in w._pins:
                    if id(x) in seen:
                        bad("pin twice on wire")
                    seen.add(id(x))
                    if x._wire is not w:
                        bad("wire lists pin that reports another wire")
                    if isinstance(x, _OuterPinBase):
                        inst = x._instance
                        if inst is None or id(inst) not in kids:
                            bad("wire touches outer pin of a non-child instance")
                        elif inst._pins.get(x._inner_pin) is not x:
                            bad("outer pin on wire is not the instance's stored pin")
                    else:
                        if id(x) not in inner:
                            bad("wire touches inner pin of another definition")
        for p in d._ports:
            for q in p._pins:
                w = q._wire
                if w is not None:
                    if not any(y is q for y in w._pins):
                        bad("inner pin reports a wire that does not list it")
                    if w._cable is None or w._cable._definition is not d:
                        bad("inner pin wired outside its definition")
        for i in d._references:
            if i._reference is not d:
                bad("reference set holds instance with another reference")
    t = nl._top_instance
    if t is not None:
        all_insts.append(t)
    for k in all_insts:
        r = k._reference
        if r is None:
            if len(k._pins):
                bad("unreferenced instance has pins")
            continue
        if id(r) not in defs_in:
            bad("reference outside the netlist")
            continue
        if k not in r._references:
            bad("instance missing from reference set")
        want = [q for p in r._ports for q in p._pins]
        have = list(k._pins.keys())
        if len(want) != len(have) or set(map(id, want)) != set(map(id, have)):
            bad("outer pins do not mirror inner pins")
        for q, o in k._pins.items():
            if o._instance is not k or o._inner_pin is not q:
                bad("outer pin names wrong instance/inner pin")
            w = o._wire
            if w is not None:
                if not any(y is o for y in w._pins):
                    bad("outer pin reports a wire that does not list it")
                par = k._parent
                if w._cable is None or w._cable._definition is not par or par is None:
                    bad("outer pin wired outside the instance's parent")
    for d in defs_in.values():
        for i in d._references:
            if i._parent is not None and id(i._parent) not in defs_in:
                bad("reference set holds instance of a foreign definition")
            if i._parent is None and i is not t:
                pass  # orphan instances may legitimately reference (documented for clones)
    return pr
