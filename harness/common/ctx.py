"""Run context shared by every engine: counters, obligations, verdict, evidence.

An engine module exposes   run(ctx)   and reports through the ctx methods:

  ctx.obligation(name, ok, detail)        a proof obligation (Lean theorem / build / audit)
  ctx.corr_mismatch(what, input, impl, model)   model and implementation disagree
  ctx.spec_failure(signature, input, detail)    the property's predicate P is false on the
                                                implementation's own output for `input`
  ctx.case(key, nontrivial)               one explored case (for evidence counting)
  ctx.sample(x) / ctx.dist(tag)           evidence samples / input-distribution histogram

Verdict (ctx.finish):
  spec_failure not covered by an open known finding  -> VIOLATION ... replay=<file>      exit 1
  broken obligation or correspondence, no spec failure-> VIOLATION ... no-failing-input-found  exit 1
  only open known findings                            -> KNOWN-FINDING lines              exit 0
"""
import hashlib
import json
import os
import random
import sys
import time

ROOT = os.environ.get("VERIF_ROOT") or os.path.dirname(os.path.dirname(os.path.dirname(os.path.abspath(__file__))))
REPO = os.environ.get("VERIF_REPO", "/repo")

TRUSTED_BASE = [
    "Lean 4.33.0 kernel; axioms allowed in property theorems: propext, Classical.choice, Quot.sound (audited every run by #print axioms); no sorry/admit/native_decide/bv_decide/own axioms (grep every run)",
    "Lean compiler/runtime: the driver executes the same definitions the theorems are about",
    "correspondence harness (Python): generators, canonical dump of the implementation state, line encoding, diff",
    "CPython list/dict/set/str semantics, re/fnmatch, file I/O, GC: modelled or observed, not verified",
]


def stable_hash(obj):
    return hashlib.sha1(json.dumps(obj, sort_keys=True, default=str).encode()).hexdigest()[:16]


class Deadline(Exception):
    pass


class Ctx:
    def __init__(self, pid, tier, seed, replay=None):
        self.pid = pid
        self.tier = tier
        self.seed = seed
        self.replay = replay
        self.t0 = time.time()
        self.budget_s = {"quick": 150, "thorough": 1500}[tier]
        self.obligations = []      # (name, ok, detail)
        self.corr = []             # dicts
        self.spec = []             # dicts
        self.evaluations = 0
        self.distinct = set()
        self.samples = []
        self.hist = {}
        self.assumptions = []
        self.rule = ""
        self.level = "proof"
        self.checker_cmd = ""
        self.extra = {}
        self.exhaustive = False
        self.partial_notes = []

    # ---- helpers -------------------------------------------------------
    def rng(self, *salt):
        return random.Random(stable_hash([self.seed, self.pid] + list(salt)))

    def time_left(self):
        return self.budget_s - (time.time() - self.t0)

    def scale(self, quick, thorough):
        return quick if self.tier == "quick" else thorough

    # ---- reporting -----------------------------------------------------
    def obligation(self, name, ok, detail=""):
        self.obligations.append((name, bool(ok), detail))

    def corr_mismatch(self, what, inp, impl=None, model=None, signature=None):
        """`signature`: set it when the divergence is the direct effect of a defect that is listed in
        the known-findings file (the model follows the repaired code); such mismatches are not
        counted while that finding is open."""
        if len(self.corr) < 50:
            self.corr.append({"obligation": what, "input": inp, "impl": impl, "model": model, "signature": signature})
        else:
            self.corr.append({"obligation": what, "signature": signature})

    def spec_failure(self, signature, inp, detail=""):
        self.spec.append({"signature": signature, "input": inp, "detail": detail})

    def case(self, key=None, nontrivial=True, n=1):
        self.evaluations += n
        if nontrivial and key is not None:
            self.distinct.add(key if isinstance(key, (str, int)) else stable_hash(key))

    def sample(self, x, cap=5):
        if len(self.samples) < cap:
            self.samples.append(x)

    def dist(self, tag, n=1):
        self.hist[tag] = self.hist.get(tag, 0) + n

    def merge_shard(self, r):
        """Merge the dict a shard worker returned (see common.shard.ShardResult)."""
        self.evaluations += r.get("evaluations", 0)
        self.distinct.update(r.get("distinct", []))
        for s in r.get("samples", []):
            self.sample(s)
        for k, v in r.get("hist", {}).items():
            self.dist(k, v)
        for c in r.get("corr", []):
            self.corr.append(c)
        for s in r.get("spec", []):
            self.spec.append(s)
        for o in r.get("obligations", []):
            self.obligations.append(tuple(o))

    # ---- verdict -------------------------------------------------------
    def finish(self):
        from common import findings
        known = findings.load()
        open_k = [k for k in known if k["property"] == self.pid and k.get("status") == "open"]
        open_sigs = {k["signature"]: k for k in open_k}
        new_spec = [s for s in self.spec if s["signature"] not in open_sigs]
        seen_known = {}
        for s in self.spec:
            if s["signature"] in open_sigs:
                seen_known.setdefault(s["signature"], s)
        broken = [(n, d) for (n, ok, d) in self.obligations if not ok]
        self.corr = [c for c in self.corr if not (c.get("signature") and c["signature"] in open_sigs)]
        lines = []
        code = 0
        violations = 0
        rdir = os.path.join(ROOT, "replays", self.pid)
        if new_spec:
            os.makedirs(rdir, exist_ok=True)
            bysig = {}
            for s in new_spec:
                bysig.setdefault(s["signature"], []).append(s)
            for sig, lst in sorted(bysig.items()):
                best = min(lst, key=lambda s: len(json.dumps(s["input"], default=str)))
                path = os.path.join(rdir, "%s_%s.json" % (sig.replace("/", "_").replace(" ", "_")[:60], stable_hash(best["input"])))
                with open(path, "w") as f:
                    json.dump({"property": self.pid, "kind": "failing-input", "signature": sig,
                               "input": best["input"], "detail": best["detail"], "count": len(lst),
                               "seed": self.seed, "tier": self.tier,
                               "replay_cmd": "./check %s --replay %s" % (self.pid, os.path.relpath(path, ROOT))},
                              f, indent=1, default=str)
                lines.append("VIOLATION property=%s replay=%s" % (self.pid, os.path.relpath(path, ROOT)))
                violations += 1
            code = 1
        elif broken or self.corr:
            os.makedirs(rdir, exist_ok=True)
            path = os.path.join(rdir, "unproved_%s.json" % stable_hash([broken, self.corr[:3]]))
            with open(path, "w") as f:
                json.dump({"property": self.pid, "kind": "obligation-no-longer-checks",
                           "broken_theorems_or_build": [{"name": n, "detail": d} for n, d in broken],
                           "broken_correspondence": self.corr[:20],
                           "n_correspondence_mismatches": len(self.corr),
                           "note": "the property is no longer shown to hold; a search of the model and implementation found no input on which the property itself fails",
                           "seed": self.seed, "tier": self.tier}, f, indent=1, default=str)
            lines.append("VIOLATION property=%s replay=%s no-failing-input-found" % (self.pid, os.path.relpath(path, ROOT)))
            violations += 1
            code = 1
        for k in open_k:
            hit = seen_known.get(k["signature"])
            lines.append("KNOWN-FINDING: property=%s %s [%s]%s" % (self.pid, k["what"], k["signature"],
                                                                  "" if hit else " (pinned input not re-observed this run)"))
        self.write_evidence(violations)
        for l in lines:
            print(l)
        n_ob = len(self.obligations)
        n_ok = sum(1 for (_, ok, _) in self.obligations if ok)
        print("[%s %s seed=%d] obligations %d/%d, cases %d (distinct non-trivial %d), corr mismatches %d, spec failures %d (known %d), %.1fs"
              % (self.pid, self.tier, self.seed, n_ok, n_ob, self.evaluations, len(self.distinct),
                 len(self.corr), len(self.spec), len(self.spec) - len(new_spec), time.time() - self.t0))
        sys.stdout.flush()
        return code

    def write_evidence(self, violations):
        n_ob = len(self.obligations)
        n_ok = sum(1 for (_, ok, _) in self.obligations if ok)
        cov = {
            "obligations": n_ob,
            "discharged": n_ok,
            "checker_cmd": self.checker_cmd or "cd lean && lake build && lake env lean <Audit file> (#print axioms)",
            "trusted_base": TRUSTED_BASE,
            "evaluations": self.evaluations,
            "distinct_nontrivial": len(self.distinct),
            "rule": self.rule,
            "samples": self.samples if self.samples else [{"obligations": [o[0] for o in self.obligations[:5]]}],
            "input_distribution": dict(sorted(self.hist.items())),
            "obligation_list": [{"name": n, "ok": ok, "detail": d} for (n, ok, d) in self.obligations],
            "correspondence_mismatches": len(self.corr),
            "spec_failures": len(self.spec),
            "exhaustive": self.exhaustive,
        }
        cov.update(self.extra)
        ev = {
            "property_id": self.pid,
            "tier": self.tier,
            "seed": self.seed,
            "level": self.level,
            "coverage": cov,
            "assumptions": self.assumptions + self.partial_notes,
            "wall_s": round(time.time() - self.t0, 2),
            "violations": violations,
        }
        # runs against a scratch copy (VERIF_REPO set: seeded-change evaluation) must not overwrite the evidence of /repo
        evdir = os.environ.get("VERIF_EVIDENCE_DIR") or (os.path.join(ROOT, "evidence") if os.path.realpath(REPO) == "/repo"
                                                         else os.path.join(ROOT, "evidence", ".scratch"))
        ev["coverage"]["repo"] = REPO
        os.makedirs(evdir, exist_ok=True)
        tmp = os.path.join(evdir, self.pid + ".json.tmp")
        with open(tmp, "w") as f:
            json.dump(ev, f, indent=1, default=str)
        os.replace(tmp, os.path.join(evdir, self.pid + ".json"))
