"""Known findings: committed files, never written at run time.
known_findings.json {"findings":[...]} plus known_findings.d/*.json (same shape, one per engine).
Entry: {"property","signature","status":"open"|"fixed","what","input"?, "commit"?}"""
import glob
import json
import os
from common.ctx import ROOT


def load():
    out = []
    paths = [os.path.join(ROOT, "known_findings.json")] + sorted(glob.glob(os.path.join(ROOT, "known_findings.d", "*.json")))
    for p in paths:
        if os.path.exists(p):
            with open(p) as f:
                out.extend(json.load(f).get("findings", []))
    return out
