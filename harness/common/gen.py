"""Random netlist generator (through the public API).  Everything derives from the rng given."""
import spydrnet as sdn

NAMES = ["a", "b", "c", "d", "e", "f", "g", "h", "k", "m", "n", "p", "q", "r", "s", "t", "u", "v", "w", "x", "y", "z"]


def fresh(rng, used, stem):
    while True:
        n = stem + rng.choice(NAMES) + (str(rng.randrange(10)) if rng.random() < 0.5 else "")
        if n.lower() not in used:
            used.add(n.lower())
            return n


def gen_netlist(rng, n_leaf=(1, 3), n_mid=(1, 4), max_children=4, max_ports=4, max_width=3,
                n_libs=(1, 2), named=True, p_unconnected=0.25, p_lower=0.3, extra_top_child=False,
                data=True, p_passthrough=0.2, unnamed_frac=0.0, orphan_insts=0, name_stem=""):
    """A hierarchical netlist: leaf definitions (ports only), a DAG of non-leaf definitions each
    instantiating earlier ones, the last one is top.  Returns the netlist.
    Nets: inside each non-leaf definition, every wire joins a random set of port pins and child pins
    (each pin on at most one wire)."""
    nl = sdn.Netlist()
    used = set()

    def nm(stem):
        if not named or rng.random() < unnamed_frac:
            return None
        return fresh(rng, used, name_stem + stem)
    nl.name = nm("nl_") or "nl"
    libs = [nl.create_library(name=nm("lib_")) for _ in range(rng.randint(*n_libs))]
    defs = []

    def mkports(d, lo=1):
        pused = set()
        for _ in range(rng.randint(lo, max_ports)):
            w = 1 if rng.random() < 0.5 else rng.randint(1, max_width)
            p = d.create_port(name=(fresh(rng, pused, "P") if named else None))
            p.direction = rng.choice([sdn.IN, sdn.OUT, sdn.INOUT])
            p.create_pins(w)
            if w == 1 and rng.random() < 0.2:
                p.is_scalar = False
            if w > 1 or not p.is_scalar:
                if rng.random() < p_lower:
                    p.lower_index = rng.randint(1, 4)
                if rng.random() < 0.2:
                    p.is_downto = False
            if data and rng.random() < 0.2:
                p["pk"] = rng.choice([1, "v", True])
            if data and rng.random() < 0.15:
                p["nested"] = {"l": [rng.randint(0, 9)]}

    for _ in range(rng.randint(*n_leaf)):
        d = rng.choice(libs).create_definition(name=nm("leaf_"))
        mkports(d)
        if data and rng.random() < 0.3:
            d["dk"] = rng.choice([3, "x", [1, 2]])
        defs.append(d)
    n_mid_v = rng.randint(*n_mid)
    for mi in range(n_mid_v):
        d = rng.choice(libs).create_definition(name=nm("mod_"))
        mkports(d, lo=0 if mi == n_mid_v - 1 else 1)
        iused, cused = set(), set()
        kids = []
        for _ in range(rng.randint(1, max_children)):
            ref = rng.choice(defs)
            k = d.create_child(name=(fresh(rng, iused, "I") if named and rng.random() >= unnamed_frac else None), reference=ref)
            if data and rng.random() < 0.3:
                k["ik"] = rng.choice([7, "s", False])
            if data and rng.random() < 0.25:
                k["nested"] = [rng.randint(0, 9), {"a": [rng.randint(0, 9)]}]
            kids.append(k)
        free = [q for p in d.ports for q in p.pins]
        for k in kids:
            free.extend(k.pins)
        rng.shuffle(free)
        free = [q for q in free if rng.random() >= p_unconnected]
        while free:
            wdt = 1 if rng.random() < 0.6 else rng.randint(1, max_width)
            c = d.create_cable(name=(fresh(rng, cused, "N") if named and rng.random() >= unnamed_frac else None))
            c.create_wires(wdt)
            if wdt == 1 and rng.random() < 0.15:
                c.is_scalar = False
            if (wdt > 1 or not c.is_scalar) and rng.random() < p_lower:
                c.lower_index = rng.randint(1, 5)
            for w in c.wires:
                if not free:
                    break
                for _ in range(rng.choice([1, 2, 2, 3, 4])):
                    if free:
                        w.connect_pin(free.pop())
            if rng.random() < 0.1:
                break
        if rng.random() < 0.15:
            c = d.create_cable(name=(fresh(rng, cused, "N") if named else None))
            c.create_wires(rng.randint(1, 2))
        defs.append(d)
    top_def = defs[-1]
    nl.top_instance = sdn.Instance()
    nl.top_instance.name = nm("top_") or ("top" if named else None)
    nl.top_instance.reference = top_def
    for _ in range(orphan_insts):
        o = sdn.Instance()
        o.reference = rng.choice(defs)
    return nl
