"""Lean side of every check: build, hygiene grep, axiom audit, driver process."""
import json
import os
import re
import subprocess
import fcntl
from common.ctx import ROOT

LEAN = os.path.join(ROOT, "lean")
ALLOWED_AXIOMS = {"propext", "Classical.choice", "Quot.sound"}
FORBIDDEN = re.compile(r"\bsorry\b|\badmit\b|^\s*axiom\s|\bnative_decide\b|\bbv_decide\b|implemented_by|\bunsafe\s|maxHeartbeats\s+0\b|\bpartial\s+def\b", re.M)


def _strip_comments(src):
    # nested block comments /- ... -/ and line comments --
    out = []
    i, n, depth = 0, len(src), 0
    while i < n:
        if src.startswith("/-", i):
            depth += 1
            i += 2
        elif depth and src.startswith("-/", i):
            depth -= 1
            i += 2
        elif depth:
            if src[i] == "\n":
                out.append("\n")
            i += 1
        elif src.startswith("--", i):
            while i < n and src[i] != "\n":
                i += 1
        elif src[i] == '"':
            j = i + 1
            while j < n and src[j] != '"':
                j += 2 if src[j] == "\\" else 1
            out.append('""')
            i = j + 1
        else:
            out.append(src[i])
            i += 1
    return "".join(out)


def _lock():
    os.makedirs(os.path.join(LEAN, ".lake"), exist_ok=True)
    f = open(os.path.join(LEAN, ".lake", "verif.lock"), "w")
    fcntl.flock(f, fcntl.LOCK_EX)
    return f


def build(targets, timeout=1500):
    """lake build of the given targets (module names / exe names). Returns (ok, output)."""
    lk = _lock()
    try:
        p = subprocess.run(["lake", "build"] + list(targets), cwd=LEAN, stdout=subprocess.PIPE,
                           stderr=subprocess.STDOUT, text=True, timeout=timeout)
        return p.returncode == 0, p.stdout[-4000:]
    except subprocess.TimeoutExpired:
        return False, "lake build timed out"
    finally:
        lk.close()


def hygiene(subdir):
    """grep the engine's Lean sources (comments and strings stripped) for forbidden constructs.
    `partial def` is tolerated only under Drivers/ and Common/Proto.lean (IO loops, not models)."""
    bad = []
    base = os.path.join(LEAN, subdir)
    for dp, _, fs in os.walk(base):
        for fn in fs:
            if not fn.endswith(".lean"):
                continue
            path = os.path.join(dp, fn)
            src = _strip_comments(open(path).read())
            for m in FORBIDDEN.finditer(src):
                line = src.count("\n", 0, m.start()) + 1
                bad.append("%s:%d:%s" % (os.path.relpath(path, LEAN), line, m.group(0).strip()))
    return bad


def audit(audit_file, timeout=900):
    """Run `lake env lean <audit_file>`; parse `'name' depends on axioms: [..]` / `does not depend`.
    Returns dict theorem -> set(axioms) and raw output."""
    lk = _lock()
    try:
        p = subprocess.run(["lake", "env", "lean", audit_file], cwd=LEAN, stdout=subprocess.PIPE,
                           stderr=subprocess.STDOUT, text=True, timeout=timeout)
    except subprocess.TimeoutExpired:
        return {}, "audit timed out", False
    finally:
        lk.close()
    out = p.stdout
    res = {}
    flat = re.sub(r"\s+", " ", out)
    for m in re.finditer(r"'([^']+)' depends on axioms: \[([^\]]*)\]", flat):
        res[m.group(1)] = set(a.strip() for a in m.group(2).split(",") if a.strip())
    for m in re.finditer(r"'([^']+)' does not depend on any axioms", flat):
        res[m.group(1)] = set()
    return res, out[-3000:], p.returncode == 0


def check_obligations(ctx, engine_dir, modules, exes, audit_file, theorems):
    """Standard proof-obligation block of a check. `theorems`: fully qualified names that must
    appear in the audit with only allowed axioms."""
    ok, out = build(list(modules) + list(exes))
    ctx.obligation("lake build " + " ".join(list(modules) + list(exes)), ok, "" if ok else out[-1500:])
    bad = hygiene(engine_dir)
    ctx.obligation("hygiene grep (sorry/admit/axiom/native_decide/bv_decide/implemented_by/unsafe/maxHeartbeats 0/partial def) in lean/" + engine_dir,
                   not bad, "; ".join(bad[:10]))
    ax, raw, aok = audit(audit_file) if ok else ({}, "skipped: build failed", False)
    for t in theorems:
        if t not in ax:
            ctx.obligation("theorem " + t, False, "not reported by #print axioms (%s)" % ("audit failed: " + raw[-300:] if not aok else "missing"))
        else:
            extra = ax[t] - ALLOWED_AXIOMS
            ctx.obligation("theorem " + t, not extra, ("axioms: " + ", ".join(sorted(ax[t]))) if ax[t] else "no axioms")
    ctx.checker_cmd = "cd lean && lake build %s && lake env lean %s" % (" ".join(list(modules) + list(exes)), audit_file)
    return ok


def leanchecker(ctx, modules, timeout=1400):
    lk = _lock()
    try:
        p = subprocess.run(["lake", "env", "leanchecker"] + list(modules), cwd=LEAN, stdout=subprocess.PIPE,
                           stderr=subprocess.STDOUT, text=True, timeout=timeout)
        ctx.obligation("leanchecker " + " ".join(modules), p.returncode == 0, p.stdout[-500:])
    except subprocess.TimeoutExpired:
        ctx.partial_notes.append("leanchecker timed out (not counted)")
    finally:
        lk.close()


class Driver:
    """A running lean_exe driver speaking the JSON line protocol."""

    def __init__(self, exe):
        path = os.path.join(LEAN, ".lake", "build", "bin", exe)
        self.p = subprocess.Popen([path], stdin=subprocess.PIPE, stdout=subprocess.PIPE, text=True, bufsize=1)

    def ask(self, req):
        self.p.stdin.write(json.dumps(req, separators=(",", ":")) + "\n")
        self.p.stdin.flush()
        line = self.p.stdout.readline()
        if not line:
            raise RuntimeError("driver died on request %r" % (req,))
        return json.loads(line)

    def ask_many(self, reqs):
        """Pipeline several requests (writer thread avoids pipe deadlock)."""
        import threading
        data = "".join(json.dumps(r, separators=(",", ":")) + "\n" for r in reqs)
        t = threading.Thread(target=lambda: (self.p.stdin.write(data), self.p.stdin.flush()))
        t.start()
        out = []
        for _ in reqs:
            line = self.p.stdout.readline()
            if not line:
                raise RuntimeError("driver died")
            out.append(json.loads(line))
        t.join()
        return out

    def close(self):
        try:
            self.p.stdin.close()
            self.p.wait(timeout=5)
        except Exception:
            self.p.kill()
