"""CPU-time aware limits for forked children: a wall-clock limit alone raises false 'hang' verdicts on a loaded machine."""
import os


def child_cpu_seconds(pid):
    """user+system CPU seconds consumed so far by process `pid` (None if it cannot be read)."""
    try:
        with open("/proc/%d/stat" % pid) as f:
            rest = f.read().rsplit(")", 1)[1].split()
        ticks = int(rest[11]) + int(rest[12])          # utime, stime (fields 14, 15 of the full line)
        return ticks / float(os.sysconf("SC_CLK_TCK"))
    except Exception:
        return None


def really_hung(pid, cpu_limit, wall_elapsed, hard_wall):
    """After the wall-clock limit expired: is the child burning CPU (a real hang / blow-up), or merely starved?
    True = give up (CPU budget used, CPU time unreadable, or the hard wall limit reached)."""
    cpu = child_cpu_seconds(pid)
    if cpu is None or cpu >= cpu_limit or wall_elapsed >= hard_wall:
        return True
    return False
