"""Run shard workers in separate processes (fresh interpreter state per shard: spydrnet's global
naming policy and callback tables are process-wide)."""
import multiprocessing as mp
import os
import traceback


def _wrap(args):
    fn, a = args
    try:
        r = fn(*a)
        if isinstance(r, dict):
            r.pop("_shrunk", None)
            r.pop("_d", None)
        return r
    except Exception:
        return {"obligations": [("harness shard ran without internal error", False, traceback.format_exc()[-2000:])]}


def run_shards(ctx, fn, arglist, procs=None):
    procs = procs or min(len(arglist), int(os.environ.get("VERIF_PROCS", "16")))
    if procs <= 1 or len(arglist) == 1:
        for a in arglist:
            ctx.merge_shard(_wrap((fn, a)))
        return
    mpctx = mp.get_context("fork")
    with mpctx.Pool(procs, maxtasksperchild=1) as pool:
        for r in pool.imap_unordered(_wrap, [(fn, a) for a in arglist]):
            ctx.merge_shard(r)


class ShardResult(dict):
    """dict with the keys Ctx.merge_shard understands plus helpers."""

    def __init__(self):
        super().__init__(evaluations=0, distinct=[], samples=[], hist={}, corr=[], spec=[], obligations=[])
        self._d = set()

    def case(self, key=None, nontrivial=True):
        self["evaluations"] += 1
        if nontrivial and key is not None:
            from common.ctx import stable_hash
            k = key if isinstance(key, (str, int)) else stable_hash(key)
            if k not in self._d:
                self._d.add(k)
                self["distinct"].append(k)

    def sample(self, x, cap=3):
        if len(self["samples"]) < cap:
            self["samples"].append(x)

    def dist(self, tag, n=1):
        self["hist"][tag] = self["hist"].get(tag, 0) + n

    def corr_mismatch(self, what, inp, impl=None, model=None, signature=None):
        if len(self["corr"]) < 20:
            self["corr"].append({"obligation": what, "input": inp, "impl": impl, "model": model, "signature": signature})

    def spec_failure(self, signature, inp, detail=""):
        if len(self["spec"]) < 200:
            self["spec"].append({"signature": signature, "input": inp, "detail": detail})
