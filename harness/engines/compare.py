"""Engine `compare` — property C20 (the netlist comparer accepts equal netlists and rejects structural
differences).

Lean side:  lean/Spydr/Compare/{Model,Spec,Lemmas}.lean, Props/C20.lean, Audit.lean, Drivers/Compare.lean
This file:  generators (named hierarchical netlists, copies, single mutations), the independent Python
            oracle for `examined`, the correspondence check against the Lean model, P on the
            implementation, shrinking, replay.

An input x is a JSON value
    {"a": CNetlist, "copy": "rebuild"|"clone"|"edif"|"verilog"|"given", "b": CNetlist (copy == given),
     "pre": [mutation...] (applied to the live original before copying), "mut": [mutation...] (applied
     to the live copy)}
`a` (and `b`) are instantiated through the public API by `build`, the copy is produced by the named
operation, the mutations are applied positionally on the live objects, then
`Comparer(A, B).compare()` runs and its outcome (returned / exception family) is compared with the
model's on `cnet(A)`, `cnet(B)`.
"""
import contextlib
import copy as _copy
import io
import json
import os
import signal
import tempfile

from common import canon, gen
from common import lean as L
from common.ctx import stable_hash, ROOT
from common.shard import run_shards, ShardResult

PID = "C20"
MODULES = ["Spydr.Compare.Props.C20"]
THEOREMS = [
    "Spydr.Compare.C20.compare_refl",
    "Spydr.Compare.C20.compare_complete",
    "Spydr.Compare.C20.compare_sound",
    "Spydr.Compare.C20.compare_sound_contrapositive",
    "Spydr.Compare.C20.compare_sound_named",
    "Spydr.Compare.C20.compare_sound_named_contrapositive",
    "Spydr.Compare.C20.examinedEqB_iff",
    "Spydr.Compare.C20.examinedNEqB_iff",
    "Spydr.Compare.C20.identsEqB_iff",
    "Spydr.Compare.C20.unrepaired_accepts_moved_pin",
    "Spydr.Compare.C20.pinned_rejects_self",
    "Spydr.Compare.C20.mutation_port_raises",
    "Spydr.Compare.C20.mutation_cable_width_raises",
    "Spydr.Compare.C20.mutation_move_connection_raises",
    "Spydr.Compare.C20.mutation_wire_pincount_raises",
    "Spydr.Compare.C20.mutation_repoint_raises",
    "Spydr.Compare.C20.mutation_property_raises",
    "Spydr.Compare.C20.mutation_element_count_raises",
    "Spydr.Compare.C20.mutation_definition_count_raises",
    "Spydr.Compare.C20.mutation_library_count_raises",
]

SIG_OUTER = "compare_outer_pins.same_instance_other_pin_accepted"
SIG_UNINDEXED = "Comparer.lookup.copy_without_name_index_rejected"
SIG_WILDCARD = "Comparer.lookup.wildcard_in_name_rejects_faithful_copy"
SIG_DRC = "Comparer.compare_ports.port_without_pins_rejects_faithful_copy"
SIG_NONAME = "Comparer.are_instances_equivalent.net_on_unnamed_instance_rejects_faithful_copy"


# --------------------------------------------------------------------------------------------
# canonical value (canon.cnetlist + additive fields), building a netlist from it
# --------------------------------------------------------------------------------------------

def pynorm(v):
    """Property values are compared by the comparer with Python `==`, under which 1 == 1.0 == True and
    0 == 0.0 == False: values are brought to one representative before their JSON text is compared
    (tuples, which never equal lists, are tagged)."""
    if isinstance(v, bool):
        return int(v)
    if isinstance(v, float) and v.is_integer():
        return int(v)
    if isinstance(v, list):
        return [pynorm(x) for x in v]
    if isinstance(v, tuple):
        return {"tuple": [pynorm(x) for x in v]}
    if isinstance(v, dict):
        return {k: pynorm(x) for k, x in v.items()}
    return v


def _patch_inst(ci, k):
    p = k._data.get("EDIF.properties")
    if p is None:
        ci["props"] = None
    elif isinstance(p, list) and all(isinstance(d, dict) and all(isinstance(key, str) for key in d) for d in p):
        ci["props"] = [[[key, canon.jval(pynorm(v))] for key, v in d.items()] for d in p]
    else:
        ci["props"] = "unsupported"
    r = ci.get("ref")
    if r and r[0] == "ext":
        ref = k._reference
        ci["ref"] = ["ext", ref.name, ref._library.name if ref._library is not None else None]


def cnet(nl):
    c = canon.cnetlist(nl)
    for li, lib in enumerate(nl._libraries):
        for di, d in enumerate(lib._definitions):
            for ki, k in enumerate(d._children):
                _patch_inst(c["libraries"][li]["definitions"][di]["instances"][ki], k)
    if nl._top_instance is not None:
        _patch_inst(c["top"], nl._top_instance)
    return c


def in_domain(c):
    """Expressible in the Lean CNetlist: placed pins, supported properties."""
    for lib in c["libraries"]:
        for d in lib["definitions"]:
            for cb in d["cables"]:
                for w in cb["wires"]:
                    for p in w:
                        if p[0] == "x":
                            return False
            for k in d["instances"]:
                if k.get("props") == "unsupported":
                    return False
    if c["top"] is not None and c["top"].get("props") == "unsupported":
        return False
    return True


def _unj(v):
    """inverse of canon.jval / pynorm on the generated values ({"float": repr} and {"tuple": [...]} tags)"""
    if isinstance(v, dict):
        if set(v) == {"float"} and isinstance(v["float"], str):
            return float(v["float"])
        if set(v) == {"tuple"} and isinstance(v["tuple"], list):
            return tuple(_unj(x) for x in v["tuple"])
        return {k: _unj(x) for k, x in v.items()}
    if isinstance(v, list):
        return [_unj(x) for x in v]
    return v


def _set_data(e, data):
    for k, v in data.items():
        if k in (".NAME",):
            continue
        e[k] = _unj(v)


def build(c):
    """Instantiate a CNetlist value through the public API."""
    import spydrnet as sdn
    nl = sdn.Netlist()
    if c.get("name") is not None:
        nl.name = c["name"]
    _set_data(nl, c.get("data", {}))
    defs = []
    for L_ in c["libraries"]:
        lib = nl.create_library(name=L_["name"])
        _set_data(lib, L_.get("data", {}))
        row = []
        for D in L_["definitions"]:
            d = lib.create_definition(name=D["name"])
            _set_data(d, D.get("data", {}))
            for P in D["ports"]:
                p = d.create_port(name=P["name"])
                p.direction = sdn.ir.Port.Direction[P["dir"]]
                if P["width"]:
                    p.create_pins(P["width"])
                if P["width"] <= 1:
                    p.is_scalar = P["scalar"]
                p.lower_index = P.get("lower", 0)
                p.is_downto = P.get("downto", True)
                _set_data(p, P.get("data", {}))
            row.append(d)
        defs.append(row)

    def ref_of(r):
        if r is None:
            return None
        if r[0] == "ext":
            raise ValueError("external reference cannot be built")
        return defs[r[0]][r[1]]

    def props_of(K, k):
        pr = K.get("props")
        if pr is not None and pr != "unsupported":
            k["EDIF.properties"] = [{kk: _unj(v) for kk, v in d} for d in pr]

    for li, L_ in enumerate(c["libraries"]):
        for di, D in enumerate(L_["definitions"]):
            d = defs[li][di]
            for K in D["instances"]:
                k = d.create_child(name=K["name"], reference=ref_of(K["ref"]))
                _set_data(k, {kk: v for kk, v in K.get("data", {}).items() if kk != "EDIF.properties"})
                props_of(K, k)
    for li, L_ in enumerate(c["libraries"]):
        for di, D in enumerate(L_["definitions"]):
            d = defs[li][di]
            for C in D["cables"]:
                cb = d.create_cable(name=C["name"])
                if C["wires"]:
                    cb.create_wires(len(C["wires"]))
                if len(C["wires"]) <= 1:
                    cb.is_scalar = C.get("scalar", True)
                cb.lower_index = C.get("lower", 0)
                cb.is_downto = C.get("downto", True)
                _set_data(cb, C.get("data", {}))
                for w, W in zip(cb.wires, C["wires"]):
                    for pr in W:
                        w.connect_pin(_live_pin(d, pr))
    T = c.get("top")
    if T is not None:
        t = sdn.Instance()
        if T["name"] is not None:
            t.name = T["name"]
        t.reference = ref_of(T["ref"])
        _set_data(t, {kk: v for kk, v in T.get("data", {}).items() if kk != "EDIF.properties"})
        props_of(T, t)
        nl.top_instance = t
    return nl


def _live_pin(d, pr):
    if pr[0] == "p":
        return d.ports[pr[1]].pins[pr[2]]
    k = d.children[pr[1]]
    return k.pins[k.reference.ports[pr[2]].pins[pr[3]]]


def strip(c):
    """The part of a CNetlist that decides "faithful copy" (DESIGN §5 decision 7): everything positional,
    and of the data dictionaries only what the comparer reads."""
    def inst(k):
        if k is None:
            return None
        return {"name": k["name"], "ref": k["ref"], "props": k.get("props"),
                "oid": k.get("data", {}).get("EDIF.original_identifier")}

    def oid(e):
        return e.get("data", {}).get("EDIF.original_identifier")
    out = {"name": c["name"], "oid": oid(c), "libraries": [], "top": inst(c["top"])}
    pos = {}
    for li, lib in enumerate(c["libraries"]):
        for di, d in enumerate(lib["definitions"]):
            pos.setdefault((lib["name"], d["name"]), []).append([li, di])
    t = out["top"]
    if t is not None and t["ref"] and t["ref"][0] == "ext":
        # C07 candidate 1 (clone leaves the top instance pointing at the original's definition): the
        # reference is identified by (library name, definition name) when that is unambiguous
        cands = pos.get((t["ref"][2], t["ref"][1]), [])
        if len(cands) == 1:
            t["ref"] = cands[0]
    for lib in c["libraries"]:
        out["libraries"].append({"name": lib["name"], "oid": oid(lib), "definitions": [
            {"name": d["name"], "oid": oid(d),
             "ports": [{"name": p["name"], "oid": oid(p), "dir": p["dir"], "width": p["width"], "scalar": p["scalar"],
                        "lower": p.get("lower"), "downto": p.get("downto")} for p in d["ports"]],
             "cables": [{"name": cb["name"], "oid": oid(cb), "scalar": cb.get("scalar"), "lower": cb.get("lower"),
                         "downto": cb.get("downto"), "wires": cb["wires"]} for cb in d["cables"]],
             "instances": [inst(k) for k in d["instances"]]} for d in lib["definitions"]]})
    return out


# --------------------------------------------------------------------------------------------
# independent oracle: what is examined (DESIGN §5 decision 7), name-keyed
# --------------------------------------------------------------------------------------------

def _by_name(lst, nm):
    for x in lst:
        if x["name"] == nm:
            return x
    return None


def _names(lst):
    out = []
    for x in lst:
        if x["name"] is not None and x["name"] not in out:
            out.append(x["name"])
    return out


def _refview(net, r):
    if r is None:
        return None
    if r[0] == "ext":
        return [r[1], r[2] if len(r) > 2 else None]
    try:
        lib = net["libraries"][r[0]]
        return [lib["definitions"][r[1]]["name"], lib["name"]]
    except (IndexError, TypeError):
        return None


def _slots(po, pn):
    out = []
    for x, d in enumerate(po):
        row = []
        for k, _v in d:
            val = None
            if x < len(pn):
                for k2, v2 in pn[x]:
                    if k2 == k:
                        val = ["v", v2]
                        break
            row.append([k, val])
        out.append(row)
    return out


def _instview(net, oprops, k):
    if oprops is None:
        pv = None
    elif k.get("props") is None:
        pv = ["absent"]
    else:
        pv = ["slots", _slots(oprops, k["props"])]
    return {"ref": _refview(net, k["ref"]), "props": pv}


def _pinview(net, d, p):
    try:
        if p[0] == "p":
            return ["inner", d["ports"][p[1]]["name"], p[2]]
        if p[0] == "i":
            k = d["instances"][p[1]]
            r = k["ref"]
            port = net["libraries"][r[0]]["definitions"][r[1]]["ports"][p[2]]
            return ["outer", k["name"], port["name"], p[3]]
    except (IndexError, TypeError, KeyError):
        pass
    return ["unplaced"]


def examined(o, n):
    """View of n with respect to the original o (mirrors the *statement*, written independently of
    the Lean model and of the comparer)."""
    v = {"nLibs": len(n["libraries"]), "libs": {}, "top": None}
    ot = o.get("top")
    if n.get("top") is not None:
        v["top"] = _instview(n, ot.get("props") if ot is not None else None, n["top"])
    for ln in _names(n["libraries"]):
        lib = _by_name(n["libraries"], ln)
        olib = _by_name(o["libraries"], ln)
        lv = {"nDefs": len(lib["definitions"]), "defs": {}}
        for dn in _names(lib["definitions"]):
            d = _by_name(lib["definitions"], dn)
            od = _by_name(olib["definitions"], dn) if olib is not None else None
            dv = {"nPorts": len(d["ports"]), "nCables": len(d["cables"]), "nInsts": len(d["instances"]),
                  "ports": {}, "cables": {}, "insts": {}}
            for pn in _names(d["ports"]):
                p = _by_name(d["ports"], pn)
                dv["ports"][pn] = {"dir": p["dir"], "width": p["width"], "isArray": not p["scalar"]}
            for cn_ in _names(d["cables"]):
                cb = _by_name(d["cables"], cn_)
                dv["cables"][cn_] = [[_pinview(n, d, p) for p in w] for w in cb["wires"]]
            for kn in _names(d["instances"]):
                k = _by_name(d["instances"], kn)
                ok_ = _by_name(od["instances"], kn) if od is not None else None
                dv["insts"][kn] = _instview(n, ok_.get("props") if ok_ is not None else None, k)
            lv["defs"][dn] = dv
        v["libs"][ln] = lv
    return v


def examinedN(o, n):
    """The view of n restricted to the ORIGINAL's named elements ("among named elements"): answers only
    at names o uses (None where n has no such element); counts are total."""
    v = {"nLibs": len(n["libraries"]), "libs": {}, "top": None}
    ot = o.get("top")
    if n.get("top") is not None:
        v["top"] = _instview(n, ot.get("props") if ot is not None else None, n["top"])
    for ln in _names(o["libraries"]):
        olib = _by_name(o["libraries"], ln)
        lib = _by_name(n["libraries"], ln)
        if lib is None:
            v["libs"][ln] = None
            continue
        lv = {"nDefs": len(lib["definitions"]), "defs": {}}
        for dn in _names(olib["definitions"]):
            od = _by_name(olib["definitions"], dn)
            d = _by_name(lib["definitions"], dn)
            if d is None:
                lv["defs"][dn] = None
                continue
            dv = {"nPorts": len(d["ports"]), "nCables": len(d["cables"]), "nInsts": len(d["instances"]),
                  "ports": {}, "cables": {}, "insts": {}}
            for pn in _names(od["ports"]):
                p = _by_name(d["ports"], pn)
                dv["ports"][pn] = None if p is None else {"dir": p["dir"], "width": p["width"], "isArray": not p["scalar"]}
            for cn_ in _names(od["cables"]):
                cb = _by_name(d["cables"], cn_)
                dv["cables"][cn_] = None if cb is None else [[_pinview(n, d, p) for p in w] for w in cb["wires"]]
            for kn in _names(od["instances"]):
                k = _by_name(d["instances"], kn)
                ok_ = _by_name(od["instances"], kn)
                dv["insts"][kn] = None if k is None else _instview(n, ok_.get("props"), k)
            lv["defs"][dn] = dv
        v["libs"][ln] = lv
    return v


def _oid(e):
    return e.get("data", {}).get("EDIF.original_identifier") if e is not None else None


def idents(n):
    """Identifier fields the comparer checks besides the examined attributes (names are the keys)."""
    t = n.get("top")
    v = {"name": n["name"], "oid": _oid(n), "top": None if t is None else [t["name"], _oid(t)], "libs": {}}
    for ln in _names(n["libraries"]):
        lib = _by_name(n["libraries"], ln)
        lv = {"oid": _oid(lib), "defs": {}}
        for dn in _names(lib["definitions"]):
            d = _by_name(lib["definitions"], dn)
            lv["defs"][dn] = {"oid": _oid(d),
                              "ports": {x: _oid(_by_name(d["ports"], x)) for x in _names(d["ports"])},
                              "cables": {x: _oid(_by_name(d["cables"], x)) for x in _names(d["cables"])},
                              "insts": {x: _oid(_by_name(d["instances"], x)) for x in _names(d["instances"])}}
        v["libs"][ln] = lv
    return v


def view_diff(va, vb):
    """Categories of difference between two views (for signatures)."""
    cats = set()
    if va["nLibs"] != vb["nLibs"]:
        cats.add("count.libraries")
    if va["top"] != vb["top"]:
        cats.update(_inst_diff(va["top"], vb["top"], "top"))
    for ln in set(va["libs"]) | set(vb["libs"]):
        la, lb = va["libs"].get(ln), vb["libs"].get(ln)
        if la is None or lb is None:
            cats.add("names.library")
            continue
        if la["nDefs"] != lb["nDefs"]:
            cats.add("count.definitions")
        for dn in set(la["defs"]) | set(lb["defs"]):
            da, db = la["defs"].get(dn), lb["defs"].get(dn)
            if da is None or db is None:
                cats.add("names.definition")
                continue
            for key, cat in (("nPorts", "count.ports"), ("nCables", "count.cables"), ("nInsts", "count.instances")):
                if da[key] != db[key]:
                    cats.add(cat)
            for pn in set(da["ports"]) | set(db["ports"]):
                pa, pb = da["ports"].get(pn), db["ports"].get(pn)
                if pa is None or pb is None:
                    cats.add("names.port")
                    continue
                for key in ("dir", "width", "isArray"):
                    if pa[key] != pb[key]:
                        cats.add("port." + key)
            for cn_ in set(da["cables"]) | set(db["cables"]):
                ca, cb = da["cables"].get(cn_), db["cables"].get(cn_)
                if ca is None or cb is None:
                    cats.add("names.cable")
                    continue
                if len(ca) != len(cb):
                    cats.add("cable.width")
                for wa, wb in zip(ca, cb):
                    if len(wa) != len(wb):
                        cats.add("wire.pincount")
                    for pa, pb in zip(wa, wb):
                        if pa == pb:
                            continue
                        if pa[0] != pb[0]:
                            cats.add("pin.kind")
                        elif pa[0] == "inner":
                            cats.add("pin.inner.portbit")
                        elif pa[0] == "outer":
                            cats.add("pin.outer.instance" if pa[1] != pb[1] else "pin.outer.portbit")
                        else:
                            cats.add("pin.unplaced")
            for kn in set(da["insts"]) | set(db["insts"]):
                ka, kb = da["insts"].get(kn), db["insts"].get(kn)
                if ka is None or kb is None:
                    cats.add("names.instance")
                    continue
                cats.update(_inst_diff(ka, kb, "instance"))
    return sorted(cats)


def _inst_diff(ka, kb, what):
    out = set()
    if ka is None or kb is None:
        if ka != kb:
            out.add(what + ".presence")
        return out
    if ka["ref"] != kb["ref"]:
        out.add(what + ".reference")
    if ka["props"] != kb["props"]:
        out.add(what + ".properties")
    return out


GLOB = set("*?")


def glob_effective(ca, cb):
    """Some name of the original that contains * or ?, used as an fnmatch pattern on a sibling list of
    the copy, selects another element than the exact match does (the only way the wildcard
    characters can change what the comparer of the pinned commit does)."""
    import fnmatch
    pats = set()
    lists = []
    for c, collect in ((ca, True), (cb, False)):
        ll = [c["libraries"]]
        for lib in c["libraries"]:
            ll.append(lib["definitions"])
            for d in lib["definitions"]:
                ll += [d["ports"], d["cables"], d["instances"]]
        for lst in ll:
            if collect:
                pats.update(x["name"] for x in lst if x["name"] and GLOB & set(x["name"]))
            else:
                lists.append(lst)
    for nm in pats:
        for lst in lists:
            g = next((i for i, x in enumerate(lst) if fnmatch.fnmatchcase(x["name"] or "", nm)), None)
            e = next((i for i, x in enumerate(lst) if x["name"] == nm), None)
            if g != e:
                return True
    return False


def py_hyp(c):
    """Named / UniqueNames / NoAssign / no wildcard characters, computed in Python (cross-checked with
    the driver's flags)."""
    named = unique = True
    noassign = assignok = True
    glob = False

    def chk(lst):
        nonlocal named, unique, glob
        ns = [x["name"] for x in lst]
        if any(n is None for n in ns):
            named = False
        nn = [n for n in ns if n is not None]
        if len(set(nn)) != len(nn):
            unique = False
        if any(GLOB & set(n) for n in nn):
            glob = True
    chk(c["libraries"])
    for lib in c["libraries"]:
        chk(lib["definitions"])
        for d in lib["definitions"]:
            chk(d["ports"])
            chk(d["cables"])
            chk(d["instances"])
            for k in d["instances"]:
                if k["name"] is not None and k["name"].startswith("SDN_Assignment_"):
                    noassign = False
                    if len(k["name"].split("_")) < 4:
                        assignok = False
    return {"named": named, "unique": unique, "noassign": noassign, "assignok": assignok, "glob": glob}


# --------------------------------------------------------------------------------------------
# the implementation under test
# --------------------------------------------------------------------------------------------

class _Timeout(BaseException):
    """Raised by the interval timer; a BaseException so that no `except Exception` of the code under
    test swallows it.  The timer repeats: an occurrence that lands inside a GC/weakref callback is
    only printed as "Exception ignored" by the interpreter and the next tick raises again."""


def _alarm(signum, frame):
    raise _Timeout()


def _arm(seconds):
    """CPU-time timer (ITIMER_VIRTUAL): a non-terminating loop in the code under test burns CPU, while a
    machine that is merely overloaded must not produce time-outs."""
    old = signal.signal(signal.SIGVTALRM, _alarm)
    signal.setitimer(signal.ITIMER_VIRTUAL, seconds, 0.2)
    return old


def _disarm(old=signal.SIG_DFL):
    while True:
        try:
            signal.setitimer(signal.ITIMER_VIRTUAL, 0, 0)
            signal.signal(signal.SIGVTALRM, old if old is not None else signal.SIG_DFL)
            return
        except _Timeout:
            continue


def family(e):
    if isinstance(e, AssertionError):
        return "assert"
    if isinstance(e, KeyError):
        return "key"
    if isinstance(e, IndexError):
        return "index"
    if isinstance(e, TypeError):
        return "type"
    if isinstance(e, ValueError):
        return "value"
    return "other"


def run_comparer(A, B):
    from spydrnet.compare.compare_netlists import Comparer
    buf = io.StringIO()
    try:
        with contextlib.redirect_stdout(buf):
            Comparer(A, B).compare()
        return "ok", ""
    except _Timeout:
        raise
    except BaseException as e:  # StopIteration is not an Exception subclass problem, but be wide
        if isinstance(e, (KeyboardInterrupt, SystemExit)):
            raise
        return family(e), type(e).__name__


def unindexed(nl):
    """Some named child of the netlist is not found by the registered fast look-up (the copy carries
    no name index: C07/C10 candidate 3)."""
    from spydrnet.global_state.global_service import lookup
    from spydrnet.ir import Library, Definition, Port, Cable, Instance
    for lib in nl._libraries:
        if lib.name is not None and lookup(nl, Library, ".NAME", lib.name) is None:
            return True
        for d in lib._definitions:
            if d.name is not None and lookup(lib, Definition, ".NAME", d.name) is None:
                return True
            for lst, ty in ((d._ports, Port), (d._cables, Cable), (d._children, Instance)):
                for x in lst:
                    if x.name is not None and lookup(d, ty, ".NAME", x.name) is None:
                        return True
    return False


def make_copy(A, kind, tmpdir):
    """Returns the live copy or raises."""
    import spydrnet as sdn
    from spydrnet.plugins import namespace_manager
    if kind == "rebuild":
        return build(cnet(A))
    if kind == "clone":
        return A.clone()
    ext = {"edif": "edf", "verilog": "v"}[kind]
    path = os.path.join(tmpdir, "rt_%d.%s" % (os.getpid(), ext))
    keep = namespace_manager.default
    try:
        with contextlib.redirect_stdout(io.StringIO()):
            sdn.compose(A, path)
            return sdn.parse(path)
    finally:
        namespace_manager.default = keep
        try:
            os.remove(path)
        except OSError:
            pass


# --------------------------------------------------------------------------------------------
# mutations (positional descriptors applied on live objects)
# --------------------------------------------------------------------------------------------

DIRS = ["IN", "OUT", "INOUT", "UNDEFINED"]


def _fresh(names, stem):
    i = 0
    while True:
        n = "%s%d" % (stem, i)
        if n not in names:
            return n
        i += 1


def _connected(d):
    out = set()
    for cb in d["cables"]:
        for w in cb["wires"]:
            for p in w:
                out.add(tuple(p))
    return out


def _all_pins(c, d):
    pins = []
    for pi, p in enumerate(d["ports"]):
        for b in range(p["width"]):
            pins.append(("p", pi, b))
    for ki, k in enumerate(d["instances"]):
        r = k["ref"]
        if r is None or r[0] == "ext":
            continue
        rd = c["libraries"][r[0]]["definitions"][r[1]]
        for pi, p in enumerate(rd["ports"]):
            for b in range(p["width"]):
                pins.append(("i", ki, pi, b))
    return pins


def _refcounts(c):
    cnt = {}
    for lib in c["libraries"]:
        for d in lib["definitions"]:
            for k in d["instances"]:
                if k["ref"] and k["ref"][0] != "ext":
                    cnt[tuple(k["ref"])] = cnt.get(tuple(k["ref"]), 0) + 1
    t = c.get("top")
    if t is not None and t["ref"] and t["ref"][0] != "ext":
        cnt[tuple(t["ref"])] = cnt.get(tuple(t["ref"]), 0) + 1
    return cnt


def _shape(d):
    return [p["width"] for p in d["ports"]]


def enumerate_mutations(c, rng, per_kind=2):
    """Candidate single mutations of the copy whose CNetlist is c.  Each is a dict with "op" and
    positional arguments; `apply_mutation` performs it on the live copy."""
    out = []
    sites = [(li, di) for li, lib in enumerate(c["libraries"]) for di, _ in enumerate(lib["definitions"])]
    rc = _refcounts(c)

    def pick(lst, k=per_kind):
        lst = list(lst)
        rng.shuffle(lst)
        return lst[:k]
    moves = {"move_same_inst": [], "move_other_inst": [], "move_inner": [], "move_kind": []}
    for li, di in sites:
        d = c["libraries"][li]["definitions"][di]
        conn = _connected(d)
        allp = _all_pins(c, d)
        free = [p for p in allp if p not in conn]
        for ci, cb in enumerate(d["cables"]):
            for wi, w in enumerate(cb["wires"]):
                for k, p in enumerate(w):
                    p = tuple(p)
                    for q in free:
                        if p[0] == "i" and q[0] == "i":
                            kind = "move_same_inst" if p[1] == q[1] else "move_other_inst"
                        elif p[0] == "p" and q[0] == "p":
                            kind = "move_inner"
                        else:
                            kind = "move_kind"
                        moves[kind].append({"op": "move_pin", "kind": kind, "lib": li, "def": di, "cable": ci, "wire": wi,
                                            "pos": k, "to": list(q)})
                    if len(w) > 1 and k + 1 < len(w):
                        moves.setdefault("swap_pins", []).append({"op": "swap_pins", "lib": li, "def": di, "cable": ci,
                                                                    "wire": wi, "pos": k})
    for kind, lst in moves.items():
        out.extend(pick(lst, per_kind + (2 if kind == "move_same_inst" else 0)))

    def _ipname(li, di, pr):
        d_ = c["libraries"][li]["definitions"][di]
        k_ = d_["instances"][pr[1]]
        r_ = k_["ref"]
        return k_["name"], c["libraries"][r_[0]]["definitions"][r_[1]]["ports"][pr[2]]["name"]
    collm = []
    for mv in moves.get("move_other_inst", []):
        d_ = c["libraries"][mv["lib"]]["definitions"][mv["def"]]
        src = d_["cables"][mv["cable"]]["wires"][mv["wire"]][mv["pos"]]
        if src[0] == "i" and mv["to"][0] == "i" and src[3] == mv["to"][3]:
            i1, p1 = _ipname(mv["lib"], mv["def"], src)
            i2, p2 = _ipname(mv["lib"], mv["def"], mv["to"])
            if _join_collide(i1, p1, i2, p2):
                collm.append(dict(mv, colliding=True))
    out.extend(pick(collm, 3))
    # connection moves between siblings that carry the same EDIF.identifier metadata (same port and bit /
    # same bit): always taken
    shared = []
    for mv in moves.get("move_other_inst", []) + moves.get("move_inner", []):
        d_ = c["libraries"][mv["lib"]]["definitions"][mv["def"]]
        src = d_["cables"][mv["cable"]]["wires"][mv["wire"]][mv["pos"]]
        dst = mv["to"]
        if src[0] == "i" and dst[0] == "i" and src[2:] == dst[2:]:
            i1 = d_["instances"][src[1]].get("data", {}).get("EDIF.identifier")
            i2 = d_["instances"][dst[1]].get("data", {}).get("EDIF.identifier")
            if i1 is not None and i1 == i2 and d_["instances"][src[1]]["ref"] == d_["instances"][dst[1]]["ref"]:
                shared.append(dict(mv, sharedid=True))
        elif src[0] == "p" and dst[0] == "p" and src[2] == dst[2]:
            i1 = d_["ports"][src[1]].get("data", {}).get("EDIF.identifier")
            i2 = d_["ports"][dst[1]].get("data", {}).get("EDIF.identifier")
            if i1 is not None and i1 == i2:
                shared.append(dict(mv, sharedid=True))
    out.extend(pick(shared, 3))
    # one connection added / dropped / moved to another net
    extra = {"connect_free": [], "disconnect": [], "move_to_other_wire": []}
    for li, di in sites:
        d = c["libraries"][li]["definitions"][di]
        conn = _connected(d)
        free = [p for p in _all_pins(c, d) if p not in conn]
        wires = [(ci, wi) for ci, cb in enumerate(d["cables"]) for wi in range(len(cb["wires"]))]
        for (ci, wi) in wires:
            w = d["cables"][ci]["wires"][wi]
            for q in free[:3]:
                extra["connect_free"].append({"op": "connect_free", "lib": li, "def": di, "cable": ci, "wire": wi, "to": list(q)})
            for k in range(len(w)):
                extra["disconnect"].append({"op": "disconnect", "lib": li, "def": di, "cable": ci, "wire": wi, "pos": k})
                for (cj, wj) in wires:
                    if (cj, wj) != (ci, wi):
                        extra["move_to_other_wire"].append({"op": "move_to_other_wire", "lib": li, "def": di, "cable": ci, "wire": wi,
                                                            "pos": k, "cable2": cj, "wire2": wj})
    for kind, lst in extra.items():
        out.extend(pick(lst, per_kind))
    ports, cables, insts = [], [], []
    for li, di in sites:
        d = c["libraries"][li]["definitions"][di]
        ports += [(li, di, pi) for pi in range(len(d["ports"]))]
        cables += [(li, di, ci) for ci in range(len(d["cables"]))]
        insts += [(li, di, ki) for ki in range(len(d["instances"]))]
    for (li, di, pi) in pick(ports):
        p = c["libraries"][li]["definitions"][di]["ports"][pi]
        out.append({"op": "port_dir", "lib": li, "def": di, "port": pi, "dir": rng.choice([x for x in DIRS if x != p["dir"]])})
    for (li, di, pi) in pick(ports):
        out.append({"op": "port_widen", "lib": li, "def": di, "port": pi})
    for (li, di, pi) in pick([s for s in ports if c["libraries"][s[0]]["definitions"][s[1]]["ports"][s[2]]["width"] > 1]):
        out.append({"op": "port_narrow", "lib": li, "def": di, "port": pi})
    for (li, di, pi) in pick([s for s in ports if c["libraries"][s[0]]["definitions"][s[1]]["ports"][s[2]]["width"] == 1]):
        out.append({"op": "port_array", "lib": li, "def": di, "port": pi})
    for (li, di, ci) in pick(cables):
        out.append({"op": "cable_widen", "lib": li, "def": di, "cable": ci})
    for (li, di, ci) in pick([s for s in cables if len(c["libraries"][s[0]]["definitions"][s[1]]["cables"][s[2]]["wires"]) > 1]):
        out.append({"op": "cable_narrow", "lib": li, "def": di, "cable": ci})
    # re-point an instance to another definition with the same port shape (connections are kept)
    rep = []
    for (li, di, ki) in insts:
        k = c["libraries"][li]["definitions"][di]["instances"][ki]
        if not k["ref"] or k["ref"][0] == "ext":
            continue
        cur = c["libraries"][k["ref"][0]]["definitions"][k["ref"][1]]
        for (lj, dj) in sites:
            if [lj, dj] == list(k["ref"]) or (lj, dj) == (li, di):
                continue
            cand = c["libraries"][lj]["definitions"][dj]
            if _shape(cand) == _shape(cur) and not cand["instances"]:
                rep.append({"op": "repoint", "lib": li, "def": di, "inst": ki, "to": [lj, dj]})
    out.extend(pick(rep, per_kind + 1))
    # re-pointing between definitions whose "<library><sep><definition>" texts coincide: always taken
    coll = [r_ for r_ in rep if _join_collide(
        c["libraries"][c["libraries"][r_["lib"]]["definitions"][r_["def"]]["instances"][r_["inst"]]["ref"][0]]["name"],
        c["libraries"][c["libraries"][r_["lib"]]["definitions"][r_["def"]]["instances"][r_["inst"]]["ref"][0]]["definitions"][
            c["libraries"][r_["lib"]]["definitions"][r_["def"]]["instances"][r_["inst"]]["ref"][1]]["name"],
        c["libraries"][r_["to"][0]]["name"], c["libraries"][r_["to"][0]]["definitions"][r_["to"][1]]["name"])]
    for r_ in pick(coll, 3):
        out.append(dict(r_, colliding=True))
    t = c.get("top")
    if t is not None and t["ref"] and t["ref"][0] != "ext":
        cands = [s for s in sites if list(s) != list(t["ref"])]
        for s in pick(cands, 1):
            out.append({"op": "repoint_top", "to": list(s)})
        tl, td = t["ref"]
        for s in pick([s for s in cands if _join_collide(c["libraries"][tl]["name"], c["libraries"][tl]["definitions"][td]["name"],
                                                         c["libraries"][s[0]]["name"], c["libraries"][s[0]]["definitions"][s[1]]["name"])], 1):
            out.append({"op": "repoint_top", "to": list(s), "colliding": True})
    # properties
    withp = [s for s in insts if c["libraries"][s[0]]["definitions"][s[1]]["instances"][s[2]].get("props")]
    nop = [s for s in insts if c["libraries"][s[0]]["definitions"][s[1]]["instances"][s[2]].get("props") is None]
    for (li, di, ki) in pick(withp, per_kind + 1):
        pr = c["libraries"][li]["definitions"][di]["instances"][ki]["props"]
        x = rng.randrange(len(pr))
        if pr[x]:
            key = rng.choice(pr[x])[0]
            out.append({"op": "prop_change", "lib": li, "def": di, "inst": ki, "x": x, "key": key})
            out.append({"op": "prop_dropkey", "lib": li, "def": di, "inst": ki, "x": x, "key": key})
            out.append({"op": "prop_pyequal", "lib": li, "def": di, "inst": ki, "x": x, "key": key})
        out.append({"op": "prop_dropentry", "lib": li, "def": di, "inst": ki, "x": x})
        out.append({"op": "prop_dropall", "lib": li, "def": di, "inst": ki})
        out.append({"op": "prop_addkey", "lib": li, "def": di, "inst": ki, "x": x})
        out.append({"op": "prop_addentry", "lib": li, "def": di, "inst": ki})
    for (li, di, ki) in pick(nop, 1):
        out.append({"op": "prop_addall", "lib": li, "def": di, "inst": ki})
    if t is not None and t.get("props"):
        out.append({"op": "prop_dropall_top"})
    # drop / add one element
    libnames = [lib["name"] for lib in c["libraries"]]
    out.append({"op": "add_library", "name": _fresh(libnames, "xlib")})
    droppable_libs = [li for li, lib in enumerate(c["libraries"])
                      if all(rc.get((li, di), 0) == 0 for di in range(len(lib["definitions"])))]
    for li in pick(droppable_libs, 1):
        out.append({"op": "drop_library", "lib": li})
    for li in pick(range(len(c["libraries"])), 1):
        out.append({"op": "add_definition", "lib": li, "name": _fresh([d["name"] for d in c["libraries"][li]["definitions"]], "xdef")})
    for (li, di) in pick([s for s in sites if rc.get(s, 0) == 0], 1):
        out.append({"op": "drop_definition", "lib": li, "def": di})
    for (li, di) in pick(sites, per_kind):
        d = c["libraries"][li]["definitions"][di]
        out.append({"op": "add_port", "lib": li, "def": di, "name": _fresh([p["name"] for p in d["ports"]], "xP")})
        out.append({"op": "add_cable", "lib": li, "def": di, "name": _fresh([x["name"] for x in d["cables"]], "xN")})
        leafs = [s for s in sites if not c["libraries"][s[0]]["definitions"][s[1]]["instances"] and s != (li, di)]
        if leafs:
            out.append({"op": "add_instance", "lib": li, "def": di, "name": _fresh([x["name"] for x in d["instances"]], "xI"),
                        "ref": list(rng.choice(leafs))})
    for s in pick(ports, 1):
        out.append({"op": "drop_port", "lib": s[0], "def": s[1], "port": s[2]})
    for s in pick(cables, per_kind):
        out.append({"op": "drop_cable", "lib": s[0], "def": s[1], "cable": s[2]})
    for s in pick(insts, per_kind):
        out.append({"op": "drop_instance", "lib": s[0], "def": s[1], "inst": s[2]})
    # not in the statement's list; exercised for the correspondence only
    for s in pick(cables, 1):
        out.append({"op": "rename", "what": "cable", "lib": s[0], "def": s[1], "idx": s[2], "name": "zz_renamed"})
    for s in pick(insts, 1):
        out.append({"op": "rename", "what": "inst", "lib": s[0], "def": s[1], "idx": s[2], "name": "zz_renamed"})
    for s in pick(ports, 1):
        out.append({"op": "unname", "what": "port", "lib": s[0], "def": s[1], "idx": s[2]})
    for s in pick(insts, 1):
        out.append({"op": "unname", "what": "inst", "lib": s[0], "def": s[1], "idx": s[2]})
    for s in pick(insts, 1):
        out.append({"op": "rename", "what": "inst", "lib": s[0], "def": s[1], "idx": s[2],
                    "name": rng.choice(["SDN_Assignment_2_0", "SDN_Assignment_", "SDN_Assignment_1_7", "SDN_Assignment_x"])})
    for s in pick(sites, 1):
        out.append({"op": "reverse", "what": rng.choice(["ports", "cables", "children"]), "lib": s[0], "def": s[1]})
    if len(c["libraries"]) > 1:
        out.append({"op": "reverse", "what": "libraries"})
    for li in pick(range(len(c["libraries"])), 1):
        out.append({"op": "reverse", "what": "definitions", "lib": li})
    for what in ("netlist", "library", "definition", "port", "cable", "inst", "top"):
        out.append({"op": "set_oid", "what": what, "value": "orig_" + what, "sel": rng.randrange(1 << 16)})
    out.append({"op": "netlist_name", "name": "zz_other"})
    if t is not None:
        out.append({"op": "drop_top"})
        out.append({"op": "rename_top", "name": "zz_top"})
    elif sites:
        out.append({"op": "add_top", "to": list(rng.choice(sites)), "name": "xtop"})
    # elements named "" (a legal name) and elements inside a library / definition named "": always mutated
    for (li, di) in sites:
        lib_ = c["libraries"][li]
        d_ = lib_["definitions"][di]
        inside = lib_["name"] == "" or d_["name"] == ""
        for pi, p_ in enumerate(d_["ports"]):
            if p_["name"] == "" or (inside and pi == 0):
                out.append({"op": "port_dir", "lib": li, "def": di, "port": pi, "emptyname": True,
                            "dir": rng.choice([x for x in DIRS if x != p_["dir"]])})
                if p_["name"] == "":
                    out.append({"op": "port_widen", "lib": li, "def": di, "port": pi, "emptyname": True})
        for ci, cb_ in enumerate(d_["cables"]):
            if cb_["name"] == "" or (inside and ci == 0):
                out.append({"op": "cable_widen", "lib": li, "def": di, "cable": ci, "emptyname": True})
        for ki, k_ in enumerate(d_["instances"]):
            if k_["name"] == "" or (inside and ki == 0):
                rr = [r_ for r_ in rep if (r_["lib"], r_["def"], r_["inst"]) == (li, di, ki)]
                for r_ in pick(rr, 1):
                    out.append(dict(r_, emptyname=True))
                if k_.get("props"):
                    out.append({"op": "prop_dropall", "lib": li, "def": di, "inst": ki, "emptyname": True})
    return out


def apply_mutation(B, m):
    """Perform one mutation on the live netlist B (positions refer to B's current lists)."""
    import spydrnet as sdn
    op = m["op"]

    def D():
        return B.libraries[m["lib"]].definitions[m["def"]]
    if op == "move_pin":
        d = D()
        w = d.cables[m["cable"]].wires[m["wire"]]
        old = w.pins[m["pos"]]
        new = _live_pin(d, m["to"])
        if new.wire is not None:
            new.wire.disconnect_pin(new)
        w.disconnect_pin(old)
        w.connect_pin(new, position=m["pos"])
    elif op == "connect_free":
        d = D()
        d.cables[m["cable"]].wires[m["wire"]].connect_pin(_live_pin(d, m["to"]))
    elif op == "disconnect":
        w = D().cables[m["cable"]].wires[m["wire"]]
        w.disconnect_pin(w.pins[m["pos"]])
    elif op == "move_to_other_wire":
        d = D()
        w = d.cables[m["cable"]].wires[m["wire"]]
        q = w.pins[m["pos"]]
        w.disconnect_pin(q)
        d.cables[m["cable2"]].wires[m["wire2"]].connect_pin(q)
    elif op == "swap_pins":
        w = D().cables[m["cable"]].wires[m["wire"]]
        k = m["pos"]
        w._pins[k], w._pins[k + 1] = w._pins[k + 1], w._pins[k]
    elif op == "port_dir":
        D().ports[m["port"]].direction = sdn.ir.Port.Direction[m["dir"]]
    elif op == "port_widen":
        D().ports[m["port"]].create_pin()
    elif op == "port_narrow":
        p = D().ports[m["port"]]
        q = p.pins[-1]
        if q.wire is not None:
            q.wire.disconnect_pin(q)
        p.remove_pin(q)
    elif op == "port_array":
        p = D().ports[m["port"]]
        p.is_scalar = not p.is_scalar
    elif op == "cable_widen":
        D().cables[m["cable"]].create_wire()
    elif op == "cable_narrow":
        cb = D().cables[m["cable"]]
        w = cb.wires[-1]
        for q in list(w.pins):
            w.disconnect_pin(q)
        cb.remove_wire(w)
    elif op == "repoint":
        D().children[m["inst"]].reference = B.libraries[m["to"][0]].definitions[m["to"][1]]
    elif op == "repoint_top":
        t = B.top_instance
        t.reference = None
        t.reference = B.libraries[m["to"][0]].definitions[m["to"][1]]
    elif op.startswith("prop_"):
        if op == "prop_dropall_top":
            del B.top_instance["EDIF.properties"]
            return
        k = D().children[m["inst"]]
        if op == "prop_addall":
            k["EDIF.properties"] = [{"identifier": "ADDED", "value": "x"}]
            return
        pr = _copy.deepcopy(k["EDIF.properties"])
        if op == "prop_change":
            v = pr[m["x"]][m["key"]]
            pr[m["x"]][m["key"]] = (v + "_changed") if isinstance(v, str) else (v + 17)   # True + 17 == 18
        elif op == "prop_pyequal":
            # another representation of a Python-equal value (1 == 1.0 == True): not a difference
            v = pr[m["x"]][m["key"]]
            if isinstance(v, (bool, int, float)) and not isinstance(v, str) and float(v).is_integer():
                pr[m["x"]][m["key"]] = (float(v) if isinstance(v, (bool, int)) and not isinstance(v, bool) else
                                        (bool(v) if v in (0, 1) and not isinstance(v, bool) else int(v)))
        elif op == "prop_dropkey":
            del pr[m["x"]][m["key"]]
        elif op == "prop_dropentry":
            del pr[m["x"]]
        elif op == "prop_addkey":
            pr[m["x"]]["zz_added"] = "y"
        elif op == "prop_addentry":
            pr.append({"identifier": "ADDED", "value": "x"})
        if op == "prop_dropall":
            del k["EDIF.properties"]
        else:
            k["EDIF.properties"] = pr
    elif op == "add_library":
        B.create_library(name=m["name"])
    elif op == "drop_library":
        B.remove_library(B.libraries[m["lib"]])
    elif op == "add_definition":
        d = B.libraries[m["lib"]].create_definition(name=m["name"])
        d.create_port(name="xp").create_pins(1)
    elif op == "drop_definition":
        lib = B.libraries[m["lib"]]
        d = lib.definitions[m["def"]]
        for k in list(d.children):
            for q in list(k.pins):
                if q.wire is not None:
                    q.wire.disconnect_pin(q)
            d.remove_child(k)
            k.reference = None
        lib.remove_definition(d)
    elif op == "add_port":
        D().create_port(name=m["name"]).create_pins(1)
    elif op == "add_cable":
        D().create_cable(name=m["name"]).create_wires(1)
    elif op == "add_instance":
        D().create_child(name=m["name"], reference=B.libraries[m["ref"][0]].definitions[m["ref"][1]])
    elif op == "drop_port":
        d = D()
        p = d.ports[m["port"]]
        for q in p.pins:
            if q.wire is not None:
                q.wire.disconnect_pin(q)
        d.remove_port(p)
    elif op == "drop_cable":
        d = D()
        cb = d.cables[m["cable"]]
        for w in cb.wires:
            for q in list(w.pins):
                w.disconnect_pin(q)
        d.remove_cable(cb)
    elif op == "drop_instance":
        d = D()
        k = d.children[m["inst"]]
        for q in list(k.pins):
            if q.wire is not None:
                q.wire.disconnect_pin(q)
        d.remove_child(k)
        k.reference = None
    elif op in ("rename", "unname"):
        d = D()
        x = {"cable": d.cables, "inst": d.children, "port": d.ports}[m["what"]][m["idx"]]
        if op == "rename":
            x.name = m["name"]
        else:
            del x[".NAME"]
    elif op == "permute":
        # reorder through the public list setters (pins / wires / wire pins / ports / cables / children /
        # definitions / libraries)
        what, perm = m["what"], m["perm"]
        if what == "libraries":
            B.libraries = [B.libraries[i] for i in perm]
        elif what == "definitions":
            lib = B.libraries[m["lib"]]
            lib.definitions = [lib.definitions[i] for i in perm]
        elif what in ("ports", "cables", "children"):
            d = D()
            lst = list(getattr(d, what))
            setattr(d, what, [lst[i] for i in perm])
        elif what == "pins":
            pt = D().ports[m["port"]]
            lst = list(pt.pins)
            pt.pins = [lst[i] for i in perm]
        elif what == "wires":
            cb = D().cables[m["cable"]]
            lst = list(cb.wires)
            cb.wires = [lst[i] for i in perm]
        elif what == "wire_pins":
            w = D().cables[m["cable"]].wires[m["wire"]]
            lst = list(w.pins)
            w.pins = [lst[i] for i in perm]
        else:
            raise ValueError("permute " + what)
    elif op == "bulk_remove":
        what, idx = m["what"], m["idx"]
        if what == "libraries":
            B.remove_libraries_from([B.libraries[i] for i in idx])
        elif what == "definitions":
            lib = B.libraries[m["lib"]]
            ds = [lib.definitions[i] for i in idx]
            for d in ds:
                for k in list(d.children):
                    for q in list(k.pins):
                        if q.wire is not None:
                            q.wire.disconnect_pin(q)
                d.remove_children_from(list(d.children))
            for d in ds:
                pass
            lib.remove_definitions_from(ds)
        elif what == "ports":
            d = D()
            ps = [d.ports[i] for i in idx]
            for pt in ps:
                for q in pt.pins:
                    if q.wire is not None:
                        q.wire.disconnect_pin(q)
            d.remove_ports_from(ps)
        elif what == "cables":
            d = D()
            cs = [d.cables[i] for i in idx]
            for cb in cs:
                for w in cb.wires:
                    w.disconnect_pins_from(list(w.pins))
            d.remove_cables_from(cs)
        elif what == "children":
            d = D()
            ks = [d.children[i] for i in idx]
            for k in ks:
                for q in list(k.pins):
                    if q.wire is not None:
                        q.wire.disconnect_pin(q)
            d.remove_children_from(ks)
            for k in ks:
                k.reference = None
        elif what == "pins":
            pt = D().ports[m["port"]]
            qs = [pt.pins[i] for i in idx]
            for q in qs:
                if q.wire is not None:
                    q.wire.disconnect_pin(q)
            pt.remove_pins_from(qs)
        elif what == "wires":
            cb = D().cables[m["cable"]]
            ws = [cb.wires[i] for i in idx]
            for w in ws:
                w.disconnect_pins_from(list(w.pins))
            cb.remove_wires_from(ws)
        elif what == "wire_pins":
            w = D().cables[m["cable"]].wires[m["wire"]]
            w.disconnect_pins_from([w.pins[i] for i in idx])
        else:
            raise ValueError("bulk_remove " + what)
    elif op == "insert_at":
        # add_* with an explicit position
        what, pos = m["what"], m["pos"]
        if what == "library":
            lib = sdn.Library()
            lib.name = m["name"]
            B.add_library(lib, position=pos)
        elif what == "definition":
            d = sdn.Definition()
            d.name = m["name"]
            B.libraries[m["lib"]].add_definition(d, position=pos)
        elif what == "port":
            pt = sdn.Port()
            pt.name = m["name"]
            pt.create_pins(1)
            D().add_port(pt, position=pos)
        elif what == "cable":
            cb = sdn.Cable()
            cb.name = m["name"]
            cb.create_wires(1)
            D().add_cable(cb, position=pos)
        elif what == "child":
            k = sdn.Instance()
            k.name = m["name"]
            k.reference = B.libraries[m["ref"][0]].definitions[m["ref"][1]]
            D().add_child(k, position=pos)
        elif what == "pin":
            D().ports[m["port"]].add_pin(sdn.InnerPin(), position=pos)
        elif what == "wire":
            D().cables[m["cable"]].add_wire(sdn.Wire(), position=pos)
        else:
            raise ValueError("insert_at " + what)
    elif op == "reverse":
        what = m["what"]
        if what == "libraries":
            B.libraries = list(reversed(B.libraries))
        elif what == "definitions":
            lib = B.libraries[m["lib"]]
            lib.definitions = list(reversed(lib.definitions))
        else:
            d = D()
            setattr(d, what, list(reversed(getattr(d, what))))
    elif op == "set_oid":
        what, sel = m["what"], m["sel"]
        tgt = None
        if what == "netlist":
            tgt = B
        elif what == "top":
            tgt = B.top_instance
        else:
            libs = list(B.libraries)
            if libs:
                lib = libs[sel % len(libs)]
                if what == "library":
                    tgt = lib
                elif lib.definitions:
                    d = lib.definitions[(sel >> 3) % len(lib.definitions)]
                    if what == "definition":
                        tgt = d
                    else:
                        lst = {"port": d.ports, "cable": d.cables, "inst": d.children}[what]
                        if lst:
                            tgt = lst[(sel >> 6) % len(lst)]
        if tgt is not None:
            tgt["EDIF.original_identifier"] = m["value"]
    elif op == "netlist_name":
        B.name = m["name"]
    elif op == "drop_top":
        t = B.top_instance
        B.top_instance = None
        t.reference = None
    elif op == "rename_top":
        B.top_instance.name = m["name"]
    elif op == "add_top":
        t = sdn.Instance()
        t.name = m["name"]
        t.reference = B.libraries[m["to"][0]].definitions[m["to"][1]]
        B.top_instance = t
    else:
        raise ValueError("unknown mutation " + op)


def _perm(rng, n):
    """a random non-identity permutation of range(n) (n >= 2)"""
    while True:
        p = list(range(n))
        rng.shuffle(p)
        if p != list(range(n)):
            return p


def enumerate_history_mutations(c, rng):
    """Candidate steps of a compare -> mutate -> compare history: the single mutations of
    `enumerate_mutations` plus every other public mutator family — the reorder setters (`pins`, `wires`,
    wire `pins`, `ports`, `cables`, `children`, `definitions`, `libraries`), the bulk removers
    (`remove_*_from`, `disconnect_pins_from`) and `add_*` with an explicit position."""
    out = []
    sites = [(li, di) for li, lib in enumerate(c["libraries"]) for di, _ in enumerate(lib["definitions"])]
    rc = _refcounts(c)

    def pick(lst, k=1):
        lst = list(lst)
        rng.shuffle(lst)
        return lst[:k]
    if len(c["libraries"]) > 1:
        out.append({"op": "permute", "what": "libraries", "perm": _perm(rng, len(c["libraries"]))})
    for li in pick([li for li, lib in enumerate(c["libraries"]) if len(lib["definitions"]) > 1]):
        out.append({"op": "permute", "what": "definitions", "lib": li, "perm": _perm(rng, len(c["libraries"][li]["definitions"]))})
    for what, key in (("ports", "ports"), ("cables", "cables"), ("children", "instances")):
        for (li, di) in pick([s for s in sites if len(c["libraries"][s[0]]["definitions"][s[1]][key]) > 1]):
            out.append({"op": "permute", "what": what, "lib": li, "def": di,
                        "perm": _perm(rng, len(c["libraries"][li]["definitions"][di][key]))})
    wideports, widecables, fatwires = [], [], []
    for (li, di) in sites:
        d = c["libraries"][li]["definitions"][di]
        wideports += [(li, di, pi) for pi, p in enumerate(d["ports"]) if p["width"] > 1]
        widecables += [(li, di, ci) for ci, cb in enumerate(d["cables"]) if len(cb["wires"]) > 1]
        fatwires += [(li, di, ci, wi) for ci, cb in enumerate(d["cables"]) for wi, w in enumerate(cb["wires"]) if len(w) > 1]
    for (li, di, pi) in pick(wideports, 3):
        n = c["libraries"][li]["definitions"][di]["ports"][pi]["width"]
        out.append({"op": "permute", "what": "pins", "lib": li, "def": di, "port": pi, "perm": _perm(rng, n)})
        out.append({"op": "bulk_remove", "what": "pins", "lib": li, "def": di, "port": pi,
                    "idx": sorted(rng.sample(range(n), rng.randint(1, n - 1)))})
        out.append({"op": "insert_at", "what": "pin", "lib": li, "def": di, "port": pi, "pos": rng.randrange(n)})
    for (li, di, ci) in pick(widecables, 2):
        n = len(c["libraries"][li]["definitions"][di]["cables"][ci]["wires"])
        out.append({"op": "permute", "what": "wires", "lib": li, "def": di, "cable": ci, "perm": _perm(rng, n)})
        out.append({"op": "bulk_remove", "what": "wires", "lib": li, "def": di, "cable": ci,
                    "idx": sorted(rng.sample(range(n), rng.randint(1, n - 1)))})
        out.append({"op": "insert_at", "what": "wire", "lib": li, "def": di, "cable": ci, "pos": rng.randrange(n)})
    for (li, di, ci, wi) in pick(fatwires, 2):
        n = len(c["libraries"][li]["definitions"][di]["cables"][ci]["wires"][wi])
        out.append({"op": "permute", "what": "wire_pins", "lib": li, "def": di, "cable": ci, "wire": wi, "perm": _perm(rng, n)})
        out.append({"op": "bulk_remove", "what": "wire_pins", "lib": li, "def": di, "cable": ci, "wire": wi,
                    "idx": sorted(rng.sample(range(n), rng.randint(1, n)))})
    for what, key in (("ports", "ports"), ("cables", "cables"), ("children", "instances")):
        for (li, di) in pick([s for s in sites if c["libraries"][s[0]]["definitions"][s[1]][key]]):
            n = len(c["libraries"][li]["definitions"][di][key])
            out.append({"op": "bulk_remove", "what": what, "lib": li, "def": di,
                        "idx": sorted(rng.sample(range(n), rng.randint(1, min(2, n))))})
    for li in pick(range(len(c["libraries"]))):
        free = [di for di in range(len(c["libraries"][li]["definitions"])) if rc.get((li, di), 0) == 0]
        if free:
            out.append({"op": "bulk_remove", "what": "definitions", "lib": li, "idx": sorted(pick(free, 2))})
    dl = [li for li, lib in enumerate(c["libraries"]) if all(rc.get((li, di), 0) == 0 for di in range(len(lib["definitions"])))]
    if dl:
        out.append({"op": "bulk_remove", "what": "libraries", "idx": sorted(pick(dl, 2))})
    out.append({"op": "insert_at", "what": "library", "pos": 0, "name": _fresh([l["name"] for l in c["libraries"]], "hlib")})
    for li in pick(range(len(c["libraries"]))):
        out.append({"op": "insert_at", "what": "definition", "lib": li, "pos": 0,
                    "name": _fresh([d["name"] for d in c["libraries"][li]["definitions"]], "hdef")})
    for (li, di) in pick(sites, 2):
        d = c["libraries"][li]["definitions"][di]
        out.append({"op": "insert_at", "what": "port", "lib": li, "def": di, "pos": 0, "name": _fresh([x["name"] for x in d["ports"]], "hP")})
        out.append({"op": "insert_at", "what": "cable", "lib": li, "def": di, "pos": 0, "name": _fresh([x["name"] for x in d["cables"]], "hN")})
        leafs = [s2 for s2 in sites if not c["libraries"][s2[0]]["definitions"][s2[1]]["instances"] and s2 != (li, di)]
        if leafs:
            out.append({"op": "insert_at", "what": "child", "lib": li, "def": di, "pos": 0,
                        "name": _fresh([x["name"] for x in d["instances"]], "hI"), "ref": list(rng.choice(leafs))})
    # the single mutations of the statement (and the correspondence-only ones), one site per kind
    out.extend(enumerate_mutations(c, rng, per_kind=1))
    return out


IN_STATEMENT = {"move_pin", "connect_free", "disconnect", "move_to_other_wire", "port_dir", "port_widen", "port_narrow", "port_array", "cable_widen", "cable_narrow",
                "repoint", "repoint_top", "prop_change", "prop_dropkey", "prop_dropentry", "prop_dropall",
                "prop_dropall_top", "add_library", "drop_library", "add_definition", "drop_definition", "add_port",
                "drop_port", "add_cable", "drop_cable", "add_instance", "drop_instance"}


# --------------------------------------------------------------------------------------------
# one case
# --------------------------------------------------------------------------------------------

class Case:
    """Everything observed for one input x."""
    __slots__ = ("x", "status", "ca", "cb", "impl", "impl_cls", "model", "unrep", "hyp", "exEq", "py_eq", "faithful",
                 "unindexed", "cats", "wfB", "detail", "ans", "pyN_eq", "py_ids_eq")


def evaluate(x, drv, tmpdir):
    """Instantiate x, run implementation and model.  Returns a Case; status 'ok' or a skip reason."""
    r = Case()
    r.x = x
    r.status = "ok"
    r.detail = ""
    old = _arm(5)
    try:
        try:
            A = build(x["a"])
            for m in x.get("pre", []):
                apply_mutation(A, m)
            kind = x.get("copy", "rebuild")
            if kind == "given":
                B = build(x["b"])
            else:
                B = make_copy(A, kind, tmpdir)
            for m in x.get("mut", []):
                apply_mutation(B, m)
            hist = x.get("history", [])
            if hist:
                # a history on the SAME pair of live netlists: the comparer runs before the first step and
                # after every step (the comparer and the IR may remember things between calls)
                run_comparer(A, B)
                for k, st in enumerate(hist):
                    apply_step(A, B, st)
                    if k + 1 < len(hist):
                        run_comparer(A, B)
        except _Timeout:
            r.status = "skip:timeout-building"
            return r
        except Exception as e:
            r.status = "skip:build:" + type(e).__name__
            r.detail = str(e)[:200]
            return r
        if not observe_impl(A, B, r):
            return r
    except _Timeout:            # a late tick between the inner handlers and the disarm
        r.status = "skip:timeout"
        return r
    finally:
        _disarm(old)
    return observe_model(r, drv)


def apply_step(A, B, st):
    """One step of a history: a mutation of the original ("a"), of the copy ("b") or of both."""
    if st["side"] in ("a", "both"):
        apply_mutation(A, st["m"])
    if st["side"] in ("b", "both"):
        apply_mutation(B, st["m"])


def observe_impl(A, B, r):
    """Dump both live netlists and run the real comparer on them (timer must be armed by the caller)."""
    r.ca, r.cb = cnet(A), cnet(B)
    if not (in_domain(r.ca) and in_domain(r.cb)):
        r.status = "skip:not-expressible"
        return False
    r.wfB = not canon.wf_problems(B, limit=1)
    r.unindexed = unindexed(B)
    try:
        r.impl, r.impl_cls = run_comparer(A, B)
    except _Timeout:
        r.status = "skip:timeout-comparer"
        return False
    return True


def observe_model(r, drv):
    ans = drv.ask({"fn": "compare", "a": r.ca, "b": r.cb})
    if "error" in ans:
        r.status = "skip:driver:" + ans["error"][:80]
        return r
    r.model, r.unrep, r.hyp, r.exEq = ans["fixed"], ans["unrepaired"], ans["hyp"], ans["examinedEq"]
    r.ans = ans
    va, vb = examined(r.ca, r.ca), examined(r.ca, r.cb)
    r.py_eq = (va == vb)
    na, nb = examinedN(r.ca, r.ca), examinedN(r.ca, r.cb)
    r.pyN_eq = (na == nb)
    r.py_ids_eq = idents(r.ca) == idents(r.cb)
    r.cats = [] if (r.py_eq and r.pyN_eq) else (view_diff(na, nb) or view_diff(va, vb))
    r.faithful = strip(r.ca) == strip(r.cb)
    return r


def run_history(ca, kind, rng, n_steps, drv, tmpdir, on_case):
    """compare -> mutate -> compare -> ... on ONE pair of live netlists.  After every step the pair is
    dumped afresh and judged like any other case (correspondence with the model on the current CNetlists,
    and P: faithful => returns, examined differs => raises); the reported input is the history prefix,
    which `evaluate` replays with the same interleaved comparisons."""
    old = _arm(20)
    try:
        try:
            A = build(ca)
            B = make_copy(A, kind, tmpdir)
        except _Timeout:
            return
        except Exception:
            return
        hist = []
        pending = None
        for k in range(n_steps + 1):
            x = {"a": ca, "copy": kind, "history": list(hist)}
            r = Case()
            r.x, r.status, r.detail = x, "ok", ""
            if not observe_impl(A, B, r):
                on_case(r, k)
                return
            signal.setitimer(signal.ITIMER_VIRTUAL, 0, 0)
            observe_model(r, drv)
            on_case(r, k)
            if r.status != "ok" or k == n_steps:
                return
            signal.setitimer(signal.ITIMER_VIRTUAL, 20, 0.2)
            # next step: mutate the original, the copy, or (while the copy is faithful) both alike
            # While the copy is faithful a mutation goes to one side (-> must be rejected) and is usually
            # followed by the same mutation on the other side (-> faithful again, must be accepted), so that
            # most comparisons of a history start from a state in which the previous one ran to the end.
            u = rng.random()
            if pending is not None and not r.faithful and u < 0.75:
                st, pending = pending, None
            else:
                side = "both" if (r.faithful and u < 0.15) else ("a" if u < 0.55 else "b")
                cur = r.cb if side == "b" else r.ca
                ms = enumerate_history_mutations(cur, rng)
                if not ms:
                    return
                st = {"side": side, "m": rng.choice(ms)}
                pending = {"side": "b" if side == "a" else "a", "m": st["m"]} if (r.faithful and side != "both") else None
            try:
                apply_step(A, B, st)
            except _Timeout:
                return
            except Exception:
                return          # a refused mutation may leave the pair half-changed: end this history
            hist.append(st)
    except _Timeout:
        return
    finally:
        _disarm(old)


def judge(r, sink):
    """Correspondence and P for an evaluated case; reports into sink (ShardResult or Ctx).
    Returns the spec-failure signature if P failed, else None."""
    x = r.x
    ha, hb = py_hyp(r.ca), py_hyp(r.cb)
    h = r.hyp
    # the driver's hypothesis flags / decisions and the Python ones must agree (harness self-check)
    if (h["namedA"], h["uniqueA"], h["noAssignA"], h["assignOkA"]) != (ha["named"], ha["unique"], ha["noassign"], ha["assignok"]) or \
       (h["namedB"], h["uniqueB"]) != (hb["named"], hb["unique"]):
        sink.corr_mismatch("hypothesis flags: Lean Spec vs Python oracle", x, [ha, hb], h)
    if r.exEq != r.py_eq:
        sink.corr_mismatch("Spec.examinedEqB vs Python oracle `examined`", x, r.py_eq, r.exEq)
    if r.ans["examinedNEq"] != r.pyN_eq:
        sink.corr_mismatch("Spec.examinedNEqB vs Python oracle `examinedN`", x, r.pyN_eq, r.ans["examinedNEq"])
    if r.ans["identsEq"] != r.py_ids_eq:
        sink.corr_mismatch("Spec.identsEqB vs Python oracle `idents`", x, r.py_ids_eq, r.ans["identsEq"])
    glob = (ha["glob"] or hb["glob"]) and glob_effective(r.ca, r.cb)
    sig = None

    def deviation():
        """Which open repair explains impl != model (the model has every proposed repair in)."""
        if r.impl == r.ans["noDrcFix"]:
            return SIG_DRC
        if r.impl == r.ans["noNameFix"]:
            return SIG_NONAME
        if r.impl == r.ans["noDrcNoNameFix"]:
            return SIG_DRC
        if r.unindexed and r.impl == "other" and r.impl_cls == "StopIteration":
            return SIG_UNINDEXED
        if glob:
            return SIG_WILDCARD
        if r.impl == r.unrep:
            return SIG_OUTER
        return None
    # ---- correspondence: implementation vs model of the repaired comparer
    # compared: accepted vs rejected. HOW a difference is rejected (the exception's class) is not part of the property and a
    # harmless rewrite may change it (StopIteration -> AssertionError): a differing class family is only counted
    if (r.impl == "ok") != (r.model == "ok"):
        sink.corr_mismatch("Comparer.compare() vs Spydr.Compare.compare", x, r.impl + "/" + r.impl_cls, r.model, signature=deviation())
    elif r.impl != r.model:
        try:
            sink.dist("rejection-class differs (not compared): impl %s, model %s" % (r.impl, r.model))
        except Exception:
            pass
    # ---- P, accept half: a faithful copy is accepted.  Faithful = equal CNetlist (theorem compare_refl),
    #      or — for a fully named original — same examined view and same identifier fields, in any order
    #      of siblings (theorem compare_complete)
    refl_domain = h["wfA"] and ha["unique"] and ha["assignok"]
    complete_domain = (ha["named"] and ha["unique"] and ha["noassign"] and h["wfA"] and h["wfB"] and hb["unique"]
                       and r.py_eq and r.py_ids_eq)
    accept = (r.faithful and refl_domain) or complete_domain
    if accept and r.impl != "ok":
        sig = deviation() if r.model == "ok" else None
        if sig is None or sig == SIG_OUTER:
            sig = "Comparer.rejects_faithful_copy.%s.%s" % (x.get("copy", "rebuild"), r.impl)
        sink.spec_failure(sig, x, "faithful copy (%s; %s) rejected with %s" % (
            x.get("copy"), "equal CNetlist" if r.faithful else "same view, siblings reordered", r.impl_cls))
    # ---- P, reject half: a difference in what is examined among the original's named elements raises
    domain = ha["unique"] and ha["noassign"] and h["propKeysA"]
    differs = (not r.pyN_eq) or (ha["named"] and not r.py_eq)
    if domain and differs and r.impl == "ok":
        if r.cats == ["pin.outer.portbit"]:
            sig = SIG_OUTER
        else:
            sig = "Comparer.accepts_difference." + "+".join(r.cats)
        sink.spec_failure(sig, x, "examined views differ (%s) but compare() returned" % ",".join(r.cats))
    if x.get("copy", "rebuild") == "rebuild" and not x.get("mut") and not x.get("history") and not r.faithful:
        sink.corr_mismatch("harness: build(cnet(A)) does not reproduce the CNetlist of A", x, None, None)
    # every mutation taken from the statement's list must be visible in the examined view (otherwise the
    # case would test nothing): harness self-check
    muts = x.get("mut", [])
    if len(muts) == 1 and muts[0]["op"] in IN_STATEMENT and r.pyN_eq and ha["named"] and ha["unique"]:
        sink.corr_mismatch("harness: a mutation from the statement's list left the examined view unchanged", x, muts[0], None)
    # the theorems, instantiated (sanity of the whole chain)
    if domain and r.model == "ok" and differs:
        sink.corr_mismatch("theorem compare_sound(_named) instantiated (model ok but Python oracle sees a difference)", x, r.cats, "ok")
    if accept and r.model != "ok":
        sink.corr_mismatch("theorem compare_refl / compare_complete instantiated (model rejects a faithful copy)", x, r.model, "ok")
    return sig


# --------------------------------------------------------------------------------------------
# shrinking
# --------------------------------------------------------------------------------------------

def _drop_candidates(c):
    """Mutations that delete one element of the *original* (applied as `pre`)."""
    rc = _refcounts(c)
    out = []
    for li, lib in enumerate(c["libraries"]):
        if all(rc.get((li, di), 0) == 0 for di in range(len(lib["definitions"]))):
            out.append({"op": "drop_library", "lib": li})
        for di, d in enumerate(lib["definitions"]):
            if rc.get((li, di), 0) == 0:
                out.append({"op": "drop_definition", "lib": li, "def": di})
            for ki in range(len(d["instances"])):
                out.append({"op": "drop_instance", "lib": li, "def": di, "inst": ki})
            for ci in range(len(d["cables"])):
                out.append({"op": "drop_cable", "lib": li, "def": di, "cable": ci})
            for pi in range(len(d["ports"])):
                out.append({"op": "drop_port", "lib": li, "def": di, "port": pi})
    if c.get("top") is not None:
        out.append({"op": "drop_top"})
    return out


def shrink(x, sig, drv, tmpdir, budget=400):
    """Greedy delta-debugging on the original: apply a deletion to `a`; when the copy is `given`, apply
    the same-named deletion to `b`; keep if the same signature still fails.  Mutations in x["mut"] are
    positional, so a candidate is kept only if the signature reproduces (otherwise positions moved)."""
    best = x
    n = 0
    changed = True

    class _Sink:
        def __init__(self):
            self.sigs = []

        def corr_mismatch(self, *a, **k):
            pass

        def spec_failure(self, s, *a, **k):
            self.sigs.append(s)

    def fails(y):
        r = evaluate(y, drv, tmpdir)
        if r.status != "ok":
            return False
        s = _Sink()
        judge(r, s)
        return sig in s.sigs
    # first try to turn it into a plain pair built through the API (replayable without the copy operation)
    r0 = evaluate(best, drv, tmpdir)
    if r0.status == "ok" and best.get("copy") != "given" and not best.get("history"):
        y = {"a": r0.ca, "copy": "given", "b": r0.cb}
        try:
            if fails(y):
                best = y
        except Exception:
            pass
    # histories: drop steps (from the front) while the signature reproduces
    if best.get("history"):
        for width in (2, 1):          # a mutation and its mirror on the other side go together
            k = 0
            while k + width <= len(best["history"]) and n < budget:
                y = dict(best, history=best["history"][:k] + best["history"][k + width:])
                n += 1
                try:
                    if fails(y):
                        best = y
                        continue
                except Exception:
                    pass
                k += 1
        return best
    while changed and n < budget:
        changed = False
        for m in _drop_candidates(best["a"]):
            n += 1
            if n >= budget:
                break
            try:
                A = build(best["a"])
                apply_mutation(A, m)
                y = dict(best, a=cnet(A))
                if best.get("copy") == "given":
                    mb = _same_named(best["a"], best["b"], m)
                    if mb is None:
                        continue
                    Bn = build(best["b"])
                    apply_mutation(Bn, mb)
                    y["b"] = cnet(Bn)
                elif best.get("mut"):
                    continue   # positional mutations on a live copy: do not move the ground under them
            except Exception:
                continue
            try:
                if fails(y):
                    best = y
                    changed = True
                    break
            except Exception:
                continue
    return best


def _same_named(ca, cb, m):
    """Translate a deletion on a into the deletion of the same-named element of b."""
    try:
        if m["op"] == "drop_top":
            return m if cb.get("top") is not None else None
        la = ca["libraries"][m["lib"]]
        lj = [i for i, l in enumerate(cb["libraries"]) if l["name"] == la["name"]]
        if len(lj) != 1:
            return None
        if m["op"] == "drop_library":
            return {"op": "drop_library", "lib": lj[0]}
        da = la["definitions"][m["def"]]
        dj = [i for i, d in enumerate(cb["libraries"][lj[0]]["definitions"]) if d["name"] == da["name"]]
        if len(dj) != 1:
            return None
        if m["op"] == "drop_definition":
            rc = _refcounts(cb)
            if rc.get((lj[0], dj[0]), 0):
                return None
            return {"op": "drop_definition", "lib": lj[0], "def": dj[0]}
        db = cb["libraries"][lj[0]]["definitions"][dj[0]]
        key, lst = {"drop_instance": ("inst", "instances"), "drop_cable": ("cable", "cables"), "drop_port": ("port", "ports")}[m["op"]]
        nm = da[lst][m[key]]["name"]
        xj = [i for i, e in enumerate(db[lst]) if e["name"] == nm]
        if len(xj) != 1:
            return None
        return {"op": m["op"], "lib": lj[0], "def": dj[0], key: xj[0]}
    except (IndexError, KeyError):
        return None


# --------------------------------------------------------------------------------------------
# generation
# --------------------------------------------------------------------------------------------

SHAPES = [
    ("small", dict(n_leaf=(1, 2), n_mid=(1, 2), max_children=3, max_ports=3, max_width=2, n_libs=(1, 2))),
    ("default", dict()),
    ("wide", dict(n_leaf=(2, 3), n_mid=(1, 3), max_children=4, max_ports=4, max_width=4, n_libs=(1, 3), p_unconnected=0.4)),
    ("deep", dict(n_leaf=(1, 2), n_mid=(3, 5), max_children=3, max_ports=3, max_width=2, n_libs=(1, 2))),
    ("dense", dict(n_leaf=(1, 2), n_mid=(1, 2), max_children=5, max_ports=4, max_width=3, n_libs=(1, 1), p_unconnected=0.05)),
    ("onelib", dict(n_libs=(1, 1), p_lower=0.0)),
    ("unnamed", dict(unnamed_frac=0.2, n_libs=(1, 2))),
]

PROP_KEYS = ["identifier", "value", "original_identifier", "owner"]


def decorate(nl, rng, twins=True, props=True, oids=True, collide=True):
    """Add what gen.gen_netlist does not: EDIF.properties on instances, twin definitions (same port
    shape, so that an instance can be re-pointed keeping its connections), original identifiers."""
    import spydrnet as sdn
    insts = [k for lib in nl.libraries for d in lib.definitions for k in d.children]
    if props:
        for k in insts + ([nl.top_instance] if nl.top_instance is not None else []):
            if rng.random() < 0.4:
                pr = []
                for j in range(rng.randint(0, 3)):
                    d = {"identifier": "P%d" % j}
                    if rng.random() < 0.9:
                        d["value"] = rng.choice(["8'h01", "TRUE", 7, 42, "x y", True, False, 1, 0, 1.0, 0.0, "1", 2.5])
                    if rng.random() < 0.2:
                        d["owner"] = "Xilinx"
                    pr.append(d)
                k["EDIF.properties"] = pr
    if twins:
        leafs = [d for lib in nl.libraries for d in lib.definitions if not d.children and d.ports]
        for d in leafs:
            if rng.random() < 0.5:
                lib = rng.choice(list(nl.libraries))
                names = [x.name for x in lib.definitions]
                t = lib.create_definition(name=_fresh(names, "twin_"))
                for p in d.ports:
                    q = t.create_port(name=p.name if rng.random() < 0.7 else (p.name or "p") + "_t")
                    q.direction = p.direction
                    q.create_pins(len(p.pins))
                    if len(p.pins) == 1:
                        q.is_scalar = p.is_scalar
    if collide and rng.random() < 0.6:
        _decorate_collisions(nl, rng)
    if rng.random() < 0.4:
        _decorate_shared_identifiers(nl, rng)
    if rng.random() < 0.4:
        _decorate_empty_names(nl, rng)
    if rng.random() < 0.1:
        # a named port without pins (legal through the API)
        ds = [d for lib in nl.libraries for d in lib.definitions]
        d = rng.choice(ds)
        d.create_port(name=_fresh([p.name for p in d.ports], "P0pins"))
    if oids:
        for lib in nl.libraries:
            for d in lib.definitions:
                for e in list(d.ports) + list(d.cables) + list(d.children) + [d]:
                    if rng.random() < 0.05:
                        e["EDIF.original_identifier"] = "o[%d]" % rng.randrange(9)


SEPS = [".", "/", ":", "_", " ", ""]


def _decorate_collisions(nl, rng):
    """Names that contain the separator characters a lazy key-join would use, arranged so that DISTINCT
    pairs concatenate to the same text:
      (library L, definition a<sep>b)  and  (library L<sep>a, definition b)   — port-compatible twins of a leaf
        definition, some instances of the leaf re-pointed to the first so that a re-pointing to the second is
        a single mutation;
      (instance I, port q<sep>r)  and  (instance I<sep>q, port r)             — two instances of one leaf
        definition inside the same parent, the first pin connected, the second free."""
    import spydrnet as sdn
    sep = rng.choice(SEPS)
    tag = str(rng.randrange(10))
    leafs = [d for lib in nl.libraries for d in lib.definitions if not d.children and d.ports and d.name and d.library.name]
    if not leafs:
        return
    d = rng.choice(leafs)
    lib = d.library
    a_, b_ = "ca" + tag, "cb" + tag
    libnames = [x.name for x in nl.libraries]
    if lib.name + sep + a_ not in libnames and a_ + sep + b_ not in [x.name for x in lib.definitions]:
        lib2 = nl.create_library(name=lib.name + sep + a_)
        t1 = lib.create_definition(name=a_ + sep + b_)
        t2 = lib2.create_definition(name=b_)
        for t in (t1, t2):
            for p in d.ports:
                q = t.create_port(name=p.name)
                q.direction = p.direction
                if len(p.pins):
                    q.create_pins(len(p.pins))
                if len(p.pins) <= 1:
                    q.is_scalar = p.is_scalar
        for k in list(d.references):
            if k.parent is not None and rng.random() < 0.6:
                k.reference = t1
    # instance / port
    parents = [(m, k) for lb in nl.libraries for m in lb.definitions for k in m.children
               if k.name and k.reference is d]
    if parents:
        m, k = rng.choice(parents)
        pn = [p.name for p in d.ports]
        q_, r_ = "cq" + tag, "cr" + tag
        if q_ + sep + r_ not in pn and r_ not in pn and k.name + sep + q_ not in [x.name for x in m.children]:
            p1 = d.create_port(name=q_ + sep + r_)
            p1.direction = sdn.IN
            p1.create_pins(1)
            p2 = d.create_port(name=r_)
            p2.direction = sdn.IN
            p2.create_pins(1)
            m.create_child(name=k.name + sep + q_, reference=d)
            cb = m.create_cable(name=_fresh([c.name for c in m.cables], "Ncol"))
            cb.create_wires(1)
            cb.wires[0].connect_pin(k.pins[p1.pins[0]])


def _decorate_shared_identifiers(nl, rng):
    """Under the DEFAULT policy `EDIF.identifier` is plain metadata that siblings may share (e.g. a netlist
    written once as EDIF, then an instance duplicated with clone() + rename + add_child): a second instance of
    the same definition / a second port of the same width carries the first one's identifier, its pins free."""
    insts = [(m, k) for lb in nl.libraries for m in lb.definitions for k in m.children
             if k.name and k.reference is not None and any(q.wire is not None for q in k.pins)]
    if insts:
        m, k = rng.choice(insts)
        k2 = m.create_child(name=_fresh([x.name for x in m.children], "Idup"), reference=k.reference)
        k["EDIF.identifier"] = "id_" + (k.name or "k").replace(" ", "_")
        k2["EDIF.identifier"] = k["EDIF.identifier"]
    ports = [(d, p) for lb in nl.libraries for d in lb.definitions for p in d.ports
             if p.name and any(q.wire is not None for q in p.pins)]
    if ports and rng.random() < 0.5:
        d, p = rng.choice(ports)
        p2 = d.create_port(name=_fresh([x.name for x in d.ports], "Pdup"))
        p2.direction = p.direction
        p2.create_pins(len(p.pins))
        if len(p.pins) == 1:
            p2.is_scalar = p.is_scalar
        p["EDIF.identifier"] = "id_" + p.name.replace(" ", "_")
        p2["EDIF.identifier"] = p["EDIF.identifier"]


def _decorate_empty_names(nl, rng):
    """The empty string is a legal name: at most one library, one definition per library, one port / cable /
    instance per definition is renamed to ""."""
    def rename(lst):
        lst = [x for x in lst]
        if lst and all(x.name != "" for x in lst) and rng.random() < 0.6:
            x = rng.choice(lst)
            if x.name is not None:
                x.name = ""
    rename(nl.libraries)
    libs = list(nl.libraries)
    if libs:
        rename(rng.choice(libs).definitions)
    ds = [d for lib in nl.libraries for d in lib.definitions]
    rng.shuffle(ds)
    for d in ds[:3]:
        rename(d.ports)
        rename(d.cables)
        rename(d.children)


def _join_collide(x1, y1, x2, y2):
    """(x1, y1) != (x2, y2) but x1 + sep + y1 == x2 + sep + y2 for one of the usual separators"""
    if None in (x1, y1, x2, y2) or (x1, y1) == (x2, y2):
        return False
    return any(x1 + sp + y1 == x2 + sp + y2 for sp in SEPS)


def gen_case_netlist(rng, shape=None):
    name, kw = shape or rng.choice(SHAPES)
    nl = gen.gen_netlist(rng, **kw)
    decorate(nl, rng)
    return name, nl


# --------------------------------------------------------------------------------------------
# shard worker
# --------------------------------------------------------------------------------------------

def _record(res, r, tag):
    res.case(stable_hash([r.ca, r.cb]), nontrivial=_nontrivial(r.ca))
    res.dist("copy:" + tag)
    res.dist("impl:" + r.impl)
    res.dist("model:" + r.model)
    res.dist("top-instance:%s/%s" % ("present" if r.ca.get("top") is not None else "none",
                                     "present" if r.cb.get("top") is not None else "none"))
    if r.faithful:
        res.dist("faithful-copy")
    if not r.py_eq:
        res.dist("examined-differs")
    if not r.wfB:
        res.dist("copy-not-wellformed")
    # reach of the headline theorems on this very pair (evaluated by the Lean driver; counters only,
    # no verdict depends on them)
    for thm, where in sorted((r.ans.get("fragments") or {}).items()):
        res.dist("theorem_fragment:%s:%s" % (thm, "in" if where == "in" else "out:" + where))
    h = r.hyp
    if h["wfA"] and h["uniqueA"] and h["assignOkA"]:
        res.dist("hyp:refl-hypotheses-hold(a)")
    if h["uniqueA"] and h["noAssignA"] and h["propKeysA"]:
        res.dist("hyp:sound_named-hypotheses-hold(a)")
        if not h["namedA"]:
            res.dist("hyp:original-partly-named")
    if h["namedA"] and h["uniqueA"] and h["noAssignA"] and h["wfA"] and h["wfB"] and h["uniqueB"] and r.py_eq and r.py_ids_eq:
        res.dist("hyp:complete-hypotheses-hold(a,b)")
        if not r.faithful:
            res.dist("faithful-by-view-only(reordered)")


def _nontrivial(c):
    depth2 = any(d["instances"] for lib in c["libraries"] for d in lib["definitions"])
    bus = any(p["width"] >= 2 for lib in c["libraries"] for d in lib["definitions"] for p in d["ports"])
    return depth2 or bus


def shard(seed, idx, n_netlists, deadline_s, tier):
    import random
    import time
    t0 = time.time()
    res = ShardResult()
    rng = random.Random(stable_hash([seed, PID, "shard", idx]))
    drv = L.Driver("drv_compare")
    tmpdir = tempfile.mkdtemp(prefix="c20_")
    failures = {}     # signature -> smallest x

    class _S:
        def __init__(s):
            s.sig = []

        def corr_mismatch(s, *a, **k):
            res.corr_mismatch(*a, **k)

        def spec_failure(s, sg, xx, detail=""):
            s.sig.append((sg, detail))

    def handle(x, tag):
        try:
            return handle_(x, tag)
        except _Timeout:          # a late timer tick: never let it escape as an internal error
            _disarm()
            res.dist("skip:timeout")
            return None

    def handle_(x, tag):
        r = evaluate(x, drv, tmpdir)
        if r.status != "ok":
            res.dist(":".join(r.status.split(":")[:2]))
            if r.status.startswith("skip:build"):
                res.dist("not-instantiable:" + tag.split(":")[0])
            return None
        _record(res, r, tag)
        s = _S()
        judge(r, s)
        for sg, detail in s.sig:
            cur = failures.get(sg)
            size = len(json.dumps(x))
            if cur is None or size < cur[0]:
                failures[sg] = (size, x, detail)
            res.dist("P-failure:" + sg)
        return r
    try:
        for i in range(n_netlists):
            if time.time() - t0 > deadline_s:
                res.dist("shard-deadline-reached")
                break
            shape = SHAPES[(idx + i) % len(SHAPES)]
            name, nl = gen_case_netlist(rng, shape)
            if i % 3 == 2 or rng.random() < 0.1:
                # a netlist without a top instance (a cell library, or a design before its top is chosen): every
                # copy and every mutation below is then compared with NEITHER side having a top instance
                t_ = nl.top_instance
                if t_ is not None:
                    nl.top_instance = None
                    t_.reference = None
                res.dist("original-without-top-instance")
            ca = cnet(nl)
            res.dist("shape:" + name)
            if i < 2 and idx == 0:
                res.sample({"shape": name, "a": ca})
            # 1. faithful copies
            kinds = ["rebuild", "clone"]
            for kind in kinds:
                handle({"a": ca, "copy": kind}, kind)
            single = len(ca["libraries"]) == 1
            if single:
                for kind in ("edif", "verilog"):
                    x1 = {"a": ca, "copy": kind}
                    r1 = handle(x1, kind + ":gen-vs-read")
                    if r1 is not None:
                        # the round trip of a netlist that is already in that format
                        r2 = handle({"a": r1.cb, "copy": kind}, kind + ":read-vs-reread")
                        if r2 is not None and rng.random() < 0.5:
                            ms = enumerate_mutations(r2.cb, rng, per_kind=1)
                            rng.shuffle(ms)
                            for m in ms[:6]:
                                handle({"a": r1.cb, "copy": kind, "mut": [m]}, kind + "+" + m["op"])
            # 2. every kind of single mutation of a copy
            for kind in ("rebuild", "clone"):
                pk = 2 if kind == "rebuild" else 1
                if tier == "thorough" and kind == "rebuild" and name == "small":
                    pk = 10 ** 6          # every mutation site of the netlist
                    res.dist("exhaustive-sites-netlists")
                ms = enumerate_mutations(ca, rng, per_kind=pk)
                for m in ms:
                    handle({"a": ca, "copy": kind, "mut": [m]}, kind + "+" + m["op"] + (":" + m["kind"] if "kind" in m else "")
                           + (":colliding-names" if m.get("colliding") else "") + (":empty-name" if m.get("emptyname") else "") + (":shared-identifier" if m.get("sharedid") else ""))
            # 3. the original itself carries oddities (assignment names, wildcard names), copy faithful
            odd = []
            insts = [(li, di, ki) for li, lib in enumerate(ca["libraries"]) for di, d in enumerate(lib["definitions"])
                     for ki in range(len(d["instances"]))]
            cabs = [(li, di, ci) for li, lib in enumerate(ca["libraries"]) for di, d in enumerate(lib["definitions"])
                    for ci in range(len(d["cables"]))]
            if insts:
                s = rng.choice(insts)
                odd.append([{"op": "rename", "what": "inst", "lib": s[0], "def": s[1], "idx": s[2],
                             "name": rng.choice(["SDN_Assignment_2_0", "SDN_Assignment_x"])}])
            if cabs and rng.random() < 0.5:
                s = rng.choice(cabs)
                d = ca["libraries"][s[0]]["definitions"][s[1]]
                base = d["cables"][s[2]]["name"] or "n"
                others = [cc["name"] for j, cc in enumerate(d["cables"]) if j != s[2] and cc["name"]]
                nm = rng.choice([base + "*", base + "?", (others[0][:1] + "*") if others else "*", "?" * len(others[0]) if others else "?"])
                odd.append([{"op": "rename", "what": "cable", "lib": s[0], "def": s[1], "idx": s[2], "name": nm}])
            for pre in odd:
                for kind in ("rebuild",):
                    handle({"a": ca, "copy": kind, "pre": pre}, kind + ":odd-original:" + ("assignment-name" if pre[0]["what"] == "inst" else "wildcard-name"))
            # 5. histories: compare -> mutate -> compare ... on the same live pair
            def on_case(r, k):
                if r.status != "ok":
                    res.dist(":".join(r.status.split(":")[:2]))
                    return
                tag = "history:step%d" % min(k, 9)
                if k:
                    st = r.x["history"][-1]
                    res.dist("history-op:%s%s:%s" % (st["m"]["op"], ("/" + st["m"]["what"]) if "what" in st["m"] else "", st["side"]))
                _record(res, r, tag)
                s_ = _S()
                judge(r, s_)
                for sg, detail in s_.sig:
                    cur = failures.get(sg)
                    size = len(json.dumps(r.x))
                    if cur is None or size < cur[0]:
                        failures[sg] = (size, r.x, detail)
                    res.dist("P-failure:" + sg)
            for kind in (["rebuild", "clone", "clone"] if tier == "quick" else ["rebuild", "clone", "rebuild", "clone", "clone"]):
                try:
                    run_history(ca, kind, rng, 8, drv, tmpdir, on_case)
                except _Timeout:
                    _disarm()
            if single and rng.random() < 0.5:
                try:
                    run_history(ca, rng.choice(["edif", "verilog"]), rng, 4, drv, tmpdir, on_case)
                except _Timeout:
                    _disarm()
            # 4. unrelated pair (correspondence on heavily differing netlists)
            if rng.random() < 0.3:
                _, other = gen_case_netlist(rng, shape)
                handle({"a": ca, "copy": "given", "b": cnet(other)}, "unrelated-pair")
        # shrink and report P failures
        for sg, (_, x, detail) in sorted(failures.items()):
            try:
                xs = shrink(x, sg, drv, tmpdir, budget=150 if tier == "quick" else 400)
            except Exception:
                xs = x
            res.spec_failure(sg, xs, detail)
    finally:
        drv.close()
        try:
            for f in os.listdir(tmpdir):
                os.remove(os.path.join(tmpdir, f))
            os.rmdir(tmpdir)
        except OSError:
            pass
    return res


# --------------------------------------------------------------------------------------------
# entry point
# --------------------------------------------------------------------------------------------

def _run_single(ctx, x, label):
    drv = L.Driver("drv_compare")
    tmpdir = tempfile.mkdtemp(prefix="c20_")
    try:
        r = evaluate(x, drv, tmpdir)
        if r.status != "ok":
            ctx.obligation("corpus/replay input %s could be instantiated" % label, False, r.status + " " + r.detail)
            return
        ctx.case(stable_hash([r.ca, r.cb]), nontrivial=True)
        ctx.dist("corpus-or-replay")
        judge(r, ctx)
    finally:
        drv.close()
        try:
            os.rmdir(tmpdir)
        except OSError:
            pass


def run(ctx):
    ok = L.check_obligations(ctx, "Spydr/Compare", MODULES, ["drv_compare"], "Spydr/Compare/Audit.lean", THEOREMS)
    ctx.rule = ("netlists: gen.gen_netlist in 7 shapes (small/default/wide/deep/dense/one-library/partly-unnamed) plus "
                "EDIF.properties, twin definitions, original identifiers, no top instance in a third of the originals (and "
                "copies that gain or lose it) and names with separator characters whose "
                "(library, definition) / (instance, port) pairs collide as joined text; copies: rebuild through the API, clone(), "
                "EDIF and Verilog compose+parse (of the generated netlist and of the already-read netlist); every kind of "
                "single mutation of the copy from the statement's list at randomly chosen sites, plus renames / unnaming / "
                "reordering / original-identifier edits / SDN_Assignment_ and wildcard names for the correspondence; "
                "compare->mutate->compare histories (8 steps) on one live pair, steps from every public mutator family "
                "(reorder setters, bulk removers, positional adds, single mutations) on either or both sides, judged after every step. "
                "A case is a pair (CNetlist of original, CNetlist of copy); distinct = distinct pairs; non-trivial = the "
                "original has hierarchy depth >= 2 or a port of width >= 2.")
    ctx.assumptions = [
        "faithful copy = equality of CNetlist values (DESIGN §5 decision 7) after dropping data keys the comparer does not read; "
        "clone()'s top instance pointing into the original (C07 candidate 1) is identified by (library, definition) name",
        "examined = the attributes listed in the statement among named elements; a property added by the copy is outside, "
        "a changed or dropped one inside (decision 7)",
        "domain of the 'always raises' half: every element of the original is named, sibling names are unique in both netlists, "
        "no instance of the original is named SDN_Assignment_* (the comparer documents that it skips those)",
        "domain of the 'never raises' half: additionally ports have at least one pin (the comparer's own DRC assertion) and "
        "the netlist is self-contained",
        "property values are JSON-like and Python == on them coincides with equality of their JSON text (no 1/True, no floats)",
        "accepted vs rejected is compared; the exception class family (assert / key / index / other) is only counted, the message never looked at",
    ]
    ctx.partial_notes = []
    if not ok:
        # still search the implementation for a failing input
        pass
    # corpus first
    cdir = os.path.join(ROOT, "corpus", PID)
    if ctx.replay:
        with open(ctx.replay if os.path.isabs(ctx.replay) else os.path.join(ROOT, ctx.replay)) as f:
            j = json.load(f)
        if "broken_correspondence" in j:      # a replay of kind obligation-no-longer-checks
            for k, c in enumerate(j["broken_correspondence"]):
                if isinstance(c.get("input"), dict):
                    _run_single(ctx, c["input"], "%s#%d" % (os.path.basename(ctx.replay), k))
        else:
            _run_single(ctx, j["input"] if "input" in j else j, os.path.basename(ctx.replay))
        return
    if os.path.isdir(cdir):
        for fn in sorted(os.listdir(cdir)):
            if fn.endswith(".json"):
                with open(os.path.join(cdir, fn)) as f:
                    j = json.load(f)
                _run_single(ctx, j["input"] if "input" in j else j, fn)
    if not ok:
        return
    if ctx.tier == "thorough":
        L.leanchecker(ctx, MODULES)
    n_shards = ctx.scale(16, 32)
    per = ctx.scale(6, 70)
    deadline = ctx.scale(28, 540)
    args = [(ctx.seed, i, per, deadline, ctx.tier) for i in range(n_shards)]
    run_shards(ctx, shard, args)
    if ctx.corr and not ctx.spec:
        ctx.partial_notes.append("correspondence mismatches were observed without a failing input for P")
