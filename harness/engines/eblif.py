"""Engine `eblif`: property C18 (EBLIF files are read faithfully and survive write-then-read).

Per input (an abstract flat design + the EBLIF text our own writer rendered for it, or a bundled
example + the design our own scanner reads off it):
  lex    Python Tokenizer stream  ==  model lexB                                  (correspondence)
  parse  observe(sdn.parse(text)) ==  model readB                                 (correspondence)
         P_parse(design, observation, wf_problems)                                (P on the implementation)
  for writer options (write_blackbox, write_eblif_cname):
    compose  lexB(text written by sdn.compose) == model composeB(observation)     (correspondence)
    reparse  observe(sdn.parse(text2)) == model readB(text2)                      (correspondence)
             P_parse(design_of_text(text2), obs2, wf), P_roundtrip(obs1, obs2)    (P on the implementation)
A failing clause is attributed to a known defect class only when (a) the design syntactically
contains that class's mechanism, (b) the clause is one the class can explain, and (c) the same
design without the mechanism passes the clause (ablation)."""
import glob
import json
import os
import shutil
import tempfile
import zipfile

from common import canon, lean, shard
from common.ctx import REPO, ROOT, stable_hash
from engines import eblif_lib as L
from engines import eblif_gen as G

PID = "C18"
THEOREMS = [
    "Spydr.Eblif.lexB_printB",
    "Spydr.Eblif.lexB_continuation",
    "Spydr.Eblif.parse_comment_line",
    "Spydr.Eblif.formal_actual",
    "Spydr.Eblif.formal_actual_net",
    "Spydr.Eblif.formal_actual_pairs",
    "Spydr.Eblif.conn_merges",
    "Spydr.Eblif.one_instance_per_stmt",
    "Spydr.Eblif.names_latch_shape",
    "Spydr.Eblif.pins_exact",
    "Spydr.Eblif.pins_exact_from",
    "Spydr.Eblif.pins_exact_closed",
    "Spydr.Eblif.no_pin_on_two_wires",
    "Spydr.Eblif.info_attached",
    "Spydr.Eblif.hdr_ports",
    "Spydr.Eblif.hdr_joins_persist",
    "Spydr.Eblif.blackbox_leaf",
    "Spydr.Eblif.parse_rendered_subckt",
    "Spydr.Eblif.eblif_reader_spec_partial",
    "Spydr.Eblif.eblif_roundtrip_partial",
    "Spydr.Eblif.compose_tokens_good",
    "Spydr.Eblif.read_composed_text",
    "Spydr.Eblif.parse_composed_lines",
    "Spydr.Eblif.split_written_bit",
    "Spydr.Eblif.eblif_roundtrip_subckt",
    "Spydr.Eblif.pins_exact_all",
    "Spydr.Eblif.onNet_exact_all",
    "Spydr.Eblif.self_contained",
    "Spydr.Eblif.undeclared_leaf",
    "Spydr.Eblif.formal_actual_port_step",
    "Spydr.Eblif.eblif_read_ok",
    "Spydr.Eblif.eblif_roundtrip_subckt_total",
    "Spydr.Eblif.read_fails_on_equal_names",
    "Spydr.Eblif.formal_actual_port",
    "Spydr.Eblif.ports_never_shrink",
    "Spydr.Eblif.eblif_roundtrip_ports",
    "Spydr.Eblif.hdr_port_list",
    "Spydr.Eblif.parse_composed_lines_bb",
    "Spydr.Eblif.eblif_roundtrip_blackbox",
    "Spydr.Eblif.blackbox_models_frame",
    "Spydr.Eblif.parse_composed_lines_full",
    "Spydr.Eblif.read_composed_full",
    "Spydr.Eblif.parse_rendered_names",
    "Spydr.Eblif.parse_rendered_latch",
    "Spydr.Eblif.parse_rendered_conn",
    "Spydr.Eblif.generated_names_distinct",
    "Spydr.Eblif.names_generated_ports",
    "Spydr.Eblif.names_info_std",
    "Spydr.Eblif.latch_generated_ports",
    "Spydr.Eblif.pin_mirror",
    "Spydr.Eblif.pin_mirror_elab",
    "Spydr.Eblif.pin_mirror_bits",
    "Spydr.Eblif.eblif_roundtrip_full",
    "Spydr.Eblif.child_block_step",
    "Spydr.Eblif.header_inout",
    "Spydr.Eblif.conn_alias_closed_form",
    "Spydr.Eblif.written_joins_are_net",
    "Spydr.Eblif.eblif_roundtrip_any_order",
    "Spydr.Eblif.fragFull_in",
    "Spydr.Eblif.fragAny_in",
    "Spydr.Eblif.eblif_roundtrip_covers",
    "Spydr.Eblif.eblif_covers_read",
    "Spydr.Eblif.eblif_self_contained_text",
    "Spydr.Eblif.eblif_undeclared_leaf_text",
    "Spydr.Eblif.eblif_onNet_exact_text",
    "Spydr.Eblif.leaf_port_kept",
    "Spydr.Eblif.eblif_roundtrip_leaf_ports",
    "Spydr.Eblif.eblif_roundtrip_leaf_dirs",
]
MODULES = ["Spydr.Eblif.Props.C18", "Spydr.Eblif.Props.C18RoundTrip", "Spydr.Eblif.Props.C18ReadOk", "Spydr.Eblif.Props.C18Ports", "Spydr.Eblif.Props.C18BlackBox", "Spydr.Eblif.Props.C18FullParse", "Spydr.Eblif.Props.C18GenDefs", "Spydr.Eblif.Props.C18Mirror", "Spydr.Eblif.Props.C18Full", "Spydr.Eblif.Props.C18Any", "Spydr.Eblif.FragCheck"]

FINDING = {
    "blackbox-ports": "eblif.blackbox-pins-keep-wire-of-removed-cable",
    "port-growth": "eblif.formal-widens-instanced-port",
    "latch-growth": "eblif.later-latch-has-more-fields",
    "cname-default": "eblif.provisional-name-collides-with-cname",
    "inner-comment": "eblif.comment-inside-statement-group",
    "conn": "eblif.conn-not-persistent-or-not-written",
    "multi-driver": "eblif.net-derived-name-taken",
    "unconn-width": "eblif.unconn-bus-bit-loses-width",
}
# which clauses a mechanism is allowed to explain (prefix match on the clause after the stage)
EXPLAINS = {
    "blackbox-ports": ["wf.inner-pin-wired-outside-its-definition"],
    "port-growth": ["wf.outer-pins-do-not-mirror-inner-pins", "corr."],
    "latch-growth": ["raises.other", "corr."],
    "cname-default": ["raises.value", "corr."],
    "inner-comment": ["instances.cname", "instances.data", "ports", "nets", "corr.", "blackbox-ports"],
    "conn": ["nets", "raises.value", "raises.assert", "corr."],
    "multi-driver": ["raises.value", "corr."],
    "unconn-width": ["instances.pins", "leaf-ports", "corr."],
}
HZ_ORDER = ["latch-growth", "multi-driver", "cname-default", "conn", "inner-comment", "unconn-width", "port-growth", "blackbox-ports"]
OPTS = [(True, True), (False, True), (True, False), (False, False)]


# ---------------------------------------------------------------------------------------------
def py_lex(text, tmp):
    """the implementation's token stream as the parser sees it through Tokenizer.next(), read from
    a real file (text mode: universal newlines)"""
    from spydrnet.parsers.eblif.eblif_tokenizer import Tokenizer
    p = os.path.join(tmp, "lex.eblif")
    with open(p, "w", newline="", encoding="utf-8") as f:
        f.write(text)
    t = Tokenizer.from_filename(p)
    out = []
    try:
        while True:
            if not t.has_next():
                break
            w = t.next()
            out.append(None if w == "\n" else w)
    except StopIteration:
        out.append("<stop>")
    finally:
        try:
            t.input_stream.close()       # the Tokenizer itself never closes its stream
        except Exception:
            pass
    return out


WS_CHARS = [" ", " ", " ", "\t", "\x0b", "\x0c", "\x1c", "\x1d", "\x1e", "\x1f", "\x85", "\xa0", "\u1680", "\u2003",
            "\u2028", "\u2029", "\u202f", "\u205f", "\u3000"]


def gen_lextext(rng):
    """words separated by every kind of blank str.split() knows, lines ended by \\n, \\r\\n or \\r,
    a `\\` word only where at least two more tokens follow and not next to another one"""
    lines = []
    for _ in range(rng.randint(1, 6)):
        ws = [G._word(rng, "abc.#xyz", G.VAL_CHARS, 0, 5) for _ in range(rng.randint(0, 5))]
        lines.append(ws)
    lines.append([G._word(rng, "abc", G.ID_CHARS, 0, 3)])
    text = ""
    for li, ws in enumerate(lines):
        if li < len(lines) - 1 and ws and lines[li + 1] and rng.random() < 0.3:
            ws = ws + ["\\"]
        sep = lambda: "".join(rng.choice(WS_CHARS) for _ in range(rng.choice([1, 1, 1, 2])))
        text += (sep() if rng.random() < 0.2 else "") + sep().join(ws) + (sep() if rng.random() < 0.3 else "")
        text += rng.choice(["\n", "\n", "\n", "\r\n", "\r"]) if li < len(lines) - 1 or rng.random() < 0.8 else ""
    return text


def lex_case(res, text, drv, tmp, origin):
    pl = py_lex(text, tmp)
    ml = drv.ask({"fn": "lex", "text": text}).get("toks")
    if pl != ml:
        res.corr_mismatch("lex corr.lex", {"origin": origin, "lextext": text}, impl=diff_path(pl, ml)[:400])
        res.spec_failure("lex.tokens", {"origin": origin, "lextext": text},
                         "Tokenizer stream differs from the proved lexer model (lexB): " + diff_path(pl, ml)[:300])
    res.dist("origin:lexfuzz")


def impl_parse(text, tmp):
    import spydrnet as sdn
    p = os.path.join(tmp, "in.eblif")
    with open(p, "w", newline="") as f:
        f.write(text)
    try:
        nl = sdn.parse(p)
    except Exception as e:  # noqa
        return None, "raises." + L.exc_family(e)
    return nl, None


def impl_compose(nl, tmp, wb, wc):
    import spydrnet as sdn
    p = os.path.join(tmp, "out.eblif")
    if os.path.exists(p):
        os.remove(p)
    try:
        sdn.compose(nl, p, write_blackbox=wb, write_eblif_cname=wc)
    except Exception as e:  # noqa
        return None, "raises." + L.exc_family(e)
    with open(p, newline="") as f:
        return f.read(), None


def model_read(drv, text):
    r = drv.ask({"fn": "read", "text": text})
    if "ok" in r:
        return L.canon_net(r["ok"]), None
    if "err" in r:
        return None, r["err"]
    raise RuntimeError("driver: %r" % (r,))


def diff_path(a, b, path=""):
    """first difference between two JSON values (for readable replay files)"""
    if type(a) != type(b):
        return "%s: %r vs %r" % (path, a, b)
    if isinstance(a, dict):
        for k in sorted(set(a) | set(b)):
            if a.get(k) != b.get(k):
                return diff_path(a.get(k), b.get(k), path + "." + k)
    if isinstance(a, list):
        if len(a) != len(b):
            return "%s: length %d vs %d: %s vs %s" % (path, len(a), len(b), json.dumps(a)[:300], json.dumps(b)[:300])
        for i, (x, y) in enumerate(zip(a, b)):
            if x != y:
                return diff_path(x, y, "%s[%d]" % (path, i))
    return "%s: %r vs %r" % (path, a, b)


def reader_stage(stage, text, design, drv, tmp, recs, lexcheck=True):
    """parse `text` with the implementation and the model; P_parse when a design is known.
    Appends records (stage, kind, clause, detail); returns (nl, obs)."""
    if lexcheck:
        pl = py_lex(text, tmp)
        ml = drv.ask({"fn": "lex", "text": text}).get("toks")
        if pl != ml:
            recs.append((stage, "corr", "corr.lex", diff_path(pl, ml)))
    nl, err = impl_parse(text, tmp)
    mnet, merr = model_read(drv, text)
    if nl is None:
        if design is not None:
            recs.append((stage, "P", err, "the reader rejected a supported file"))
        if merr is None:
            recs.append((stage, "corr", "corr.read", "implementation %s, model reads the file" % err))
        return None, None
    obs = L.observe(nl)
    if merr is not None:
        recs.append((stage, "corr", "corr.read", "model rejects (%s), implementation reads the file" % merr))
    else:
        c = L.canon_net(obs)
        if c != mnet:
            recs.append((stage, "corr", "corr.read", diff_path(c, mnet)))
    wf = canon.wf_problems(nl)
    if design is not None:
        for clause, detail in L.P_parse(design, obs, sorted(set(wf))):
            recs.append((stage, "P", clause.replace("parse.", "", 1), detail))
    else:
        for w in sorted(set(wf)):
            recs.append((stage, "P", "wf." + w.replace(" ", "-"), w))
    return nl, obs


def pipeline(design, text, drv, tmp, opts, texts=None):
    recs = []
    nl, obs1 = reader_stage("parse", text, design, drv, tmp, recs)
    if nl is None:
        return recs, None
    top = obs1["top"]
    flat = all(i["parent"] == top for i in obs1["insts"])
    for (wb, wc) in opts:
        tag = "wb%d.wc%d" % (wb, wc)
        text2, err = impl_compose(nl, tmp, wb, wc)
        if text2 is None:
            recs.append(("compose:" + tag, "P", "compose." + err, "the writer failed on a parsed netlist"))
            continue
        if flat:
            a = drv.ask({"fn": "lex", "text": text2}).get("toks")
            b = drv.ask({"fn": "compose", "net": obs1, "wb": wb, "wc": wc}).get("toks")
            if a != b:
                recs.append(("compose:" + tag, "corr", "corr.compose", diff_path(a, b)))
        if texts is not None:
            texts[tag] = text2
        d2 = L.design_of_text(text2)
        nl2, obs2 = reader_stage("reparse:" + tag, text2, d2, drv, tmp, recs, lexcheck=False)
        if nl2 is None:
            continue
        for clause, detail in L.P_roundtrip(obs1, obs2, wc):
            recs.append(("roundtrip:" + tag, "P", clause, detail))
    return recs, obs1


def stage_kind(stage):
    return stage.split(":")[0]


def rec_key(r):
    return (r[0], r[1], r[2])


def _explains(h, clause):
    return any(clause.startswith(p) or clause.startswith("roundtrip." + p) for p in EXPLAINS[h])


def _ablated(design, h):
    d2 = G.ablate(design, h)
    if h == "cname-default":
        n = 0
        for s in d2["stmts"]:
            if s["k"] != "conn" and s.get("cname") is None:
                s["cname"] = "Uauto%d" % n
                n += 1
    return d2


def attribute(design, recs, drv, tmp, opts, obs1=None, texts=None):
    """-> list of (signature, record).  Signature = finding id when attributed, else
    '<stage>.<clause>' (corr records: None when unattributed).
    Level 1: mechanisms present in the design itself (ablate the design, re-run everything).
    Level 2: mechanisms present in the text the composer wrote (ablate the design scanned from
    that text, re-run its reading and the round-trip comparison)."""
    if not recs:
        return []
    hz = G.hazards_of(design)
    left = {rec_key(r): r for r in recs}
    out = []
    for h in HZ_ORDER:
        if h not in hz or not left:
            continue
        cand = [k for k in left if _explains(h, k[2])]
        if not cand:
            continue
        d2 = _ablated(design, h)
        r2, _ = pipeline(d2, L.render(d2), drv, tmp, opts)
        still = set(rec_key(r) for r in r2)
        for k in cand:
            if k not in still:
                out.append((FINDING[h], left.pop(k)))
    if left and texts and obs1 is not None:
        for (wb, wc) in opts:
            tag = "wb%d.wc%d" % (wb, wc)
            mine = [k for k in left if k[0] in ("reparse:" + tag, "roundtrip:" + tag)]
            if not mine or tag not in texts:
                continue
            d2 = L.design_of_text(texts[tag])
            if d2 is None:
                continue
            for h in HZ_ORDER:
                if h not in G.hazards_of(d2):
                    continue
                cand = [k for k in mine if k in left and _explains(h, k[2])]
                if not cand:
                    continue
                d3 = _ablated(d2, h)
                r3 = []
                nl3, obs3 = reader_stage("reparse:" + tag, L.render(d3), d3, drv, tmp, r3, lexcheck=False)
                if nl3 is not None:
                    for clause, detail in L.P_roundtrip(obs1, obs3, wc):
                        r3.append(("roundtrip:" + tag, "P", clause, detail))
                still = set(rec_key(r) for r in r3)
                for k in cand:
                    if k not in still:
                        out.append((FINDING[h], left.pop(k)))
    for k, r in left.items():
        out.append((None if r[1] == "corr" else "%s.%s" % (stage_kind(r[0]), r[2].replace("roundtrip.", "", 1)), r))
    return out


# ---------------------------------------------------------------------------------------------
def shrink(design, sig, drv, tmp, opts, budget=40):
    """greedy statement / black-box / port removal keeping `sig` among the attributed signatures"""
    import copy

    def fails(d):
        try:
            texts = {}
            recs, o1 = pipeline(d, L.render(d), drv, tmp, opts, texts)
            return any(s == sig and r[1] == "P" for s, r in attribute(d, recs, drv, tmp, opts, o1, texts))
        except Exception:
            return False
    cur = copy.deepcopy(design)
    cur["lay"] = {k: v for k, v in cur.get("lay", {}).items() if k in ("hdr_comments",)}
    if not fails(cur):
        cur = copy.deepcopy(design)
    changed = True
    while changed and budget > 0:
        changed = False
        # header lines are kept: dropping one of two lines that share a bus would leave a sparse
        # bus port, which is outside the domain
        for field in ("stmts", "bbs"):
            i = 0
            while i < len(cur[field]) and budget > 0:
                d = copy.deepcopy(cur)
                del d[field][i]
                budget -= 1
                if fails(d):
                    cur = d
                    changed = True
                else:
                    i += 1
    return cur


def theorem_reach(res, text, drv, opts, texts):
    """evidence only: is the netlist read from `text` inside the hypotheses of the round-trip
    theorems (evaluated by the Lean driver, per option pair), and if not, which hypothesis fails
    first; `@2nd` = the same question for the netlist read from the composed text (second generation)"""
    for (wb, wc) in opts:
        for suffix, t in (("", text), ("@2nd", texts.get("wb%d.wc%d" % (wb, wc)))):
            if t is None:
                continue
            try:
                r = drv.ask({"fn": "frag", "text": t, "wb": wb, "wc": wc})
            except Exception:
                r = {}
            res.dist("theorem_fragment:eblif_roundtrip_any_order%s:%s" % (suffix, r.get("any", "out:driver-error")))
            res.dist("theorem_fragment:eblif_roundtrip_leaf_ports%s:%s" % (suffix, r.get("leaf", "out:driver-error")))
            res.dist("theorem_fragment:eblif_roundtrip_full%s:%s" % (suffix, r.get("full", "out:driver-error")))
            res.dist("theorem_fragment:eblif_roundtrip_subckt_total%s:%s" % (suffix, r.get("subckt", "out:driver-error")))


def run_case(res, design, text, drv, tmp, opts, origin, do_shrink=True):
    texts = {}
    recs, obs1 = pipeline(design, text, drv, tmp, opts, texts)
    theorem_reach(res, text, drv, opts, texts)
    att = attribute(design, recs, drv, tmp, opts, obs1, texts) if recs else []
    x = {"origin": origin, "design": design, "text": text, "opts": [list(o) for o in opts]}
    seen = set()
    for sig, r in att:
        stage, kind, clause, detail = r
        if kind == "corr":
            res.corr_mismatch("%s %s" % (stage_kind(stage), clause), x if len(text) < 4000 else {"origin": origin, "opts": x["opts"]},
                              impl=detail[:600], model=None, signature=sig)
        else:
            if sig in seen:
                continue
            seen.add(sig)
            xs = x
            if do_shrink and origin.startswith("gen") and sig not in FINDING.values():
                d = shrink(design, sig, drv, tmp, opts)
                xs = {"origin": origin + ":shrunk", "design": d, "text": L.render(d), "opts": [list(o) for o in opts]}
            elif len(text) > 6000:
                xs = {"origin": origin, "opts": [list(o) for o in opts]}
            res.spec_failure(sig, xs, "%s: %s: %s" % (stage, clause, detail[:500]))
    return recs, obs1, att


def tags(res, design, obs1, att):
    st = design["stmts"]
    res.dist("stmts:%s" % ("0-2" if len(st) <= 2 else "3-5" if len(st) <= 5 else "6+"))
    for k in set(s["k"] for s in st):
        res.dist("has:" + k)
    for h in G.hazards_of(design):
        res.dist("mechanism:" + h)
    if any(bb["declared"] for bb in design["bbs"]):
        res.dist("has:declared-blackbox")
    if any(not bb["declared"] for bb in design["bbs"]):
        res.dist("has:undeclared-blackbox")
    if any(bb.get("first") for bb in design["bbs"]):
        res.dist("has:blackbox-before-top")
    lay = design.get("lay", {})
    if lay.get("junk_pre") or lay.get("junk_post") or any(bb.get("before") for bb in design["bbs"]):
        res.dist("has:text-outside-model")
    if any(s["k"] == "names" and len(s["nets"]) > 11 for s in st):
        res.dist("has:names-11plus-inputs")
    words = set()
    for s in st:
        refs = list(s.get("nets", [])) + list(s.get("fields", [])) + [c[3] for c in s.get("conns", [])] + [s.get("a"), s.get("b")]
        words.update(r[0] for r in refs if r)
        words.update(c[0] for c in s.get("conns", []))
        if s.get("cname"):
            words.add(s["cname"])
    for _k, refs in design["hdr"]:
        words.update(r[0] if isinstance(r, (list, tuple)) else r for r in refs)
    if any("unconn" in w for w in words):
        res.dist("has:name-containing-unconn")
    if any(any(k in w for k in G.KW_PLAIN[4:] + G.KW_DOLLAR) for w in words):
        res.dist("has:keyword-like-name")
    for sig, r in att:
        res.dist("finding:" + str(sig) if r[1] == "P" else "corr-attributed:" + str(sig))


def nontrivial(design):
    st = [s for s in design["stmts"] if s["k"] != "conn"]
    return len(st) >= 2 and any(r[1] > 0 for k, refs in design["hdr"] if k != "clock" for r in refs) or len(st) >= 3


def bundled_inputs():
    out = []
    for z in sorted(glob.glob(os.path.join(REPO, "example_netlists", "eblif_netlists", "*.eblif.zip"))):
        try:
            with zipfile.ZipFile(z) as zf:
                names = zf.namelist()
                if len(names) != 1:
                    continue
                text = zf.read(names[0]).decode()
        except Exception:
            continue
        out.append((os.path.basename(z), text))
    return out


def neighbours(design, rng, n):
    """designs near a diverging one: statement deletions, then random designs with the same
    mechanisms and statement kinds"""
    import copy
    out = []
    for i in range(len(design["stmts"])):
        d = copy.deepcopy(design)
        del d["stmts"][i]
        out.append(d)
    for i in range(len(design["bbs"])):
        d = copy.deepcopy(design)
        d["bbs"][i]["declared"] = not d["bbs"][i]["declared"]
        out.append(d)
    hz = tuple(h for h in G.hazards_of(design) if h in ("conn", "inner-comment", "latch-growth", "port-growth", "cname-default"))
    kinds = set(s["k"] for s in design["stmts"])
    tries = 0
    while len(out) < n and tries < 20 * n:
        tries += 1
        d = G.gen_design(rng, hazards=hz[:1] if hz and rng.random() < 0.7 else ())
        if kinds & set(s["k"] for s in d["stmts"]):
            out.append(d)
    return out[:n]


def worker(kind, seed, shard_no, n, tier, payload, deadline=None):
    import random
    import time
    res = shard.ShardResult()
    drv = lean.Driver("drv_eblif")
    tmp = tempfile.mkdtemp(prefix="eblif_")
    try:
        if kind == "inputs":
            for (origin, design, text, opts) in payload:
                if design is None:
                    lex_case(res, text, drv, tmp, origin)
                    res.case(stable_hash(text), False)
                    continue
                recs, obs1, att = run_case(res, design, text, drv, tmp, opts, origin, do_shrink=False)
                res.case(stable_hash(text), True)
                tags(res, design, obs1, att)
                res.dist("origin:" + origin.split(":")[0])
        elif kind == "search":
            rng = random.Random(stable_hash([seed, PID, "search", shard_no]))
            for design in payload:
                for d in neighbours(design, rng, n):
                    if deadline and time.time() > deadline:
                        break
                    text = L.render(d)
                    run_case(res, d, text, drv, tmp, OPTS, "search:%d" % shard_no)
                    res.case(stable_hash(text), nontrivial(d))
                    res.dist("origin:search")
        else:
            rng = random.Random(stable_hash([seed, PID, "gen", shard_no]))
            for ci in range(n):
                if deadline and time.time() > deadline:
                    res.dist("stopped-at-deadline")
                    break
                r = rng.random()
                hz = ()
                if r < 0.32:
                    hz = (rng.choice(["conn", "inner-comment", "latch-growth", "port-growth", "cname-default", "multi-driver"]),)
                design = G.gen_design(rng, hazards=hz)
                text = L.render(design)
                opts = [OPTS[0]] + rng.sample(OPTS[1:], 1) if tier == "quick" else OPTS
                recs, obs1, att = run_case(res, design, text, drv, tmp, opts, "gen:%d:%d" % (shard_no, ci))
                res.case(stable_hash(text), nontrivial(design))
                tags(res, design, obs1, att)
                if ci < 1:
                    res.sample({"text": text[:1500]})
                if ci % 6 == 0:
                    lt = gen_lextext(rng)
                    lex_case(res, lt, drv, tmp, "lexfuzz:%d:%d" % (shard_no, ci))
                    res.case(stable_hash(lt), False)
    finally:
        drv.close()
        shutil.rmtree(tmp, ignore_errors=True)
    return res


def resolve_input(x):
    """a replay / corpus entry -> (design, text, opts)"""
    opts = [tuple(o) for o in x.get("opts", OPTS)]
    if "lextext" in x:
        return None, x["lextext"], opts
    if "design" in x:
        return x["design"], (x.get("text") or L.render(x["design"])), opts
    origin = x.get("origin", "")
    if origin.startswith("bundled:"):
        for name, text in bundled_inputs():
            if name == origin.split(":", 1)[1]:
                return L.design_of_text(text), text, opts
    if "text" in x:
        return L.design_of_text(x["text"]), x["text"], opts
    raise RuntimeError("cannot resolve replay input %r" % (x,))


def run(ctx):
    ok = lean.check_obligations(ctx, "Spydr/Eblif", MODULES, ["drv_eblif"], "Spydr/Eblif/Audit.lean", THEOREMS)
    ctx.rule = ("abstract flat designs (top model + black-box models; .subckt/.gate/.names/.latch/.conn, .cname/.attr/.param, "
                "bus and scalar nets, unconn, continuations, comments, blank lines, any statement order) rendered by the "
                "engine's own writer, plus the bundled .eblif examples; each is parsed, composed with write_blackbox x "
                "write_eblif_cname, and parsed again; distinct = distinct text, non-trivial = >=3 instances or >=2 with a bus port")
    ctx.assumptions = [
        "domain of the random stream: first model is the top model, further models are .blackbox models closed by .end; "
        "(black-box models may also stand before the top model when the first of them is instantiated by it: the reader "
        "elects the first .model and re-elects through check_hierarchy; a first model the top never instantiates stays top, "
        "as in BLIF); non-black-box sub-models are out of scope (the format support is flat); text outside any .model is "
        "ignored (lines without the words # and .model are generated); "
        "names without * ? = # (get_ports/get_cables treat * ? as globs; = splits formal from actual), never the bare "
        "word unconn (names that merely contain unconn, a statement keyword without its dot or a $false/$true/$undef "
        "look-alike are generated as ordinary names); base names do not end in _<digits>; two drivers on one net bit only in the `multi-driver` class; "
        ".cname distinct from net names; `\\` only as last word of a statement line; no comment between truth-table rows",
        "instance identity across write-then-read is positional (the writer's category order subckt, gate, other, names, latch); "
        "names are compared only when write_eblif_cname is on; the bookkeeping key `unconn` and black-box port directions are "
        "not part of the round-trip comparison (not in C18's list)",
    ]
    ctx.partial_notes = [
        "the round trip is proved in total form for the whole writer output of flat designs, any statement order "
        "(eblif_roundtrip_any_order; eblif_roundtrip_full is the order-preserving case); the share of the tested cases "
        "inside its hypotheses is counted in input_distribution (theorem_fragment:*); hierarchical designs, EBLIF.other and "
        "odd index syntax are covered by the correspondence check only (see docs/eblif.md)",
    ]
    if not ok:
        return
    inputs = []
    if ctx.replay:
        with open(ctx.replay if os.path.isabs(ctx.replay) else os.path.join(ROOT, ctx.replay)) as f:
            j = json.load(f)
        xs = [j["input"]] if "input" in j else [c["input"] for c in j.get("broken_correspondence", []) if c.get("input")]
        for x in xs[:5]:
            d, t, o = resolve_input(x)
            inputs.append(("replay", d, t, o))
        ctx.merge_shard(worker("inputs", ctx.seed, 0, 0, ctx.tier, inputs))
        return
    for p in sorted(glob.glob(os.path.join(ROOT, "corpus", PID, "*.json"))):
        with open(p) as f:
            j = json.load(f)
        d, t, o = resolve_input(j.get("input", j))
        inputs.append(("corpus:" + os.path.basename(p), d, t, o))
    for name, text in bundled_inputs():
        d = L.design_of_text(text)
        if d is not None:
            inputs.append(("bundled:" + name, d, text, OPTS if ctx.tier == "thorough" or len(text) < 10000 else OPTS[:2]))
    import time
    if ctx.tier == "thorough":
        lean.leanchecker(ctx, MODULES)
    jobs = [("inputs", ctx.seed, 0, 0, ctx.tier, inputs[i::4]) for i in range(4) if inputs[i::4]]
    nsh = 14
    per = ctx.scale(230, 1000)
    deadline = time.time() + min(ctx.scale(30.0, 480.0), max(10.0, ctx.time_left() * 0.55))
    jobs += [("gen", ctx.seed, s, per, ctx.tier, None, deadline) for s in range(nsh)]
    shard.run_shards(ctx, worker, jobs)
    # a model/implementation divergence that is not explained by a known defect, and no failing
    # input yet: look for one around the diverging inputs
    from common import findings
    open_sigs = set(k["signature"] for k in findings.load() if k["property"] == PID and k.get("status") == "open")
    div = [c for c in ctx.corr if not (c.get("signature") and c["signature"] in open_sigs)]
    new_spec = [x for x in ctx.spec if x["signature"] not in open_sigs]
    if div and not new_spec:
        designs = [c["input"]["design"] for c in div if isinstance(c.get("input"), dict) and "design" in c["input"]][:8]
        if designs:
            dl = time.time() + max(10.0, ctx.time_left() * 0.6)
            n = ctx.scale(150, 1500)
            shard.run_shards(ctx, worker, [("search", ctx.seed, i, n, ctx.tier, [d], dl) for i, d in enumerate(designs)])
