"""Random abstract flat EBLIF designs (see eblif_lib for the design format) and their hazards.

Domain of the random stream (documented in docs/eblif.md):
  * first model is the top model; every further model is a `.blackbox` model; `.end` closes each;
  * every line starts with a keyword, a cover row, `#` + blank, or is blank; `\\` only as the last
    word of a .inputs/.outputs/.clock/.subckt/.gate/.names/.latch line; comment/blank lines never
    between the rows of a truth table;
  * names are words over a printable-ASCII alphabet without `* ? = #`, never the bare word `unconn`
    (names that merely CONTAIN `unconn`, a keyword without its dot, or a `$false/$true/$undef`
    look-alike are generated on purpose: they are ordinary names); base names do not end in
    `_<digits>` or `]`; a net bit has at most one driver among
    .names/.latch outputs and OUT pins of declared black boxes; `.cname`s are distinct from every
    net name and from each other; bus ports of the top model list all their bits."""

NET_CHARS = "abcdefghkmnpqrstwxyzABCDEFG0123456789_$.:\\/<>"
ID_CHARS = "abcdefghkmnpqrstwxyzABCDEFG0123456789_"
VAL_CHARS = "abcdefgABCDEFG0123456789_$.:\\/<>'\"-+,;()[]{}|!@%^&~"


def _word(rng, first, chars, lo, hi):
    while True:
        w = rng.choice(first) + "".join(rng.choice(chars) for _ in range(rng.randint(lo, hi)))
        if w != "\\" and w != "#":
            return w


def _fresh(rng, used, mk):
    for _ in range(1000):
        w = mk()
        if w.lower() in used or re_bad(w):
            continue
        used.add(w.lower())
        return w
    raise RuntimeError("name space exhausted")


def re_bad(w):
    import re
    return bool(re.search(r"_\d+$", w)) or w == "unconn" or "_instance_" in w or w == "\\" or w.endswith("]")


KW_PLAIN = ["unconn", "unconn", "unconn", "unconn", "names", "subckt", "gate", "conn", "cname", "latch", "model", "end",
            "inputs", "outputs", "blackbox", "attr", "param", "clock", "false", "true", "undef"]
KW_DOLLAR = ["$false", "$true", "$undef", "$unconn"]


def _kwname(rng, dollar=True):
    """an ordinary name that looks like one of the reader's keywords: contains `unconn`, a statement
    word without its dot, or a `$false/$true/$undef` look-alike, mostly with a prefix and/or suffix"""
    kw = rng.choice(KW_PLAIN + (KW_DOLLAR if dollar else []))
    pre = rng.choice(["", "", "x_", "my_", "lane_", "__vpr__", "n", "A"])
    suf = rng.choice(["", "", "ected", "0", "3", "_q", "s", "_a", "X"])
    if kw.startswith("$"):
        pre = rng.choice(["", "", "a", "x_"])
    return pre + kw + suf


def gen_design(rng, size=None, hazards=()):
    """hazards: subset of {"conn", "inner-comment", "latch-growth", "port-growth", "cname-default"}."""
    used = set()
    size = size if size is not None else rng.choice([1, 2, 3, 4, 6, 9])

    def netname():
        if rng.random() < 0.1:
            return _fresh(rng, used, lambda: _kwname(rng))
        return _fresh(rng, used, lambda: _word(rng, "abcdnqrsxyz$", NET_CHARS, 0, 6))

    def ident(first="ABCDLMX"):
        if rng.random() < 0.05:
            return _fresh(rng, used, lambda: _kwname(rng, dollar=False))
        return _fresh(rng, used, lambda: _word(rng, first, ID_CHARS, 0, 5))
    top = ident("tmcde")
    # ---- black-box models
    bbs = []
    for _ in range(rng.randint(1, 3)):
        pused = set()

        def pname():
            if rng.random() < 0.05:
                return _fresh(rng, pused, lambda: _kwname(rng, dollar=False))
            return _fresh(rng, pused, lambda: _word(rng, "ABCDIOQS", ID_CHARS, 0, 2))
        ins = [[pname(), rng.choice([1, 1, 1, 2, 3]) if rng.random() > 0.06 else rng.randint(11, 13)]
               for _ in range(rng.randint(0, 3))]
        outs = [[pname(), rng.choice([1, 1, 1, 2])] for _ in range(rng.randint(0 if ins else 1, 2))]
        bb = {"name": ident(), "ins": ins, "outs": outs, "declared": rng.random() < 0.6}
        if rng.random() < 0.1 and ins:
            outs.append(list(ins[0]))           # a port both input and output: INOUT
        if rng.random() < 0.2:
            bb["bracket1"] = True
        bbs.append(bb)
    # ---- nets
    bits = []          # [name, idx, width]
    driven = set()

    def new_net(width=None):
        w = width or rng.choice([1, 1, 1, 2, 3])
        n = netname()
        for i in range(w):
            bits.append((n, i, w))
        return n, w

    def ref(b):
        n, i, w = b
        return [n, i, "s" if (w == 1 and i == 0 and rng.random() < 0.8) else "b"]
    hdr = []
    ins_, outs_ = [], []
    for _ in range(rng.randint(0, 3)):
        n, w = new_net()
        ins_.append([(n, i, w) for i in range(w)])
        driven.update((n, i) for i in range(w))
    for _ in range(rng.randint(0, 3)):
        n, w = new_net()
        outs_.append([(n, i, w) for i in range(w)])
    if ins_ and rng.random() < 0.1:
        outs_.append(ins_[0])                   # inout top port

    def hdr_lines(kind, groups):
        flat = [ref(b) for g in groups for b in g]
        if not flat or rng.random() < 0.7:
            return [[kind, flat]]
        cut = rng.randint(1, len(flat))
        return [[kind, flat[:cut]], [kind, flat[cut:]]]
    hdr.extend(hdr_lines("inputs", ins_))
    hdr.extend(hdr_lines("outputs", outs_))
    if rng.random() < 0.25:
        hdr.append(["clock", [rng.choice(bits)[0] if bits else "clk"]])
    for _ in range(rng.randint(1, 4)):
        new_net()
    free_out = [b for b in bits if (b[0], b[1]) not in driven]
    rng.shuffle(free_out)

    def src():
        if rng.random() < 0.12 or not bits:
            return None
        return ref(rng.choice(bits))

    def drv():
        """an undriven bit (or a new net), marked driven"""
        if rng.random() < 0.1:
            return None
        while free_out:
            b = free_out.pop()
            if (b[0], b[1]) not in driven:
                driven.add((b[0], b[1]))
                return ref(b)
        n, w = new_net(1)
        driven.add((n, 0))
        return ref((n, 0, 1))
    cused = set(used)

    def info(s):
        if rng.random() < 0.5:
            if rng.random() < 0.06:
                s["cname"] = _fresh(rng, cused, lambda: _kwname(rng))
            else:
                s["cname"] = _fresh(rng, cused, lambda: _word(rng, "U", VAL_CHARS.replace("[", "").replace("]", ""), 1, 8))
        kk = set()
        s["attrs"] = [[_fresh(rng, kk, lambda: _word(rng, "kKsrc", ID_CHARS, 0, 3)), _word(rng, VAL_CHARS, VAL_CHARS, 0, 6)]
                      for _ in range(rng.choice([0, 0, 1, 2]))]
        kk = set()
        s["params"] = [[_fresh(rng, kk, lambda: _word(rng, "PINIT", ID_CHARS, 0, 3)), _word(rng, "01x'hb", "01xzXabcdef'", 0, 8)]
                       for _ in range(rng.choice([0, 0, 1, 2]))]
        if len(s["attrs"]) + len(s["params"]) + (s.get("cname") is not None) > 1 and rng.random() < 0.4:
            n = len(s["attrs"]) + len(s["params"]) + (s.get("cname") is not None)
            order = list(range(n))
            rng.shuffle(order)
            s.setdefault("lay", {})["info_order"] = order
        return s
    stmts = []
    n_latch_fields = None
    for _ in range(size):
        r = rng.random()
        if r < 0.55:
            bb = rng.choice(bbs)
            conns = []
            outnames = set(x[0] for x in bb["outs"])
            seenp = set()
            for (p, w) in bb["ins"] + bb["outs"]:
                if p in seenp:
                    continue
                seenp.add(p)
                for b in range(w):
                    if rng.random() < 0.1:
                        continue            # formal omitted
                    a = (drv() if bb["declared"] or rng.random() < 0.8 else src()) if p in outnames else src()
                    ps = "s" if (w == 1 and not bb.get("bracket1") and rng.random() < 0.85) else "b"
                    conns.append([p, b, ps, a])
            if "port-growth" not in hazards:
                pass
            if rng.random() < 0.5:
                rng.shuffle(conns)
            s = info({"k": "gate" if rng.random() < 0.15 else "subckt", "model": bb["name"], "conns": conns})
        elif r < 0.8:
            k = rng.choice([0, 1, 1, 2, 2, 3, 4])
            if rng.random() < 0.12:
                # two-digit input ports in_10.. : their order is numeric, not lexicographic
                k = rng.randint(11, 14)
                while len(bits) < k + 3:
                    new_net(rng.choice([1, 2, 3]))
                picks = rng.sample(bits, k) if rng.random() < 0.7 else [rng.choice(bits) for _ in range(k)]
                nets = [(ref(b) if rng.random() > 0.05 else None) for b in picks] + [drv()]
            else:
                nets = [src() for _ in range(k)] + [drv()]
            covers = []
            for _ in range(rng.choice([0, 1, 1, 2, 3])):
                if k == 0:
                    covers.append([rng.choice("01"), None])
                else:
                    covers.append(["".join(rng.choice("01-") for _ in range(k)), rng.choice("01")])
            s = info({"k": "names", "nets": nets, "covers": covers})
        else:
            nf = rng.choice([2, 3, 4, 5, 5])
            if n_latch_fields is None:
                n_latch_fields = nf
            elif "latch-growth" not in hazards:
                nf = min(nf, n_latch_fields)
            o = drv()
            while o is None:
                o = drv()
            fields = [src(), o] + [src() for _ in range(nf - 2)]
            if nf >= 3 and rng.random() < 0.5:
                fields[2] = [rng.choice(["re", "fe", "ah", "al", "as"]), 0, "s"]
            if nf == 5:
                fields[4] = [rng.choice("0123"), 0, "s"]
            s = info({"k": "latch", "fields": fields})
        stmts.append(s)
    # ---- names reused across models: black-box ports named like nets / ports of the top model
    if bits and rng.random() < 0.4:
        netnames = []
        for b in bits:
            if b[0] not in netnames:
                netnames.append(b[0])
        for bb in bbs:
            if rng.random() < 0.6:
                ren = {}
                pool = list(netnames)
                rng.shuffle(pool)
                for pl in (bb["ins"], bb["outs"]):
                    for pt in pl:
                        if pt[0] in ren:
                            pt[0] = ren[pt[0]]
                        elif pool and rng.random() < 0.7:
                            ren[pt[0]] = pool.pop()
                            pt[0] = ren[pt[0]]
                for s in stmts:
                    if s["k"] in ("subckt", "gate") and s["model"] == bb["name"]:
                        for c in s["conns"]:
                            c[0] = ren.get(c[0], c[0])
    # ---- hazards
    if "port-growth" not in hazards:
        _pad_formals(stmts, first_only=True)
    if "conn" in hazards:
        # `.conn a b`: b is a bit nothing drives (typically a top-level output), so a merged net
        # keeps at most one driver
        for _ in range(rng.randint(1, 3)):
            und = [b for b in bits if (b[0], b[1]) not in driven]
            if not und:
                n, w = new_net(1)
                und = [(n, 0, 1)]
            b = rng.choice(und)
            driven.add((b[0], b[1]))
            cand = [a for a in bits if (a[0], a[1]) != (b[0], b[1])]
            if not cand:
                break
            a = rng.choice(cand)
            stmts.insert(rng.randint(0, len(stmts)), {"k": "conn", "a": ref(a), "b": ref(b)})
    if "multi-driver" in hazards:
        # a second driver on a net bit that already has one: both instances want the same
        # net-derived name
        decl = set(bb["name"] for bb in bbs if bb["declared"])
        outs = {bb["name"]: set(x[0] for x in bb["outs"]) for bb in bbs}
        drivers = []
        for s in stmts:
            if s["k"] == "names" and s["nets"][-1] is not None:
                drivers.append((s, "names", None))
            elif s["k"] == "latch" and s["fields"][1] is not None:
                drivers.append((s, "latch", None))
            elif s["k"] in ("subckt", "gate") and s["model"] in decl:
                for ci, c in enumerate(s["conns"]):
                    if c[0] in outs[s["model"]] and c[3] is not None:
                        drivers.append((s, "conn", ci))
                        break

        def get(d):
            s, kind, ci = d
            return s["nets"][-1] if kind == "names" else s["fields"][1] if kind == "latch" else s["conns"][ci][3]

        def put(d, r):
            s, kind, ci = d
            if kind == "names":
                s["nets"][-1] = list(r)
            elif kind == "latch":
                s["fields"][1] = list(r)
            else:
                s["conns"][ci][3] = list(r)
        if len(drivers) >= 2:
            a, b = rng.sample(drivers, 2)
            if a[0] is not b[0]:
                put(b, get(a))
    if "cname-default" in hazards:
        # what the composer writes for instances that kept their provisional name, in its own order
        sub = [s for s in stmts if s["k"] in ("subckt", "gate")]
        bym = {}
        for s in sub:
            bym.setdefault(s["model"], []).append(s)
        for m, l in bym.items():
            ks = list(range(len(l)))
            rng.shuffle(ks)
            for s, k in zip(l, ks):
                s["cname"] = "%s_instance_%d" % (m, k)
    # ---- layout
    lay = {"pre": [" ".join(_word(rng, "abc", ID_CHARS, 0, 5) for _ in range(rng.randint(0, 3))) for _ in range(rng.choice([0, 0, 1, 2]))],
           "post": ["# " + _word(rng, "abc", ID_CHARS, 0, 5)] if rng.random() < 0.15 else [],
           "before_end": [rng.choice(["", "# tail"])] if rng.random() < 0.15 else [],
           "final_newline": rng.random() < 0.9}
    hb = {}
    for hi, (kind, refs) in enumerate(hdr):
        if len(refs) >= 2 and rng.random() < 0.25:
            hb[str(hi)] = sorted(rng.sample(range(len(refs) + 1), rng.randint(1, min(2, len(refs)))))
    lay["hdr_breaks"] = hb
    for s in stmts:
        sl = s.setdefault("lay", {})
        if rng.random() < 0.2:
            sl["before"] = [rng.choice(["", "# " + _word(rng, "abc", ID_CHARS, 0, 5), "#"])]
        if s["k"] != "conn":
            nwords = 1 + len(s.get("conns", s.get("nets", s.get("fields", []))))
            if s["k"] in ("subckt", "gate"):
                nwords += 1
            if nwords >= 3 and rng.random() < 0.25:
                sl["breaks"] = sorted(rng.sample(range(nwords - 1), rng.randint(1, min(3, nwords - 1))))
    if "inner-comment" in hazards:
        cands = [s for s in stmts if s["k"] != "conn" and (s.get("cname") is not None or s.get("attrs") or s.get("params"))]
        if cands and rng.random() < 0.7:
            s = rng.choice(cands)
            s["lay"]["inner"] = {"0": [rng.choice(["# inner", "# x y", "#"])]}
        else:
            lay["hdr_comments"] = {str(rng.randint(0, max(0, len(hdr) - 1))): [rng.choice(["# hdr", ""])]}
    # black-box models before the top model: the reader first takes the first .model for the top and
    # re-elects when the real top instantiates it (check_hierarchy), so the first one must be used
    used_models = [s["model"] for s in stmts if s["k"] in ("subckt", "gate")]
    if rng.random() < 0.25:
        cands = [bb for bb in bbs if bb["declared"] and bb["name"] in used_models]
        if cands:
            first = rng.choice(cands)
            first["first"] = True
            bbs.remove(first)
            bbs.insert(0, first)
            for bb in bbs[1:]:
                if bb["declared"] and rng.random() < 0.5:      # library first, top in the middle or last
                    bb["first"] = True
    # text outside any .model is ignored by the reader
    def junk():
        return " ".join(_word(rng, "gjq", ID_CHARS + "=[]", 0, 5) for _ in range(rng.randint(1, 3)))
    if rng.random() < 0.1:
        lay["junk_pre"] = [junk()]
    if rng.random() < 0.1:
        lay["junk_post"] = [junk()]
    for bb in bbs:
        if bb["declared"] and rng.random() < 0.05:
            bb["before"] = [junk()]
    design = {"top": top, "hdr": hdr, "stmts": stmts, "bbs": bbs, "lay": lay}
    return design


def _pad_formals(stmts, first_only=False):
    """every (or only the first) instance of a model names all bits its model's ports ever get, in
    ascending order per port and with `unconn` for the bits it does not use: then the reader sees
    the full width of every port before it creates the first instance of the model."""
    maxw = {}
    porder = {}
    for s in stmts:
        if s["k"] in ("subckt", "gate"):
            w = maxw.setdefault(s["model"], {})
            po = porder.setdefault(s["model"], [])
            for (p, b, _ps, a) in s["conns"]:
                w[p] = max(w.get(p, 0), b + 1)
                if p not in po:
                    po.append(p)
    done = set()
    for s in stmts:
        if s["k"] not in ("subckt", "gate"):
            continue
        m = s["model"]
        if first_only and m in done:
            continue
        done.add(m)
        have = {}
        for c in s["conns"]:
            have[(c[0], c[1])] = c
        conns = []
        for p in porder[m]:
            for b in range(maxw[m][p]):
                c = have.get((p, b))
                if c is None:
                    c = [p, b, "b", None]
                if maxw[m][p] > 1:
                    c = [c[0], c[1], "b", c[3]]
                conns.append(c)
        s["conns"] = conns


def hazards_of(design):
    """which known-defect mechanisms a design can trigger (independent syntactic predicates)"""
    hz = []
    st = design["stmts"]
    if any(s["k"] == "conn" for s in st):
        hz.append("conn")
    lay = design.get("lay", {})
    if lay.get("hdr_comments") or any(s.get("lay", {}).get("inner") for s in st):
        hz.append("inner-comment")
    nf = [len(s["fields"]) for s in st if s["k"] == "latch"]
    if nf and max(nf) > nf[0]:
        hz.append("latch-growth")
    w = {}
    grow = False
    for s in st:
        if s["k"] in ("subckt", "gate"):
            m = s["model"]
            first = m not in w
            cur = w.setdefault(m, {})
            for (p, b, _ps, a) in s["conns"]:
                if b > cur.get(p, 0) - 1:
                    if not first:
                        grow = True
                    cur[p] = cur.get(p, 0) + 1
            for (p, b, _ps, a) in s["conns"]:
                if a is not None and b + 1 > cur[p]:
                    cur[p] = b + 1
    if grow:
        hz.append("port-growth")
    if _unconn_width(design):
        hz.append("unconn-width")
    if default_name_collision(design):
        hz.append("cname-default")
    if _later_drivers(design):
        hz.append("multi-driver")
    if any(bb["declared"] and (bb["ins"] or bb["outs"]) for bb in design["bbs"]):
        hz.append("blackbox-ports")
    return hz


def _unconn_width(design):
    """some formal names a bit beyond the next free pin of its port (`J[1]=..` while `J` has no pin
    yet): there the original one-pin-per-formal rule of parse_subcircuit_port and the repaired
    grow-to-index rule part ways (pin creation order; the width too when the upper bits are `unconn`
    wherever they are named).  The composer writes bus pins from the highest index down, so every
    written bus formal list is of this kind."""
    one = {}
    for s in design["stmts"]:
        if s["k"] in ("subckt", "gate"):
            cur = one.setdefault(s["model"], {})
            for (p, b, _ps, a) in s["conns"]:
                if b > cur.get(p, 0):
                    return True
                if b > cur.get(p, 0) - 1:
                    cur[p] = cur.get(p, 0) + 1
            for (p, b, _ps, a) in s["conns"]:
                if a is not None and b + 1 > cur[p]:
                    cur[p] = b + 1
    return False


def _later_drivers(design):
    """indices of statements that drive a net bit an earlier statement already drives (drivers:
    .names / .latch outputs, OUT pins of declared black boxes)"""
    decl = {bb["name"]: set(x[0] for x in bb["outs"]) for bb in design["bbs"] if bb["declared"]}
    seen = set()
    later = []
    for si, s in enumerate(design["stmts"]):
        bits = []
        if s["k"] == "names" and s["nets"] and s["nets"][-1] is not None:
            bits.append((s["nets"][-1][0], s["nets"][-1][1]))
        elif s["k"] == "latch" and len(s["fields"]) > 1 and s["fields"][1] is not None:
            bits.append((s["fields"][1][0], s["fields"][1][1]))
        elif s["k"] in ("subckt", "gate") and s["model"] in decl:
            for c in s["conns"]:
                if c[0] in decl[s["model"]] and c[3] is not None:
                    bits.append((c[3][0], c[3][1]))
        if any(b in seen for b in bits):
            later.append(si)
        seen.update(bits)
    return later


def default_name_collision(design):
    """simulate the reader's provisional naming `<model>_instance_<k>` (k = number of earlier
    instances of the model in this .model) against the names instances carry at that moment."""
    names = []
    count = {}
    for s in design["stmts"]:
        k = s["k"]
        if k == "conn":
            continue
        if k in ("subckt", "gate"):
            m = s["model"]
        elif k == "names":
            m = "logic-gate_%d" % (len(s["nets"]) - 1)
            o = s["nets"][-1]
            if o is not None and "unconn" not in o[0]:      # parse_names: "unconn" in <output net> -> provisional name
                m = None
        else:
            m = None
        if m is not None:
            idx = count.get(m, -1) + 1
            count[m] = idx
            prov = "%s_instance_%d" % (m, idx)
            if prov in names:
                return True
            names.append(prov)
        else:
            names.append(None)
        if s.get("cname") is not None:
            names[-1] = s["cname"]
    return False


def ablate(design, hz):
    """the same design without the mechanism `hz`"""
    import copy
    d = copy.deepcopy(design)
    if hz == "conn":
        d["stmts"] = [s for s in d["stmts"] if s["k"] != "conn"]
    elif hz == "inner-comment":
        d.get("lay", {}).pop("hdr_comments", None)
        for s in d["stmts"]:
            s.get("lay", {}).pop("inner", None)
    elif hz == "latch-growth":
        nf = [len(s["fields"]) for s in d["stmts"] if s["k"] == "latch"]
        for s in d["stmts"]:
            if s["k"] == "latch":
                s["fields"] = s["fields"][:nf[0]]
    elif hz == "port-growth":
        _pad_formals(d["stmts"])
    elif hz == "cname-default":
        n = 0
        for s in d["stmts"]:
            if s["k"] != "conn" and s.get("cname") is not None and "_instance_" in s["cname"]:
                s["cname"] = "Uabl%d" % n
                n += 1
    elif hz == "multi-driver":
        drop = set(_later_drivers(d))
        d["stmts"] = [s for i, s in enumerate(d["stmts"]) if i not in drop]
    elif hz == "blackbox-ports":
        for bb in d["bbs"]:
            bb["declared"] = False
    elif hz == "unconn-width":
        # every instance names all bits of its model's ports in ascending order: no formal skips a pin
        _pad_formals(d["stmts"])
    return d
