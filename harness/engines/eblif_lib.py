"""EBLIF engine support: observation of a parsed netlist, abstract flat designs (generator,
independent writer, independent text scanner, denotation), the property predicates (P) and the
hazard/ablation machinery that attributes a failure to one known defect class.

Nothing in this file looks at the Lean model; the model is only consulted in eblif.py."""
import io
import os
import re
import tempfile

LATCH_ORDER = ["input", "output", "type", "control", "init-val"]
CATS = ["EBLIF.subckt", "EBLIF.gate", "EBLIF.other", "EBLIF.names", "EBLIF.latch"]


def exc_family(e):
    if isinstance(e, AssertionError):
        return "assert"
    if isinstance(e, ValueError):
        return "value"
    if isinstance(e, KeyError):
        return "key"
    if isinstance(e, IndexError):
        return "index"
    if isinstance(e, TypeError):
        return "type"
    if isinstance(e, RuntimeError):
        return "runtime"
    return "other"


# ---------------------------------------------------------------------------------------------
# observation of the implementation's netlist (same JSON shape as the driver's `netJ`)
# ---------------------------------------------------------------------------------------------
def observe(nl):
    from spydrnet.ir.outerpin import OuterPin
    out = {"name": nl.name, "top": None, "comments": list(nl._data.get("EBLIF.comment", [])),
           "defs": [], "insts": [], "cables": []}
    t = nl.top_instance
    if t is not None and t.reference is not None:
        out["top"] = t.reference.name
    out["top_inst_name"] = t.name if t is not None else None
    extra_keys = set()
    placed = set()
    for lib in nl.libraries:
        for d in lib.definitions:
            placed.update(id(k) for k in d.children)
    out["refs"] = {}
    for lib in nl.libraries:
        for d in lib.definitions:
            rs = list(d.references)
            out["refs"][d.name] = {"n": len(rs),
                                   "stray": sum(1 for r in rs if id(r) not in placed and r is not t),
                                   "top": sum(1 for r in rs if r is t)}
    for lib in nl.libraries:
        libtag = "work" if lib.name == "work" else ("prim" if lib.name == "hdi_primitives" else "lib:" + str(lib.name))
        for d in lib.definitions:
            out["defs"].append({"name": d.name, "lib": libtag,
                                "ports": [[p.name, p.direction.name, len(p.pins)] for p in d.ports],
                                "clock": list(d._data["EBLIF.clock"]) if "EBLIF.clock" in d._data else None})
            for k in d._data:
                if k not in (".NAME", "EBLIF.clock", ".NS"):
                    extra_keys.add("def:" + k)
            kids = list(d.children)
            kpos = {id(k): i for i, k in enumerate(kids)}

            def pr(x):
                if isinstance(x, OuterPin):
                    q = x.inner_pin
                    return ["i", kpos.get(id(x.instance), -1), q.port.name, q.port.pins.index(q)]
                return ["t", x.port.definition.name if x.port.definition is not None else None,
                        x.port.name, x.port.pins.index(x)]
            for c in d.cables:
                out["cables"].append({"owner": d.name, "name": c.name,
                                      "wires": [[pr(x) for x in w.pins] for w in c.wires]})
            for k in kids:
                dd = k._data
                for key in dd:
                    if key not in (".NAME", "EBLIF.type", "EBLIF.output_covers", "unconn", "EBLIF.cname",
                                   "EBLIF.attr", "EBLIF.param", ".NS"):
                        extra_keys.add("inst:" + key)
                out["insts"].append({
                    "parent": d.name, "name": k.name, "model": k.reference.name if k.reference else None,
                    "typ": dd.get("EBLIF.type"),
                    "covers": list(dd["EBLIF.output_covers"]) if "EBLIF.output_covers" in dd else None,
                    "unconn": list(dd.get("unconn", [])),
                    "cname": dd.get("EBLIF.cname"),
                    "attrs": [[a, b] for a, b in dd.get("EBLIF.attr", {}).items()],
                    "params": [[a, b] for a, b in dd.get("EBLIF.param", {}).items()],
                    "pins": [[q.port.name, q.port.pins.index(q)] for q in k._pins]})
    out["extra_keys"] = sorted(extra_keys)
    return out


def canon_net(o):
    """order-insensitive where the implementation's order comes from a Python set
    (undeclared black boxes are added to the primitives library from a set)."""
    return {"name": o.get("name"), "top": o.get("top"), "comments": o.get("comments"),
            "defs": sorted(({"name": d["name"], "lib": d["lib"], "ports": d["ports"], "clock": d.get("clock")}
                            for d in o["defs"]), key=lambda d: (d["lib"], d["name"])),
            "insts": [{k: i.get(k) for k in ("parent", "name", "model", "typ", "covers", "unconn", "cname",
                                            "attrs", "params", "pins")} for i in o["insts"]],
            "cables": o["cables"]}


# ---------------------------------------------------------------------------------------------
# names
# ---------------------------------------------------------------------------------------------
def split_bit(tok):
    """independent reading of `name[idx]` (last bracket group, decimal)"""
    m = re.match(r"^(.*)\[(\d+)\]$", tok, re.S)
    if m:
        return m.group(1), int(m.group(2))
    return tok, 0


def bit_text(name, idx, style):
    return name if (style == "s" and idx == 0) else "%s[%d]" % (name, idx)


# ---------------------------------------------------------------------------------------------
# abstract designs
#   design = {"top": str,
#             "hdr": [ ["inputs"|"outputs"|"clock", [ref,...]] ... ]      ref = [name, idx, style] (clock: plain words)
#             "stmts": [ {"k": "subckt"|"gate", "model": str, "conns": [[port, bit, pstyle, ref|None]],
#                         "cname": str|None, "attrs": [[k,v]], "params": [[k,v]], "lay": {...}}
#                        {"k": "names", "nets": [ref|None ...] (last = output), "covers": [[a,b|None]], ...}
#                        {"k": "latch", "fields": [ref|None ...], ...}
#                        {"k": "conn", "a": ref, "b": ref} ],
#             "bbs": [ {"name": str, "ins": [[name, width]], "outs": [[name, width]], "declared": bool} ],
#             "lay": {"pre": [comment words...], ...}}
# ---------------------------------------------------------------------------------------------
def ref_text(r):
    if r is None:
        return "unconn"
    return bit_text(r[0], r[1], r[2])


def _wrap(words, breaks):
    """join words with blanks; after the word positions in `breaks` insert ` \\` + newline"""
    out = []
    for i, w in enumerate(words):
        out.append(w)
        if i in breaks and i != len(words) - 1:
            out.append("\\\n")
    s = ""
    for i, w in enumerate(out):
        if w == "\\\n":
            s += " \\\n"
        else:
            s += (" " if (i > 0 and out[i - 1] != "\\\n") else "") + w
    return s


def render(design):
    """The independent writer: abstract design -> EBLIF text."""
    L = []
    lay = design.get("lay", {})
    for c in lay.get("pre", []):
        L.append("# " + c if c else "#")
    for c in lay.get("junk_pre", []):
        L.append(c)

    def bb_lines(bb):
        for c in bb.get("before", []):
            L.append(c)
        L.append(".model " + bb["name"])

        def bits(ports):
            w = []
            for (n, wd) in ports:
                if wd == 1 and not bb.get("bracket1"):
                    w.append(n)
                else:
                    w.extend("%s[%d]" % (n, i) for i in range(wd))
            return w
        L.append(" ".join([".inputs"] + bits(bb["ins"])))
        L.append(" ".join([".outputs"] + bits(bb["outs"])))
        L.append(".blackbox")
        L.append(".end")
    for bb in design["bbs"]:
        if bb["declared"] and bb.get("first"):
            bb_lines(bb)
    L.append(".model " + design["top"])
    for hi, (kind, refs) in enumerate(design["hdr"]):
        for c in lay.get("hdr_comments", {}).get(str(hi), []):
            L.append(c)
        words = ["." + kind] + [(r if kind == "clock" else ref_text(r)) for r in refs]
        L.append(_wrap(words, set(lay.get("hdr_breaks", {}).get(str(hi), []))))
    for si, s in enumerate(design["stmts"]):
        sl = s.get("lay", {})
        for c in sl.get("before", []):
            L.append(c)
        k = s["k"]
        if k in ("subckt", "gate"):
            words = ["." + k, s["model"]] + [bit_text(p, b, ps) + "=" + ref_text(r) for (p, b, ps, r) in s["conns"]]
            L.append(_wrap(words, set(sl.get("breaks", []))))
        elif k == "names":
            words = [".names"] + [ref_text(r) for r in s["nets"]]
            L.append(_wrap(words, set(sl.get("breaks", []))))
            for (a, b) in s["covers"]:
                L.append(a if b is None else a + " " + b)
        elif k == "latch":
            words = [".latch"] + [ref_text(r) for r in s["fields"]]
            L.append(_wrap(words, set(sl.get("breaks", []))))
        elif k == "conn":
            L.append(".conn " + ref_text(s["a"]) + " " + ref_text(s["b"]))
            continue
        info = []
        if s.get("cname") is not None:
            info.append(".cname " + s["cname"])
        for (a, b) in s.get("attrs", []):
            info.append(".attr " + a + " " + b)
        for (a, b) in s.get("params", []):
            info.append(".param " + a + " " + b)
        order = sl.get("info_order")
        if order and sorted(order) == list(range(len(info))):
            info = [info[j] for j in order]
        inner = sl.get("inner", {})
        for j, line in enumerate(info):
            for c in inner.get(str(j), []):
                L.append(c)
            L.append(line)
    for c in lay.get("before_end", []):
        L.append(c)
    L.append(".end")
    for bb in design["bbs"]:
        if not bb["declared"] or bb.get("first"):
            continue
        bb_lines(bb)
    for c in lay.get("post", []):
        L.append(c)
    for c in lay.get("junk_post", []):
        L.append(c)
    text = "\n".join(L) + ("\n" if lay.get("final_newline", True) else "")
    if lay.get("tabs"):
        text = text.replace(" ", "\t", 1)
    return text


def design_of_text(text):
    """None when the text is not in the scanner's grammar (e.g. a statement line without operands)"""
    try:
        return _design_of_text(text)
    except (IndexError, ValueError, KeyError):
        return None


def _design_of_text(text):
    """Independent scanner: EBLIF text (top model first, then .blackbox models) -> abstract design.
    Comment lines (`#` first word) and blank lines are dropped; `\\` at the end of a line joins."""
    joined = re.sub(r"(?m)[ \t]\\[ \t]*\n", " ", text)
    lines = [l.split() for l in joined.split("\n")]
    models = []
    cur = None
    pending = []      # comment / blank lines seen since the last statement line
    where = None      # "hdr" | "info" | None: what the last statement line was
    for l in lines:
        if not l or l[0] == "#":
            if cur is not None:
                pending.append(" ".join(l))
            continue
        kw = l[0]
        pend, pending = pending, []
        if kw == ".model":
            cur = {"name": l[1], "hdr": [], "stmts": [], "blackbox": False, "hdr_comments": {}}
            models.append(cur)
            where = "hdr"
        elif cur is None:
            continue
        elif kw in (".inputs", ".outputs", ".clock"):
            if where == "hdr" and pend:
                cur["hdr_comments"][str(len(cur["hdr"]))] = pend
            cur["hdr"].append([kw[1:], l[1:]])
        elif kw in (".subckt", ".gate"):
            conns = []
            for w in l[2:]:
                f, a = w.split("=", 1)
                p, b = split_bit(f)
                an, ai = split_bit(a)
                conns.append([p, b, "b" if f.endswith("]") else "s",
                              None if an == "unconn" else [an, ai, "b" if a.endswith("]") else "s"]])
            cur["stmts"].append({"k": kw[1:], "model": l[1], "conns": conns, "cname": None, "attrs": [], "params": []})
            where = "info"
        elif kw == ".names":
            cur["stmts"].append({"k": "names", "nets": [_ref(w) for w in l[1:]], "covers": [],
                                 "cname": None, "attrs": [], "params": []})
            where = "info"
        elif kw == ".latch":
            cur["stmts"].append({"k": "latch", "fields": [_ref(w) for w in l[1:]],
                                 "cname": None, "attrs": [], "params": []})
            where = "info"
        elif kw == ".conn":
            cur["stmts"].append({"k": "conn", "a": _ref(l[1]), "b": _ref(l[2])})
            where = None
        elif kw in (".cname", ".attr", ".param") and cur["stmts"] and cur["stmts"][-1]["k"] != "conn":
            st = cur["stmts"][-1]
            if where == "info" and any(x.startswith("#") for x in pend):
                st.setdefault("lay", {}).setdefault("inner", {})["0"] = [x for x in pend if x.startswith("#")]
            if kw == ".cname":
                st["cname"] = l[1]
            elif kw == ".attr":
                _dset(st["attrs"], l[1], l[2])
            else:
                _dset(st["params"], l[1], l[2])
        elif kw == ".blackbox":
            cur["blackbox"] = True
            where = None
        elif kw == ".end":
            cur = None
            where = None
        elif cur["stmts"] and cur["stmts"][-1]["k"] == "names" and set(kw) <= set("01-"):
            cur["stmts"][-1]["covers"].append([l[0], l[1] if len(l) > 1 else None])
        if kw not in (".model", ".inputs", ".outputs", ".clock") and where == "hdr":
            where = None
    if not models:
        return None
    # the top model is the first model that is not a black box (the reader first elects the first
    # .model and re-elects when a later model instantiates it); black boxes before it are `first`
    tops = [m for m in models if not m["blackbox"]]
    top = tops[0] if tops else models[0]
    ti = models.index(top)
    d = {"top": top["name"], "hdr": [[k, (ws if k == "clock" else [_ref(w) for w in ws])] for k, ws in top["hdr"]],
         "stmts": top["stmts"], "bbs": [], "lay": ({"hdr_comments": top["hdr_comments"]} if top["hdr_comments"] else {})}
    for mi, m in enumerate(models):
        if m is top:
            continue
        if not m["blackbox"] or m["stmts"]:
            d["unsupported"] = "second non-blackbox model"

        def ports(kind):
            seen = {}
            for k, ws in m["hdr"]:
                if k == kind:
                    for w in ws:
                        n, i = split_bit(w)
                        seen[n] = max(seen.get(n, 0), i + 1)
            return [[n, w] for n, w in seen.items()]
        bbd = {"name": m["name"], "ins": ports("inputs"), "outs": ports("outputs"), "declared": True}
        if mi < ti:
            bbd["first"] = True
        d["bbs"].append(bbd)
    return d


def _ref(w):
    n, i = split_bit(w)
    if n == "unconn":
        return None
    return [n, i, "b" if w.endswith("]") else "s"]


def _dset(pairs, k, v):
    for p in pairs:
        if p[0] == k:
            p[1] = v
            return
    pairs.append([k, v])


# ---------------------------------------------------------------------------------------------
# denotation of an abstract design (what C18 says the parsed netlist must contain)
# ---------------------------------------------------------------------------------------------
def denote(design):
    ports = {}
    order = []
    pins_on = {}      # bit -> list of pins
    uf = {}

    def find(b):
        uf.setdefault(b, b)
        while uf[b] != b:
            uf[b] = uf[uf[b]]
            b = uf[b]
        return b

    def attach(pin, r):
        b = (r[0], r[1])
        find(b)
        pins_on.setdefault(b, []).append(pin)
    for kind, refs in design["hdr"]:
        if kind == "clock":
            continue
        for r in refs:
            n, i = r[0], r[1]
            if n not in ports:
                ports[n] = {"dir": "IN" if kind == "inputs" else "OUT", "width": 0}
                order.append(n)
            else:
                p = ports[n]
                if kind == "inputs":
                    p["dir"] = "IN" if p["dir"] == "IN" else ("INOUT" if p["dir"] in ("OUT", "INOUT") and False else "IN")
                else:
                    p["dir"] = "INOUT" if p["dir"] in ("IN", "INOUT") else "OUT"
            first = i >= ports[n]["width"] or ("t", n, i) not in [x for l in pins_on.values() for x in l]
            ports[n]["width"] = max(ports[n]["width"], i + 1)
            if first:
                attach(("t", n, i), r)
    insts = []
    for s in design["stmts"]:
        k = s["k"]
        if k == "conn":
            a, b = find((s["a"][0], s["a"][1])), find((s["b"][0], s["b"][1]))
            if a != b:
                uf[b] = a
            continue
        idx = len(insts)
        e = {"typ": "EBLIF." + k, "cname": s.get("cname"), "attrs": dict(map(tuple, s.get("attrs", []))),
             "params": dict(map(tuple, s.get("params", []))), "covers": None}
        if k in ("subckt", "gate"):
            e["model"] = s["model"]
            seen = {}
            for (p, b, _ps, r) in s["conns"]:
                seen[(p, b)] = r       # a repeated formal: the last actual counts
            for (p, b), r in seen.items():
                if r is not None:
                    attach(("i", idx, p, b), r)
        elif k == "names":
            e["model"] = "logic-gate_%d" % (len(s["nets"]) - 1)
            e["covers"] = [a + " " + (b if b is not None else "") for (a, b) in s["covers"]]
            for j, r in enumerate(s["nets"]):
                pn = "out" if j == len(s["nets"]) - 1 else "in_%d" % j
                if r is not None:
                    attach(("i", idx, pn, 0), r)
        elif k == "latch":
            e["model"] = "generic-latch"
            for pn, r in zip(LATCH_ORDER, s["fields"]):
                if r is not None:
                    attach(("i", idx, pn, 0), r)
        insts.append(e)
    groups = {}
    for b, pl in pins_on.items():
        groups.setdefault(find(b), {"bits": set(), "pins": set()})
    for b in list(uf):
        g = groups.setdefault(find(b), {"bits": set(), "pins": set()})
        g["bits"].add(b)
        g["pins"].update(pins_on.get(b, []))
    nets = [g for g in groups.values() if g["pins"]]
    leafs = set(e["model"] for e in insts) | set(bb["name"] for bb in design["bbs"] if bb["declared"])
    leafs.discard(design["top"])
    return {"ports": ports, "insts": insts, "nets": nets, "leafs": leafs}


def obs_nets(obs, owner, perm=None):
    """non-empty wires of `owner` as {frozenset(pins): (cable, index)}"""
    res = {}
    for c in obs["cables"]:
        if c["owner"] != owner:
            continue
        for wi, w in enumerate(c["wires"]):
            if not w:
                continue
            ps = set()
            for p in w:
                if p[0] == "t":
                    # a pin of another definition's port stays visible as such
                    ps.add(("t", p[2], p[3]) if p[1] == owner else ("foreign", p[1], p[2], p[3]))
                else:
                    ps.add(("i", perm[p[1]] if perm else p[1], p[2], p[3]))
            res[frozenset(ps)] = (c["name"], wi)
    return res


def P_parse(design, obs, wf):
    """The reader half of C18 on the implementation's own result.  Returns [(clause, detail)]."""
    out = []
    den = denote(design)
    top = design["top"]
    if obs["top"] != top or obs["name"] != top:
        out.append(("parse.top", "top %r name %r, expected %r" % (obs["top"], obs["name"], top)))
    tdef = [d for d in obs["defs"] if d["name"] == top]
    if len(tdef) != 1 or tdef[0]["lib"] != "work":
        out.append(("parse.top-definition", "top definition not (uniquely) in library work"))
        return out
    got_ports = {p[0]: {"dir": p[1], "width": p[2]} for p in tdef[0]["ports"]}
    if got_ports != den["ports"] or len(got_ports) != len(tdef[0]["ports"]):
        out.append(("parse.ports", "ports %r expected %r" % (got_ports, den["ports"])))
    kids = [i for i in obs["insts"] if i["parent"] == top]
    if len(kids) != len(den["insts"]):
        out.append(("parse.instances.count", "%d instances, expected %d" % (len(kids), len(den["insts"]))))
    else:
        for k, (g, e) in enumerate(zip(kids, den["insts"])):
            if g["typ"] != e["typ"] or g["model"] != e["model"]:
                out.append(("parse.instances.kind", "instance %d is %s of %s, expected %s of %s"
                            % (k, g["typ"], g["model"], e["typ"], e["model"])))
            if e["cname"] is not None and (g["name"] != e["cname"] or g["cname"] != e["cname"]):
                out.append(("parse.instances.cname", "instance %d named %r/%r, expected cname %r" % (k, g["name"], g["cname"], e["cname"])))
            if e["cname"] is None and g["cname"] is not None:
                out.append(("parse.instances.cname", "instance %d has cname %r, none given" % (k, g["cname"])))
            if dict(map(tuple, g["attrs"])) != e["attrs"] or dict(map(tuple, g["params"])) != e["params"]:
                out.append(("parse.instances.data", "instance %d attr/param %r %r expected %r %r"
                            % (k, g["attrs"], g["params"], e["attrs"], e["params"])))
            if e["covers"] is not None and g["covers"] != e["covers"]:
                out.append(("parse.instances.covers", "instance %d covers %r expected %r" % (k, g["covers"], e["covers"])))
        names = [g["name"] for g in kids]
        if len(set(names)) != len(names) or any(n is None for n in names):
            out.append(("parse.instances.names-unique", "instance names not unique / missing"))
        got = obs_nets(obs, top)
        want = {frozenset(g["pins"]): g["bits"] for g in den["nets"]}
        if set(got) != set(want):
            miss = [sorted(map(str, x)) for x in set(want) - set(got)][:3]
            extra = [sorted(map(str, x)) for x in set(got) - set(want)][:3]
            out.append(("parse.nets", "pin sets differ: expected-not-found %r, found-not-expected %r" % (miss, extra)))
        else:
            for ps, key in got.items():
                if key not in want[ps]:
                    out.append(("parse.nets.bit-name", "net of %r is bit %r, expected one of %r" % (sorted(map(str, ps))[:3], key, sorted(want[ps]))))
                    break
    for leaf in sorted(den["leafs"]):
        dd = [d for d in obs["defs"] if d["name"] == leaf]
        if len(dd) != 1 or dd[0]["lib"] != "prim" or any(c["owner"] == leaf for c in obs["cables"]) \
                or any(i["parent"] == leaf for i in obs["insts"]):
            out.append(("parse.blackbox-leaf", "model %s is not a leaf primitive" % leaf))
    for bb in design["bbs"]:
        if bb["declared"]:
            dd = [d for d in obs["defs"] if d["name"] == bb["name"]]
            if dd:
                gp = {p[0]: p[1] for p in dd[0]["ports"]}
                for (n, _w) in bb["ins"]:
                    want_dir = "INOUT" if n in [x[0] for x in bb["outs"]] else "IN"
                    if gp.get(n) != want_dir:
                        out.append(("parse.blackbox-ports", "%s.%s is %s expected %s" % (bb["name"], n, gp.get(n), want_dir)))
                for (n, _w) in bb["outs"]:
                    want_dir = "INOUT" if n in [x[0] for x in bb["ins"]] else "OUT"
                    if gp.get(n) != want_dir:
                        out.append(("parse.blackbox-ports", "%s.%s is %s expected %s" % (bb["name"], n, gp.get(n), want_dir)))
    # users of every definition: each instance in d.references is a child of some definition of the
    # netlist or the netlist's top instance, and their number is the number of statements that
    # instantiate d (+1 for the top model)
    want_refs = {}
    for e in den["insts"]:
        want_refs[e["model"]] = want_refs.get(e["model"], 0) + 1
    want_refs[top] = want_refs.get(top, 0) + 1
    for dn, r in sorted((obs.get("refs") or {}).items()):
        if r["stray"]:
            out.append(("parse.references.stray", "definition %s is referenced by %d instance(s) that are neither placed in "
                        "a definition of the netlist nor its top instance" % (dn, r["stray"])))
        if r["n"] != want_refs.get(dn, 0):
            out.append(("parse.references.count", "definition %s has %d references, expected %d" % (dn, r["n"], want_refs.get(dn, 0))))
    # every wire of every definition holds only pins of that definition (its own port pins, pins of
    # its own children)
    for c in obs["cables"]:
        nk = sum(1 for i in obs["insts"] if i["parent"] == c["owner"])
        for wi, w in enumerate(c["wires"]):
            for p in w:
                if (p[0] == "t" and p[1] != c["owner"]) or (p[0] == "i" and not (0 <= p[1] < nk)):
                    out.append(("parse.foreign-pin", "wire %s[%d] of %s holds pin %r of another definition"
                                % (c["name"], wi, c["owner"], p)))
    for w in wf:
        out.append(("parse.wf." + w.replace(" ", "-"), w))
    if obs.get("extra_keys"):
        pass
    return out


def composer_perm(kids):
    """position in the composed file -> index of the instance in the original child list"""
    perm = []
    for c in CATS:
        perm.extend(i for i, k in enumerate(kids) if k["typ"] == c)
    return perm


def P_roundtrip(obs1, obs2, wc):
    """write-then-read half of C18: same instances, types, data, pin lists, nets as sets of pins, top ports,
    port names and widths of the instantiated definitions."""
    out = []
    top = obs1["top"]
    if obs2["top"] != top:
        out.append(("roundtrip.top", "%r vs %r" % (obs2["top"], top)))
        return out
    k1 = [i for i in obs1["insts"] if i["parent"] == top]
    k2 = [i for i in obs2["insts"] if i["parent"] == top]
    perm = composer_perm(k1)
    if len(perm) != len(k1) or len(k2) != len(k1):
        out.append(("roundtrip.instances.count", "%d -> %d (%d typed)" % (len(k1), len(k2), len(perm))))
        return out
    for pos, j in enumerate(perm):
        a, b = k1[j], k2[pos]
        if a["model"] != b["model"] or a["typ"] != b["typ"]:
            out.append(("roundtrip.instances.kind", "%s %s -> %s %s" % (a["typ"], a["model"], b["typ"], b["model"])))
        if wc and a["name"] != b["name"]:
            out.append(("roundtrip.instances.name", "%r -> %r" % (a["name"], b["name"])))
        if dict(map(tuple, a["attrs"])) != dict(map(tuple, b["attrs"])) or dict(map(tuple, a["params"])) != dict(map(tuple, b["params"])) \
                or a["covers"] != b["covers"]:
            out.append(("roundtrip.instances.data", "instance %r data changed" % (a["name"],)))
        if sorted(map(tuple, a["pins"])) != sorted(map(tuple, b["pins"])):
            out.append(("roundtrip.instances.pins", "instance %r of %s: pins %r -> %r"
                        % (a["name"], a["model"], sorted(map(tuple, a["pins"])), sorted(map(tuple, b["pins"])))))
    n1 = set(obs_nets(obs1, top))
    n2 = set(obs_nets(obs2, top, perm))
    if n1 != n2:
        out.append(("roundtrip.nets", "lost %r gained %r" % ([sorted(map(str, x)) for x in n1 - n2][:3], [sorted(map(str, x)) for x in n2 - n1][:3])))
    # the definitions the children instantiate keep their port names and widths (directions of
    # black boxes are outside C18's list)
    for m in sorted(set(i["model"] for i in k1)):
        w1 = sorted((p[0], p[2]) for d in obs1["defs"] if d["name"] == m for p in d["ports"])
        w2 = sorted((p[0], p[2]) for d in obs2["defs"] if d["name"] == m for p in d["ports"])
        if w1 != w2:
            out.append(("roundtrip.leaf-ports", "definition %s: ports (name, width) %r -> %r" % (m, w1, w2)))
    p1 = [d for d in obs1["defs"] if d["name"] == top]
    p2 = [d for d in obs2["defs"] if d["name"] == top]
    if not p1 or not p2 or sorted(map(tuple, p1[0]["ports"])) != sorted(map(tuple, p2[0]["ports"])):
        out.append(("roundtrip.ports", "top ports changed"))
    return out
