"""Engine `edif`: properties C05 (the EDIF reader builds exactly the design the file describes) and
C03 (EDIF write-then-read returns the same netlist).

Technique: Lean 4 theorems over the executable model lean/Spydr/Edif (tokenizer, s-expressions,
reader `ofSExp`, writer `toSExp`/`layoutE`) + differential correspondence with the real
spydrnet code + evaluation of the property's predicate on the implementation for every input.
See docs/edif.md.
"""
import copy
import glob
import json
import os
import random
import shutil
import tempfile
import time
import zipfile

from common import canon, lean, shard
from common.ctx import ROOT, REPO, stable_hash
from engines import edif_gen as G

ENGINE_DIR = "Spydr/Edif"
AUDIT = "Spydr/Edif/Audit.lean"
MODULES = {"C05": ["Spydr.Edif.Props.C05", "Spydr.Edif.Props.C05Denote", "Spydr.Edif.Props.C05Struct", "Spydr.Edif.Props.C05Kw", "Spydr.Edif.Props.C05Erase", "Spydr.Edif.Audit"],
           "C03": ["Spydr.Edif.Props.C03", "Spydr.Edif.Props.C03Closure", "Spydr.Edif.Props.C03Fragment", "Spydr.Edif.Audit"]}
THEOREMS = json.load(open(os.path.join(os.path.dirname(__file__), "edif.meta.json")))["properties"]

# signatures of the open findings (known_findings.d/edif.json).  Each is tied to one explicit
# trigger of the generators; a failure on an input WITHOUT that trigger gets a generic signature
# and is therefore reported as a VIOLATION.
SIG = {
    "design_case": "edif.design.undeclared_target_accepted",
    "after_design": "edif.design.trailing_constructs_dropped",
    "amp_bus": "edif.reader.amp_underscore_bus_not_merged",
    "glob": "edif.reader.glob_in_net_name",
    "bracket_tail": "edif.reader.net_name_trailing_bracket",
    "undefined_dir": "edif.writer.undefined_direction",
    "one_pin_array": "edif.writer.one_pin_array_port",
    "bitlike_scalar": "edif.convention.scalar_net_named_like_bus_bit",
    "dup_base_bit": "edif.reader.duplicate_base_bit_shifts_bus",
    "scalar_like_bus": "edif.reader.scalar_net_shorted_to_bus",
    "shared_stem": "edif.reader.bus_identity_by_identifier_stem",
    "inst_no_viewref": "edif.reader.instance_without_reference",
    "viewref_no_cellref": "edif.reader.instance_of_enclosing_cell",
    "odd_char": "edif.reader.string_token_charset",
    "backslash_bus": "edif.reader.backslash_bus_cable",
    "old_name": "edif.writer.oldname_raw_rename",
    "odd_prop_value": "edif.writer.non_integer_property_value",
}
# a failure is attributed to an open finding only if the input carries that finding's trigger AND the
# failure is of the kind the defect produces; anything else keeps its generic signature
EXPECT = {
    "design_case": ["parse.view05.top", "parse.raises.other:UnboundLocalError"],
    "after_design": ["parse.view05.libs.#len"],
    "amp_bus": ["parse.view05.libs.cells.cables", "roundtrip.view03.libraries.nets", "roundtrip.view03.libraries.#"],
    "glob": ["parse.view05.libs.cells.cables", "roundtrip.view03.libraries.nets", "roundtrip.view03.libraries.#"],
    "bracket_tail": ["parse.raises.index", "reparse.raises.index"],
    "undefined_dir": ["reparse.raises.runtime"],
    "one_pin_array": ["roundtrip.view03.libraries.ports"],
    "bitlike_scalar": ["roundtrip.view03.libraries.nets", "roundtrip.view03.libraries.#"],
    "dup_base_bit": ["parse.view05.libs.cells.cables", "parse.file_view05.libs.cells.cables"],
    "scalar_like_bus": ["parse.view05.libs.cells.cables", "parse.raises.value"],
    "shared_stem": ["parse.view05.libs.cells.cables", "parse.raises.value"],
    "inst_no_viewref": ["parse.result_not_well_formed.instance_without_reference", "parse.accepted_text_that_must_be_rejected"],
    "viewref_no_cellref": ["parse.result_not_well_formed.instance_reference_not_before_its_cell",
                           "parse.accepted_text_that_must_be_rejected"],
    "odd_char": ["reparse.raises.runtime", "history.reparse.raises.runtime"],
    "backslash_bus": ["roundtrip.view03.libraries.nets", "roundtrip.view03.libraries.#"],
    "old_name": ["reparse.raises.runtime", "history.reparse.raises.runtime"],
    "odd_prop_value": ["reparse.raises.value", "reparse.raises.runtime", "history.reparse.raises.value", "history.reparse.raises.runtime"],
}


def classify(trigger, sig, detail):
    if trigger and any(sig.startswith(e) for e in EXPECT[trigger]):
        return SIG[trigger], sig + ": " + detail
    return sig, detail


def classify_any(trigs, sig, detail):
    for t in trigs:
        s2, d2 = classify(t, sig, detail)
        if s2 != sig:
            return s2, d2
    return sig, detail


def derived_triggers03(c):
    """features of a netlist that put it into the sub-domain of an open writer finding"""
    out = []
    ports = [p for L in c["libraries"] for D in L["definitions"] for p in D["ports"]]
    if any(p["dir"] == "UNDEFINED" for p in ports):
        out.append("undefined_dir")
    if any(p["width"] == 1 and not p["scalar"] for p in ports):
        out.append("one_pin_array")

    def odd(sx):
        return isinstance(sx, str) and any(not (32 <= ord(ch) <= 126 or ch == "\t") for ch in sx)
    elems = [c] + list(c["libraries"]) + [D for L in c["libraries"] for D in L["definitions"]]
    for D in [D for L in c["libraries"] for D in L["definitions"]]:
        elems += D["ports"] + D["cables"] + D["instances"]
    if c.get("top"):
        elems.append(c["top"])
    strings = [e.get("name") for e in elems]
    for e in elems:
        for pr in (e.get("data", {}).get("EDIF.properties") or []):
            if isinstance(pr, dict):
                strings += [pr.get("value"), pr.get("original_identifier")]
    strings += [c.get("data", {}).get("EDIF.status.written.program"), c.get("data", {}).get("EDIF.status.written.program.version")]
    if any(odd(x) for x in strings):
        out.append("odd_char")
    if any("oldName" in e.get("data", {}) for e in elems):
        out.append("old_name")
    for D in [D for L in c["libraries"] for D in L["definitions"]]:
        for k in D["instances"]:
            for pr in (k["data"].get("EDIF.properties") or []):
                if isinstance(pr, dict) and not isinstance(pr.get("value"), (str, bool, int)):
                    if "odd_prop_value" not in out:
                        out.append("odd_prop_value")
        for cb in D["cables"]:
            if (len(cb["wires"]) > 1 or not cb["scalar"]) and str(cb["name"]).startswith("\\"):
                if "backslash_bus" not in out:
                    out.append("backslash_bus")
    return out


TRIG05 = ["design_case", "after_design", "amp_bus", "glob", "bracket_tail", "dup_base_bit", "scalar_like_bus", "shared_stem",
          "inst_no_viewref", "viewref_no_cellref"]
TRIG03 = ["undefined_dir", "one_pin_array", "bitlike_scalar", "amp_bus", "glob", "bracket_tail", "backslash_bus",
          "old_name", "odd_prop_value", "odd_char"]


# ------------------------------------------------------------------------------------------------
# implementation side
# ------------------------------------------------------------------------------------------------
def _sdn():
    import spydrnet as sdn
    return sdn


def restore_policy():
    """sdn.parse switches the process-wide naming policy and (at the pinned commit) does not restore
    it when it raises (C15's finding); every case starts from the default policy."""
    import spydrnet.plugins as plugins
    plugins.namespace_manager.default = "DEFAULT"


def exc_family(e):
    if isinstance(e, AssertionError):
        return "assert"
    if isinstance(e, NotImplementedError):
        return "notimpl"
    if isinstance(e, ValueError):
        return "value"
    if isinstance(e, (KeyError, IndexError, AttributeError)):
        return "index"
    if isinstance(e, TypeError):
        return "type"
    if isinstance(e, RuntimeError):
        return "runtime"
    return "other:" + type(e).__name__


class Work:
    """temp dir per shard"""

    def __init__(self):
        self.dir = tempfile.mkdtemp(prefix="verif_edif_")
        self.n = 0

    def path(self, ext=".edf"):
        self.n += 1
        return os.path.join(self.dir, "f%d%s" % (self.n, ext))

    def close(self):
        shutil.rmtree(self.dir, ignore_errors=True)


def impl_parse_file(path):
    """-> ("ok", netlist) | ("exc", family, message)"""
    sdn = _sdn()
    try:
        nl = sdn.parse(path)
        return ("ok", nl)
    except RecursionError:
        raise
    except Exception as e:  # noqa
        return ("exc", exc_family(e), str(e)[:200])
    finally:
        restore_policy()


def impl_parse_text(work, text):
    p = work.path()
    with open(p, "w", newline="") as f:
        f.write(text)
    r = impl_parse_file(p)
    try:
        os.unlink(p)
    except OSError:
        pass
    return r


def check_name_consistent(c):
    """canon carries `name` and data['.NAME']: the same thing read two ways"""
    bad = []

    def chk(x, where):
        if x["name"] != x["data"].get(".NAME"):
            bad.append(where)
    chk(c, "netlist")
    for L in c["libraries"]:
        chk(L, "library")
        for D in L["definitions"]:
            chk(D, "definition")
            for k in ("ports", "cables", "instances"):
                for x in D[k]:
                    chk(x, k)
    return bad


def unjval(v):
    """inverse of canon.jval on what recipes use: {"float": "1.5"} -> 1.5"""
    if isinstance(v, dict):
        if set(v) == {"float"}:
            return float(v["float"])
        return {k: unjval(x) for k, x in v.items()}
    if isinstance(v, list):
        return [unjval(x) for x in v]
    return v


def build_from_canon(c):
    """build a netlist through the public API from a canon-format recipe (DEFAULT naming policy)"""
    sdn = _sdn()
    restore_policy()
    nl = sdn.Netlist()
    if c.get("name") is not None:
        nl.name = c["name"]
    for k, v in c.get("data", {}).items():
        if k != ".NAME":
            nl[k] = unjval(copy.deepcopy(v))
    defs = []
    for L in c["libraries"]:
        lib = nl.create_library(name=L["name"])
        for k, v in L.get("data", {}).items():
            if k != ".NAME":
                lib[k] = unjval(copy.deepcopy(v))
        row = []
        for D in L["definitions"]:
            d = lib.create_definition(name=D["name"])
            for k, v in D.get("data", {}).items():
                if k != ".NAME":
                    d[k] = unjval(copy.deepcopy(v))
            for P in D["ports"]:
                p = d.create_port(name=P["name"])
                p.direction = {"IN": sdn.IN, "OUT": sdn.OUT, "INOUT": sdn.INOUT,
                               "UNDEFINED": sdn.Port.Direction.UNDEFINED}[P["dir"]]
                p.create_pins(P["width"])
                if P["width"] <= 1:
                    p.is_scalar = bool(P["scalar"])
                p.lower_index = P.get("lower", 0)
                p.is_downto = P.get("downto", True)
                for k, v in P.get("data", {}).items():
                    if k != ".NAME":
                        p[k] = unjval(copy.deepcopy(v))
            row.append(d)
        defs.append(row)
    for li, L in enumerate(c["libraries"]):
        for di, D in enumerate(L["definitions"]):
            d = defs[li][di]
            kids = []
            for K in D["instances"]:
                r = K["ref"]
                k = d.create_child(name=K["name"], reference=(defs[r[0]][r[1]] if r is not None else None))
                for kk, v in K.get("data", {}).items():
                    if kk != ".NAME":
                        k[kk] = unjval(copy.deepcopy(v))
                kids.append(k)
            for C in D["cables"]:
                cb = d.create_cable(name=C["name"])
                cb.create_wires(len(C["wires"]))
                if len(C["wires"]) <= 1:
                    cb.is_scalar = bool(C["scalar"])
                cb.lower_index = C.get("lower", 0)
                cb.is_downto = C.get("downto", True)
                for kk, v in C.get("data", {}).items():
                    if kk != ".NAME":
                        cb[kk] = unjval(copy.deepcopy(v))
                for w, pins in zip(cb.wires, C["wires"]):
                    for x in pins:
                        if x[0] == "p":
                            w.connect_pin(d.ports[x[1]].pins[x[2]])
                        else:
                            k = kids[x[1]]
                            w.connect_pin(k.pins[k.reference.ports[x[2]].pins[x[3]]])
    T = c.get("top")
    if T is not None:
        t = sdn.Instance(name=T["name"])
        r = T["ref"]
        if r is not None:
            t.reference = defs[r[0]][r[1]]
        for kk, v in T.get("data", {}).items():
            if kk != ".NAME":
                t[kk] = unjval(copy.deepcopy(v))
        nl.top_instance = t
    return nl


def mask_timestamp(tokens):
    """the six integers after the timeStamp keyword -> '#'"""
    out = list(tokens)
    for i, t in enumerate(out):
        if isinstance(t, str) and t.lower() == "timestamp":
            for j in range(i + 1, min(i + 7, len(out))):
                out[j] = "#"
            break
    return out


# ------------------------------------------------------------------------------------------------
# C05 cases
# ------------------------------------------------------------------------------------------------
def struct_problems(c):
    """the reader-specific part of the Lean predicate StructWF (lean/Spydr/Edif/StructWF.lean) — plus the strict
    clause "every instance has a reference" — evaluated on the implementation's result: every instance
    references a cell declared BEFORE the cell it stands in; the top instance, if any, references a cell
    of the netlist.  (Sibling names, pins in range, pins joined once: canon.wf_problems / check_name_consistent.)"""
    pr = []
    libs = c["libraries"]
    for L, lib in enumerate(libs):
        for D, d in enumerate(lib["definitions"]):
            for k in d["instances"]:
                r = k["ref"]
                if r is None:
                    pr.append("instance without reference")
                elif not (r[0] < L or (r[0] == L and r[1] < D)):
                    pr.append("instance reference not before its cell")
                elif r[0] >= len(libs) or r[1] >= len(libs[r[0]]["definitions"]):
                    pr.append("instance reference outside the netlist")
    t = c["top"]
    if t is not None:
        r = t["ref"]
        if r is None or r[0] >= len(libs) or r[1] >= len(libs[r[0]]["definitions"]):
            pr.append("top instance without a declared cell")
    return pr


# rejected-input classes: the text of these triggers does not describe a design (an instance without
# viewRef has no reference; a viewRef without cellRef names the cell being read) and must be REJECTED, by
# the implementation and by the model alike (compared on "rejected")
REJECT_TRIGS = {"inst_no_viewref", "viewref_no_cellref"}


def c05_eval_text(work, drv, text, expect=None, trigger=None, corr_only=False, use_model=True):
    """Run one text through implementation and model.
    Returns dict(corr=None|(impl, model), spec=None|(signature, detail), impl_canon, tags)"""
    res = {"corr": None, "spec": None, "tags": []}
    r = impl_parse_text(work, text)
    m = drv.ask({"fn": "parse", "text": text}) if use_model else {"err": "unsupported"}
    if not use_model:
        res["tags"].append("model-skipped-for-size")
        m = None
    elif m.get("err") == "unsupported":
        res["tags"].append("model-unsupported")
        m = None
    if r[0] == "ok":
        nl = r[1]
        c = canon.cnetlist(nl)
        res["impl_canon"] = c
        if m is not None:
            if "ok" in m:
                d = G.first_diff(m["ok"], c)
                if d:
                    res["corr"] = ({"diff_at": d}, None)
            else:
                res["corr"] = ("accepted", {"err": m.get("err"), "what": m.get("what")})
        wf = canon.wf_problems(nl) or struct_problems(c)
        nc = check_name_consistent(c)
        if wf:
            res["spec"] = ("parse.result_not_well_formed." + wf[0].replace(" ", "_"), "; ".join(wf[:5]))
        elif nc:
            res["spec"] = ("parse.name_inconsistent", str(nc[:3]))
        elif trigger in REJECT_TRIGS:
            res["spec"] = ("parse.accepted_text_that_must_be_rejected." + trigger, "the reader accepted a text of the rejected-input class " + trigger)
        elif expect is not None:
            d = G.first_diff(G.view05(c), expect)
            if d:
                res["spec"] = ("parse.view05." + G.kind_of_path(d), "first difference at " + d)
    else:
        if m is not None and "ok" in m:
            res["corr"] = ({"raised": r[1], "msg": r[2]}, "accepted")
        if trigger in REJECT_TRIGS:
            res["tags"].append("rejected-as-required")
        elif expect is not None:
            res["spec"] = ("parse.raises." + r[1], r[2])
    if res["spec"]:
        res["spec"] = classify(trigger, res["spec"][0], res["spec"][1])
    return res


def project05(v):
    """the harness's view05 restricted to what the Lean view05 has (no properties of ports / cells / nets)"""
    return {"name": v["name"],
            "libs": [{"name": L["name"], "external": bool(L.get("external", False)),
                      "cells": [{"name": C["name"], "view": C["view"],
                                 "ports": [{k: p[k] for k in ("name", "dir", "width", "array")} for p in C["ports"]],
                                 "insts": [{k: i[k] for k in ("name", "ref", "props")} for i in C["insts"]],
                                 "cables": [{k: cb[k] for k in ("name", "array", "lower", "wires")} for cb in C["cables"]]}
                                for C in L["cells"]]} for L in v["libs"]],
            "top": v["top"]}


def lean_denote_check(sr, work, drv, inp):
    """Ties the SPEC SIDE of the Lean theorem C05.edif_reader_spec to the implementation, for a design inside the fragment:
    Lean's own writer lays the design out (`renderText d`), Lean says what it denotes (`denote d`) and what the model reader
    builds (`view05 (readEdif …)`: equal by the theorem); the REAL reader parses Lean's text and its view must be Lean's
    denotation — and the harness's own denotation of the same design must agree with Lean's."""
    r = drv.ask({"fn": "denote05", "d": G.to_adesign(inp["d"])})
    sr.dist("c05.lean-denote-checked")
    if "error" in r or not r.get("wf"):
        sr.corr_mismatch("driver: denote05 answers for a design reported inside the fragment", {"kind": "design", **inp}, "wf", r)
        return
    if r["model"] != r["denote"]:
        sr.corr_mismatch("Lean: view05(readEdif(renderText d)) = denote d (instance of edif_reader_spec)", {"kind": "design", **inp},
                         r["denote"], r["model"])
    mine = project05(G.denote(inp["d"]))
    d0 = G.first_diff(mine, r["denote"])
    if d0:
        sr.corr_mismatch("spec: the harness's denotation = Lean's `denote` of the same design", {"kind": "design", **inp},
                         {"diff_at": d0}, None)
    ri = impl_parse_text(work, r["text"])
    if ri[0] != "ok":
        sr.corr_mismatch("spec: sdn.parse accepts the text of Lean's writer", {"kind": "text", "text": r["text"][:3000]}, ri[1:], "accepted")
        return
    vi = project05(G.view05(canon.cnetlist(ri[1])))
    d1 = G.first_diff(vi, r["denote"])
    if d1:
        sr.corr_mismatch("spec: view05(sdn.parse(renderText d)) = Lean's `denote d`", {"kind": "text", "text": r["text"][:3000]},
                         {"diff_at": d1}, None)


ERASED = "theorem_fragment:C05.edif_reader_spec_erased"


def lean_inside_check(sr, drv, text, impl_canon, inp, where="", mine=None):
    """Reach of C05.edif_reader_spec_erased on ONE TEXT (generated, bundled or written by the composer): the driver parses the
    text, strips it (`strip`: comments, status blocks, erased properties, …), guesses an abstract design (`unrender`, untrusted)
    and CHECKS the theorem's hypotheses (`insideClause`, proved sound: C05.inside_check_sound): the model accepts the text,
    `norm (strip e) = norm (render d)`, `d.wf`.  Inside: the theorem says view05 of what the model reader builds is `denote d`;
    the counter records it, and the REAL reader's view of the same text must be that denotation too (and, for generated
    designs, the harness's own denotation).  Returns the label counted."""
    try:
        r = drv.ask({"fn": "inside05", "text": text})
    except Exception:
        r = {"in": False, "clause": "driver_failure"}
    if r.get("in") is not True:
        lab = ERASED + where + ":out:" + str(r.get("clause", "not_representable"))
        return lab
    if r["model"] != r["denote"]:
        sr.corr_mismatch("Lean: view05(ofSExp e) = denote(unrender(strip e)) (instance of edif_reader_spec_erased)", inp, r["denote"], r["model"])
    if impl_canon is not None:
        d1 = G.first_diff(project05(G.view05(impl_canon)), r["denote"])
        if d1:
            sr.corr_mismatch("spec: view05(sdn.parse(text)) = Lean's `denote` of the abstract design of the stripped text (edif_reader_spec_erased)",
                             inp, {"diff_at": d1}, None)
    if mine is not None:
        d0 = G.first_diff(project05(mine), r["denote"])
        if d0:
            sr.corr_mismatch("spec: the harness's denotation = Lean's `denote` of the abstract design of the stripped text", inp,
                             {"diff_at": d0}, None)
    return ERASED + where + ":in"


def c05_design_text(inp):
    rng = random.Random(inp.get("lseed", 0))
    text, toks = G.render(inp["d"], rng, inp.get("style"), inp.get("mode"))
    return text, toks


def c05_run_design(sr, work, drv, inp, shrink=True, deadline=None, shrunk=None):
    text, toks = c05_design_text(inp)
    trig = inp.get("trigger")
    expect = G.denote(inp["d"])
    lt = drv.ask({"fn": "lex", "text": text})
    if lt != toks:
        sr.corr_mismatch("lexE(text) = tokens the independent writer laid out", {"kind": "text", "text": text[:2000]}, toks[:50], lt[:50])
    res = c05_eval_text(work, drv, text, expect, trig)
    # reach of the Lean theorem (evidence only, no verdict depends on it): is this design inside the fragment of
    # C05.edif_reader_spec / edif_reader_spec_kwcase (syntactic features of ADesign, then the decidable `wf`)?
    try:
        why = G.fragment_reasons(inp["d"])
        if why:
            sr.dist("theorem_fragment:C05.edif_reader_spec:out:" + why[0])
        else:
            fr = drv.ask({"fn": "wf05", "d": G.to_adesign(inp["d"])})
            if fr.get("in") is True:
                sr.dist("theorem_fragment:C05.edif_reader_spec:in")
                lean_denote_check(sr, work, drv, inp)
            else:
                sr.dist("theorem_fragment:C05.edif_reader_spec:out:" + ("wf." + fr["clause"] if "clause" in fr else "not_representable"))
    except Exception:
        sr.dist("theorem_fragment:C05.edif_reader_spec:out:not_representable")
    if trig not in REJECT_TRIGS:
        sr.dist(lean_inside_check(sr, drv, text, res.get("impl_canon"), {"kind": "design", **inp}, mine=expect))
    f = G.features(inp["d"])
    sr.case(stable_hash(inp["d"]), f["nontrivial"])
    sr.dist("c05.design" + (".trigger=" + trig if trig else ""))
    sr.dist("c05.size.libs=%d" % min(f["libs"], 4))
    if f["gaps"]:
        sr.dist("c05.bus-with-missing-bits")
    if f["unordered"]:
        sr.dist("c05.bus-bits-out-of-order")
    if f["hier"]:
        sr.dist("c05.hierarchical")
    for t in res["tags"]:
        sr.dist("c05." + t)
    if res["corr"]:
        sr.corr_mismatch("reader: canon(sdn.parse(text)) = ofSExp(readS(lexE text))", {"kind": "design", **inp},
                         res["corr"][0], res["corr"][1], signature=(SIG[trig] if trig else None))
    if res["spec"]:
        sig = res["spec"][0]
        d2 = inp["d"]
        # shrink only the first failure of each signature per shard (the others only count)
        if shrunk is not None:
            if sig in shrunk:
                shrink = False
            shrunk.add(sig)
        if shrink and (deadline is None or time.time() < deadline):
            def fails(e):
                t2, _ = G.render(e, random.Random(1), "lower", "tight")
                r2 = c05_eval_text(work, drv, t2, G.denote(e), trig)
                return r2["spec"] is not None and r2["spec"][0] == sig
            d2 = G.shrink(inp["d"], fails, max_steps=250)
            t2, _ = G.render(d2, random.Random(1), "lower", "tight")
            inp2 = {"kind": "design", "d": d2, "lseed": 1, "style": "lower", "mode": "tight", "trigger": trig, "text": t2}
        else:
            inp2 = {"kind": "design", **inp, "text": text}
        sr.spec_failure(sig, inp2, res["spec"][1])
        return False
    return True


def c05_run_text(sr, work, drv, inp):
    """a literal text, optionally with the expected view05"""
    res = c05_eval_text(work, drv, inp["text"], inp.get("expect"), inp.get("trigger"))
    sr.case(stable_hash(inp["text"]), True)
    sr.dist("c05.text")
    if res["corr"]:
        sr.corr_mismatch("reader: canon(sdn.parse(text)) = ofSExp(readS(lexE text))", inp, res["corr"][0], res["corr"][1],
                         signature=(SIG[inp["trigger"]] if inp.get("trigger") else None))
    if res["spec"]:
        sr.spec_failure(res["spec"][0], inp, res["spec"][1])


# ------------------------------------------------------------------------------------------------
# LONG texts (tens to hundreds of kB): the reader works on blocks of 32768 characters; these inputs put strings with blanks /
# parentheses, identifiers, numbers and runs of parentheses across the block boundaries
# ------------------------------------------------------------------------------------------------
def impl_tokens(text):
    """the implementation's tokenizer on a text -> list of tokens"""
    from spydrnet.parsers.edif.tokenizer import EdifTokenizer
    try:
        return list(EdifTokenizer.from_string(text).generate_tokens())
    except RecursionError:
        raise
    except Exception as e:  # noqa
        return ["<tokenizer raised %s>" % exc_family(e)]


def first_token_diff(a, b):
    k = next((i for i, (x, y) in enumerate(zip(a, b)) if x != y), min(len(a), len(b)))
    return k, a[max(0, k - 4):k + 4], b[max(0, k - 4):k + 4]


LONG_SIZES = (110, 190, 370, 800)        # instances: about 40, 70, 140, 300 kB of text


def long05_inputs(seed, tier):
    """the long inputs of one run: every size twice, the padding chosen so that a block boundary falls inside / next to a
    token of a chosen kind (string, identifier, number, run of parentheses)"""
    rng = random.Random(stable_hash([seed, "long05"]))
    out = []
    kinds = ["s", "s", "i", "n", "p"]
    rng.shuffle(kinds)
    reps = 2 if tier == "quick" else 6
    for si, n in enumerate(LONG_SIZES):
        nb = max(1, (n * 380) // 32768)
        for v in range(reps):
            out.append({"kind": "long", "n": n, "seed": rng.randrange(1 << 20), "j": rng.randint(1, nb), "tok": kinds[(si * reps + v) % len(kinds)],
                        "where": rng.choice("se"), "delta": rng.choice([-2, -1, 0, 1, 2, 3, 5])})
    return out


def c05_run_long(sr, work, drv, inp, model_limit=350_000):
    d, text, toks, hit = G.long_text(inp["n"], inp["seed"], inp["j"], inp["tok"], inp["where"], inp["delta"])
    sr.case(stable_hash(inp), True)
    sr.dist("c05.long-text")
    sr.dist("c05.long-text.kB=%d" % (10 * (len(text) // 10_000)))
    sr.dist("c05.long-text.block-boundary-%s" % ({"s": "in-string", "i": "in-identifier", "n": "in-number", "p": "at-parenthesis"}[inp["tok"]]
                                                if hit else "unplaced"))
    lt = drv.ask({"fn": "lex", "text": text})
    if lt != toks:
        k, a, b = first_token_diff(toks, lt)
        sr.corr_mismatch("lexE(text) = tokens the independent writer laid out (long text)", inp, a, b)
    it = impl_tokens(text)
    if it != toks:
        k, a, b = first_token_diff(toks, it)
        sr.spec_failure("parse.tokens.long_text", inp, "token %d (about character %d): written %r, tokenizer %r" % (
            k, len(" ".join(toks[:k])), a, b))
        return False
    res = c05_eval_text(work, drv, text, G.denote(d), None, use_model=(len(text) <= model_limit))
    for t in res["tags"]:
        sr.dist("c05." + t)
    if res["corr"]:
        sr.corr_mismatch("reader: canon(sdn.parse(text)) = ofSExp(readS(lexE text)) (long text)", inp, res["corr"][0], res["corr"][1])
    if res["spec"]:
        sr.spec_failure(res["spec"][0], inp, res["spec"][1])
        return False
    return True


def build_long03(n, seed):
    """API-built chain of n placed buffers; names and string properties carry blanks and parentheses and make up most of the
    written text"""
    sdn = _sdn()
    rng = random.Random(seed)
    nl = sdn.Netlist(name="long_%d" % n)
    prims = nl.create_library(name="prims")
    workl = nl.create_library(name="work (lib)")
    buf = prims.create_definition(name="BUF")
    bi = buf.create_port(name="I", direction=sdn.IN)
    bi.create_pins(1)
    bo = buf.create_port(name="O", direction=sdn.OUT)
    bo.create_pins(1)
    top = workl.create_definition(name="top of the (long) chain")
    a = top.create_port(name="a", direction=sdn.IN)
    a.create_pins(1)
    y = top.create_port(name="y", direction=sdn.OUT)
    y.create_pins(1)
    net = top.create_cable(name="a")
    net.create_wires(1)
    net.wires[0].connect_pin(a.pins[0])
    for k in range(n):
        inst = top.create_child(name=G.blanky(rng, rng.randint(15, 60)) + " %d" % k, reference=buf)
        inst["EDIF.properties"] = [{"identifier": "LOC", "value": G.blanky(rng, rng.randint(30, 120))},
                                   {"identifier": "N%d" % (k % 7), "value": rng.randint(-10 ** 9, 10 ** 9)},
                                   {"identifier": "KEEP", "value": bool(k % 2)}]
        net.wires[0].connect_pin(inst.pins[bi.pins[0]])
        net = top.create_cable(name="y" if k == n - 1 else G.blanky(rng, rng.randint(10, 50)) + " %d" % k)
        net.create_wires(1)
        net.wires[0].connect_pin(inst.pins[bo.pins[0]])
    net.wires[0].connect_pin(y.pins[0])
    ti = sdn.Instance(name="the top")
    ti.reference = top
    nl.top_instance = ti
    return nl


def c03_run_long(sr, work, drv, inp, full_limit=160_000):
    """write a long netlist, read it back.  Up to `full_limit` characters the full evaluation (model writer, model reader);
    above: the implementation's tokenizer against lexE on the written text, and P (view03 of what is read back)"""
    sdn = _sdn()
    nl = build_long03(inp["n"], inp["seed"])
    sr.case(stable_hash(inp), True)
    sr.dist("c03.long-netlist")
    f1 = work.path()
    v0 = G.view03(canon.cnetlist(nl))
    try:
        restore_policy()
        sdn.compose(nl, f1)
    except Exception as e:  # noqa
        sr.spec_failure("compose.raises." + exc_family(e), inp, str(e)[:200])
        return False
    text1 = open(f1).read()
    sr.dist("c03.long-netlist.kB=%d" % (10 * (len(text1) // 10_000)))
    it = impl_tokens(text1)
    lt = drv.ask({"fn": "lex", "text": text1})
    if it != lt:
        k, a, b = first_token_diff(it, lt)
        sr.corr_mismatch("tokenizer: EdifTokenizer(compose n) = lexE(compose n) (long text)", inp, a, b)
    if len(text1) <= full_limit:
        res = c03_eval(work, drv, build_long03(inp["n"], inp["seed"]), None, second_pass=False)
        for t in res["tags"]:
            sr.dist(t if t.startswith("theorem_fragment:") else "c03." + t)
        for (what, a, b) in res["corr"]:
            sr.corr_mismatch(what, inp, a, b)
        if res["spec"]:
            sr.spec_failure(res["spec"][0], inp, res["spec"][1])
            return False
        return True
    r = impl_parse_file(f1)
    try:
        os.unlink(f1)
    except OSError:
        pass
    if r[0] != "ok":
        sr.spec_failure("reparse.raises." + r[1], inp, r[2])
        return False
    d = G.first_diff03(G.view03(canon.cnetlist(r[1])), v0)
    if d:
        sr.spec_failure("roundtrip.view03." + d[0], inp, "first difference at " + d[1])
        return False
    return True


def example_files(limit):
    base = os.path.join(REPO, "example_netlists", "EDIF_netlists")
    out = []
    for f in sorted(glob.glob(os.path.join(base, "*.edf.zip"))):
        try:
            with zipfile.ZipFile(f) as z:
                names = z.namelist()
                sz = z.getinfo(names[0]).file_size
        except Exception:
            continue            # emptied archive in this sandbox
        if sz <= limit:
            out.append((sz, f))
    return [f for _, f in sorted(out)]


def read_zip_text(path):
    with zipfile.ZipFile(path) as z:
        return z.read(z.namelist()[0]).decode("utf-8")


def c05_run_file(sr, work, drv, inp, model_limit):
    path = inp["path"]
    if not os.path.isabs(path):
        path = os.path.join(REPO, path)
    text = read_zip_text(path) if path.endswith(".zip") else open(path).read()
    r = impl_parse_file(path)
    sr.case("file:" + os.path.basename(path), True)
    sr.dist("c05.bundled-file")
    if r[0] != "ok":
        sr.spec_failure("parse.bundled_file_rejected." + r[1], inp, r[2])
        return
    nl = r[1]
    c = canon.cnetlist(nl)
    wf = canon.wf_problems(nl)
    if wf:
        sr.spec_failure("parse.result_not_well_formed." + wf[0].replace(" ", "_"), inp, "; ".join(wf[:5]))
    # P for files: an independent reading of the text (edif_gen.denote_text: s-expression scan with the
    # property's semantics) must give the same libraries, cells, ports, instances, cables and top
    trig = None
    try:
        w = G.denote_text(text)
        feats = w.pop("features", set())
        trig = "dup_base_bit" if "dup_base_bit" in feats else None
        d = G.first_diff(G.strip_props(G.view05(c)), w)
        if d:
            sig, det = classify(trig, "parse.file_view05." + G.kind_of_path(d), "first difference at " + d)
            sr.spec_failure(sig, dict(inp, trigger=trig), det)
    except Exception as e:  # noqa
        sr.dist("c05.bundled-file.oracle-not-applicable")
    if len(text) <= model_limit:
        sr.dist(lean_inside_check(sr, drv, text, c, inp, where="[bundled files]"))
        m = drv.ask({"fn": "parse", "text": text})
        if "ok" in m:
            d = G.first_diff(m["ok"], c)
            if d:
                sr.corr_mismatch("reader: canon(sdn.parse(file)) = ofSExp(readS(lexE text))", inp, {"diff_at": d}, None,
                                 signature=(SIG[trig] if trig else None))
        else:
            sr.corr_mismatch("reader: canon(sdn.parse(file)) = ofSExp(readS(lexE text))", inp, "accepted", m)
    else:
        sr.dist("c05.bundled-file.above-model-size-limit")


# ------------------------------------------------------------------------------------------------
# C03 cases
# ------------------------------------------------------------------------------------------------
def c03_eval(work, drv, nl, trigger=None, second_pass=True):
    """nl: a live netlist (API-built or reader-produced).  Returns dict(corr=[...], spec=None|(sig, detail), tags)"""
    sdn = _sdn()
    res = {"corr": [], "spec": None, "tags": []}

    c0 = canon.cnetlist(nl)
    trigs = ([trigger] if trigger else []) + [t for t in derived_triggers03(c0) if t != trigger]
    res["triggers"] = trigs

    def spec(sig, detail):
        if res["spec"] is None:
            for t in trigs:
                s2, d2 = classify(t, sig, detail)
                if s2 != sig:
                    res["spec"] = (s2, d2)
                    res["trigger_hit"] = t
                    return
            res["spec"] = (sig, detail)
    v0 = G.view03(c0)
    f1 = work.path()
    try:
        restore_policy()
        sdn.compose(nl, f1)
    except Exception as e:  # noqa
        spec("compose.raises." + exc_family(e), str(e)[:200])
        return res
    text1 = open(f1).read()
    c1 = canon.cnetlist(nl)           # after _edifify_netlist: order + identifiers as the writer chose them
    # (a) writer correspondence: tokens of the file = tokens of the model writer's layout
    m = drv.ask({"fn": "compose", "net": c1, "ts": [0, 0, 0, 0, 0, 0]})
    # reach of the Lean theorems (evidence only): is the edifified netlist inside `WFNet n ∧ ScalarLower0 n`, the hypothesis of
    # C03.edif_roundtrip / edif_roundtrip_text / parse_compose_parse (driver: wfNetClause, proved sound: wfNetClause_sound)?
    try:
        fr = drv.ask({"fn": "wf03", "net": c1})
        if fr.get("in") is True:
            res["tags"].append("theorem_fragment:C03.edif_roundtrip:in")
        else:
            res["tags"].append("theorem_fragment:C03.edif_roundtrip:out:" + (fr["clause"] if "clause" in fr else "not_representable"))
    except Exception:
        res["tags"].append("theorem_fragment:C03.edif_roundtrip:out:not_representable")
    impl_toks = drv.ask({"fn": "lex", "text": text1})
    if "ok" in m:
        if not m.get("clean", False):
            # decidable hypothesis of C03.edif_roundtrip_text / lex_layout: inside the quantifier (no
            # double quote / line break in names and strings) the emitted expression must be clean
            res["corr"].append(("writer: emitted s-expression is clean (hypothesis of edif_roundtrip_text)", "n/a", {"clean": False}))
        model_toks = drv.ask({"fn": "lex", "text": m["ok"]})
        if mask_timestamp(impl_toks) != mask_timestamp(model_toks):
            k = next((i for i, (a, b) in enumerate(zip(mask_timestamp(impl_toks), mask_timestamp(model_toks))) if a != b),
                     min(len(impl_toks), len(model_toks)))
            res["corr"].append(("writer: tokens(compose(n)) = lexE(layoutE(toSExp n))",
                                impl_toks[max(0, k - 6):k + 6], model_toks[max(0, k - 6):k + 6]))
    else:
        res["corr"].append(("writer: tokens(compose(n)) = lexE(layoutE(toSExp n))", "file written", m))
    # (b) read it back
    r = impl_parse_file(f1)
    mr = drv.ask({"fn": "parse", "text": text1})
    if mr.get("err") == "unsupported":
        res["tags"].append("model-unsupported")
        mr = None
    if r[0] != "ok":
        if mr is not None and "ok" in mr:
            res["corr"].append(("reader on writer output", {"raised": r[1], "msg": r[2]}, "accepted"))
        spec("reparse.raises." + r[1], r[2])
        return res
    nl2 = r[1]
    c2 = canon.cnetlist(nl2)
    if mr is not None:
        if "ok" in mr:
            d = G.first_diff(mr["ok"], c2)
            if d:
                res["corr"].append(("reader on writer output: canon(parse(compose n)) = ofSExp(readS(lexE text))", {"diff_at": d}, None))
        else:
            res["corr"].append(("reader on writer output", "accepted", mr))
    # reach of C05.edif_reader_spec_erased on the COMPOSER'S OWN OUTPUT (evidence; a disagreement is a correspondence mismatch)
    try:
        ins = drv.ask({"fn": "inside05", "text": text1})
    except Exception:
        ins = {"in": False, "clause": "driver_failure"}
    if ins.get("in") is True:
        res["tags"].append(ERASED + "[composer output]:in")
        if ins["model"] != ins["denote"]:
            res["corr"].append(("Lean: view05(ofSExp e) = denote(unrender(strip e)) on the composer's output", ins["denote"], ins["model"]))
        d5 = G.first_diff(project05(G.view05(c2)), ins["denote"])
        if d5:
            res["corr"].append(("spec: view05(sdn.parse(compose n)) = Lean's `denote` of the abstract design of the stripped output",
                                {"diff_at": d5}, None))
    else:
        res["tags"].append(ERASED + "[composer output]:out:" + str(ins.get("clause", "not_representable")))
    wf = canon.wf_problems(nl2)
    if wf:
        spec("reparse.result_not_well_formed." + wf[0].replace(" ", "_"), "; ".join(wf[:5]))
    d = G.first_diff03(G.view03(c2), v0)
    if d:
        spec("roundtrip.view03." + d[0], "first difference at " + d[1])
    # (c) parse(compose(parse f)) = parse f  on the reader-produced netlist nl2
    if second_pass and res["spec"] is None:
        f2 = work.path()
        try:
            sdn.compose(nl2, f2)
        except Exception as e:  # noqa
            spec("compose_of_parsed.raises." + exc_family(e), str(e)[:200])
            return res
        r3 = impl_parse_file(f2)
        if r3[0] != "ok":
            spec("reparse_of_parsed.raises." + r3[1], r3[2])
        else:
            c3 = canon.cnetlist(r3[1])
            d = G.first_diff03(G.view03(c3), G.view03(c2))
            if d:
                spec("parse_compose_parse.view03." + d[0], "first difference at " + d[1])
    for p in (f1,):
        try:
            os.unlink(p)
        except OSError:
            pass
    return res


def c03_run_recipe(sr, work, drv, inp, shrink=True, deadline=None, shrunk=None):
    trig = inp.get("trigger")
    try:
        nl = build_from_canon(inp["net"])
    except Exception as e:  # noqa
        sr.dist("c03.recipe-not-buildable")
        return True
    herr = None
    if inp.get("history") is not None:
        # replay of a recorded history; or ("gen": seed) generate one now and record it in the input
        if isinstance(inp["history"], dict):
            hr = random.Random(inp["history"]["gen"])
            nl, ops, herr = gen_history(hr, work, nl, first=inp["history"].get("first"))
            inp = dict(inp, history=ops)
        else:
            nl, herr = apply_history(work, nl, inp["history"], strict=False)
        sr.dist("c03.history")
        sr.dist("c03.history.steps=%d" % min(len(inp["history"]), 8))
    if herr is not None:
        trigs0 = ([trig] if trig else []) + derived_triggers03(inp["net"])
        res = {"corr": [], "spec": classify_any(trigs0, "history." + herr.split(":")[0], herr), "tags": [], "triggers": trigs0}
    else:
        res = c03_eval(work, drv, nl, trig)
    f = G.features03(inp["net"])
    sr.case(stable_hash([inp["net"], inp.get("history")]), f["nontrivial"])
    sr.dist("c03.api" + (".trigger=" + trig if trig else ""))
    sr.dist("c03.size.libs=%d" % min(f["libs"], 4))
    if f["buses"]:
        sr.dist("c03.bus-cables")
    if f["insts"]:
        sr.dist("c03.hierarchical")
    for t in res["tags"]:
        sr.dist(t if t.startswith("theorem_fragment:") else "c03." + t)
    for (what, a, b) in res["corr"]:
        sr.corr_mismatch(what, inp, a, b, signature=corr_sig(res, what))
    if res["spec"]:
        sig = res["spec"][0]
        net2 = inp["net"]
        if shrunk is not None:
            if sig in shrunk:
                shrink = False
            shrunk.add(sig)
        if shrink and (deadline is None or time.time() < deadline):
            hist0 = inp.get("history")

            def run(e, hist):
                try:
                    n2 = build_from_canon(e)
                except Exception:  # noqa
                    return None
                if hist is not None:
                    n2, he = apply_history(work, n2, hist, strict=False)
                    if he is not None:
                        return classify_any(([trig] if trig else []) + derived_triggers03(e), "history." + he.split(":")[0], he)
                r2 = c03_eval(work, drv, n2, trig, second_pass=("parse_compose_parse" in res["spec"][1] or "_of_parsed" in res["spec"][1]))
                return r2["spec"]

            def same(sp):
                return sp is not None and sp[0] == sig
            # first the history (drop steps), then the netlist
            if hist0:
                changed = True
                while changed and time.time() < (deadline or time.time() + 30):
                    changed = False
                    for k in range(len(hist0)):
                        h2 = hist0[:k] + hist0[k + 1:]
                        if same(run(inp["net"], h2)):
                            hist0 = h2
                            changed = True
                            break
            net2 = G.shrink03(inp["net"], lambda e: same(run(e, hist0)), max_steps=150)
            out = {"kind": "recipe", "net": net2, "trigger": trig}
            if hist0 is not None:
                out["history"] = hist0
            sr.spec_failure(sig, out, res["spec"][1])
            return False
        out = {"kind": "recipe", "net": net2, "trigger": trig}
        if inp.get("history") is not None:
            out["history"] = inp["history"]
        sr.spec_failure(sig, out, res["spec"][1])
        return False
    return True


def c03_run_parsed(sr, work, drv, inp, text=None, path=None):
    """reader-produced netlist as the input: from an abstract design, a literal text or a bundled file"""
    if path is not None:
        r = impl_parse_file(path)
    else:
        r = impl_parse_text(work, text)
    if r[0] != "ok":
        sr.dist("c03.source-rejected")
        return
    res = c03_eval(work, drv, r[1], inp.get("trigger"), second_pass=True)
    sr.case(stable_hash([inp.get("kind"), text if text is not None else path]), True)
    sr.dist("c03.reader-produced." + inp.get("kind", "?"))
    for (what, a, b) in res["corr"]:
        sr.corr_mismatch(what, inp, a, b, signature=corr_sig(res, what))
    if res["spec"]:
        sr.spec_failure(res["spec"][0], inp, res["spec"][1])


WRITER_TRIGS = {"undefined_dir", "one_pin_array", "old_name", "odd_prop_value"}
# bitlike_scalar: a scalar net named like bit i of a bus of the same cell is, in the written text, a SECOND
# declaration of that bit; when i is the bus's base index the implementation hits the duplicate-base-bit
# defect while the model (repaired) merges: excused under the pinned bitlike finding
READER_TRIGS = {"amp_bus", "glob", "bracket_tail", "design_case", "after_design", "dup_base_bit", "bitlike_scalar",
                "odd_char", "old_name", "odd_prop_value", "scalar_like_bus", "shared_stem"}


def corr_sig(res, what=""):
    """a model/implementation divergence on an input inside the sub-domain of an open finding is the
    direct effect of that defect (the model follows the repaired code): writer findings excuse only
    the writer correspondence, reader findings only the reader correspondence"""
    side = WRITER_TRIGS if what.startswith("writer") else READER_TRIGS
    for t in ([res["trigger_hit"]] if res.get("trigger_hit") else []) + list(res.get("triggers") or []):
        if t in side:
            return SIG[t]
    return None



# ------------------------------------------------------------------------------------------------
# C03 histories: write -> edit -> write -> read on ONE netlist (API-built or reader-produced)
# ------------------------------------------------------------------------------------------------
def _lib(nl, name):
    return next(l for l in nl.libraries if l.name == name)


def _def(nl, lib, name):
    return next(d for d in _lib(nl, lib).definitions if d.name == name)


_DIRS = None


def _dir(sdn, d):
    return {"IN": sdn.IN, "OUT": sdn.OUT, "INOUT": sdn.INOUT}[d]


def apply_op(work, nl, op):
    """apply one history step through the public API; returns the (possibly new) netlist"""
    sdn = _sdn()
    k = op["op"]
    if k == "compose":
        restore_policy()
        sdn.compose(nl, work.path())
    elif k == "reparse":
        restore_policy()
        f = work.path()
        sdn.compose(nl, f)
        try:
            nl = sdn.parse(f)
        finally:
            restore_policy()
    elif k == "add_def":
        lib = _lib(nl, op["lib"])
        d = lib.create_definition(name=op["name"])
        for (pn, pd, w) in op["ports"]:
            p = d.create_port(name=pn)
            p.direction = _dir(sdn, pd)
            p.create_pins(w)
        if op.get("host") is not None:
            _def(nl, op["lib"], op["host"]).create_child(name=op["inst"], reference=d)
    elif k == "add_inst":
        d = _def(nl, op["lib"], op["def"])
        d.create_child(name=op["name"], reference=_def(nl, op["lib"], op["ref"]))
    elif k == "add_port":
        d = _def(nl, op["lib"], op["def"])
        p = d.create_port(name=op["name"])
        p.direction = _dir(sdn, op["dir"])
        p.create_pins(op["width"])
    elif k == "add_cable":
        d = _def(nl, op["lib"], op["def"])
        c = d.create_cable(name=op["name"])
        c.create_wires(op["width"])
        if op["width"] == 1:
            c.is_scalar = not op["array"]
        c.lower_index = op["lower"]
    elif k == "rename":
        if op["kind"] == "lib":
            _lib(nl, op["old"]).name = op["new"]
        else:
            d = _def(nl, op["lib"], op["def"]) if op["kind"] != "def" else None
            if op["kind"] == "def":
                _def(nl, op["lib"], op["old"]).name = op["new"]
            else:
                lst = {"port": d.ports, "cable": d.cables, "inst": d.children}[op["kind"]]
                next(x for x in lst if x.name == op["old"]).name = op["new"]
    return nl


def apply_history(work, nl, ops, strict=True):
    """-> (netlist, error text | None).  Non-strict (replay of a shrunk input): steps that no longer
    apply are skipped."""
    for op in ops:
        try:
            nl = apply_op(work, nl, op)
        except (StopIteration, KeyError, IndexError):
            if strict:
                return nl, "history step does not apply: " + json.dumps(op)[:120]
        except Exception as e:  # noqa
            if op["op"] in ("compose", "reparse"):
                return nl, "%s.raises.%s: %s" % (op["op"], exc_family(e), str(e)[:160])
            if strict:
                return nl, "edit refused (%s): %s" % (exc_family(e), json.dumps(op)[:120])
    return nl, None


def edit_name(rng, siblings, bus=False, scalar_net=False):
    """name for an element added / renamed by an edit.  Half of the time it is built to COLLIDE with
    what the siblings already carry: a name whose sanitised form is a sibling's EDIF.identifier (an
    identifier stamped by an earlier compose or by the reader), or a sibling's name in another letter
    case; otherwise a fresh or cross-scope name."""
    names = {x.name for x in siblings if x.name is not None}
    idents = [x["EDIF.identifier"] for x in siblings if "EDIF.identifier" in x]
    for _ in range(30):
        r = rng.random()
        s = None
        if r < 0.4 and idents:
            ident = rng.choice(idents)
            body = ident[1:] if ident.startswith("&") else ident
            s = "".join((rng.choice("_[].$/ -") if ch == "_" else (ch.swapcase() if rng.random() < 0.15 else ch))
                        for ch in body)
            if ident.startswith("&") and s and s[0].isalpha():
                s = rng.choice("$.0") + s
        elif r < 0.55 and names:
            s = rng.choice(sorted(names))
            s = s.swapcase() if rng.random() < 0.5 else s + rng.choice(["_", "$", "_sdn_1_", "[0]"])
        else:
            s = G.gen_name03(rng, set(names), bus=bus, scalar_net=scalar_net)
        if not s or s in names or (bus and s[0] == "\\") or '"' in s or not G.name_ok03(s, bus, scalar_net):
            continue
        return s
    return G.gen_name03(rng, set(names), bus=bus, scalar_net=scalar_net)


def gen_history(rng, work, nl, first=None, n_edits=None):
    """generate AND apply a history; -> (netlist, ops, error | None)"""
    ops = []

    def do(op):
        nonlocal nl
        nl2, err = apply_history(work, nl, [op], strict=True)
        if err is None or op["op"] in ("compose", "reparse"):
            ops.append(op)
        nl = nl2
        return err
    if first:
        err = do({"op": first})
        if err:
            return nl, ops, err
    rounds = 1 if rng.random() < 0.7 else 2
    for rd in range(rounds):
        for _ in range(n_edits or rng.randint(1, 4)):
            libs = [l for l in nl.libraries if l.definitions]
            if not libs:
                break
            lib = rng.choice(libs)
            d = rng.choice(lib.definitions)
            k = rng.choice(["add_def", "add_def", "add_inst", "add_port", "add_cable", "rename"])
            if k == "add_def":
                host = d if rng.random() < 0.75 else None
                op = {"op": "add_def", "lib": lib.name, "name": edit_name(rng, lib.definitions),
                      "ports": [[n, rng.choice(["IN", "OUT", "INOUT"]), rng.randint(1, 3)]
                                for n in {edit_name(rng, []) for _ in range(rng.randint(1, 2))}],
                      "host": host.name if host else None,
                      "inst": edit_name(rng, host.children) if host else None}
            elif k == "add_inst":
                leafs = [x for x in lib.definitions if not x.children and x is not d]
                if not leafs:
                    continue
                op = {"op": "add_inst", "lib": lib.name, "def": d.name, "name": edit_name(rng, d.children),
                      "ref": rng.choice(leafs).name}
            elif k == "add_port":
                op = {"op": "add_port", "lib": lib.name, "def": d.name, "name": edit_name(rng, d.ports),
                      "dir": rng.choice(["IN", "OUT", "INOUT"]), "width": rng.randint(1, 3)}
            elif k == "add_cable":
                w = rng.randint(1, 3)
                arr = w > 1 or rng.random() < 0.2
                op = {"op": "add_cable", "lib": lib.name, "def": d.name,
                      "name": edit_name(rng, d.cables, bus=arr, scalar_net=not arr), "width": w, "array": arr,
                      "lower": (rng.choice([0, 2, 7]) if arr else 0)}
            else:
                kind = rng.choice(["def", "port", "cable", "inst", "lib"])
                if kind == "lib":
                    op = {"op": "rename", "kind": "lib", "old": lib.name, "new": edit_name(rng, nl.libraries)}
                elif kind == "def":
                    op = {"op": "rename", "kind": "def", "lib": lib.name, "old": d.name, "new": edit_name(rng, lib.definitions)}
                else:
                    lst = {"port": d.ports, "cable": d.cables, "inst": d.children}[kind]
                    if not lst:
                        continue
                    x = rng.choice(lst)
                    is_bus = kind == "cable" and (len(x.wires) > 1 or x.is_array)
                    op = {"op": "rename", "kind": kind, "lib": lib.name, "def": d.name, "old": x.name,
                          "new": edit_name(rng, lst, bus=is_bus, scalar_net=(kind == "cable" and not is_bus))}
            do(op)          # an edit the API refuses (e.g. a name clash under the EDIF policy) is simply not part of the history
        if rd + 1 < rounds:
            err = do({"op": rng.choice(["compose", "reparse"])})
            if err:
                return nl, ops, err
    return nl, ops, None


# ------------------------------------------------------------------------------------------------
# one input (corpus / replay / generated)
# ------------------------------------------------------------------------------------------------
def run_input(pid, sr, work, drv, inp, tier="quick", shrink=False):
    kind = inp.get("kind")
    if pid == "C05":
        if kind == "design":
            c05_run_design(sr, work, drv, inp, shrink=shrink)
        elif kind == "text":
            c05_run_text(sr, work, drv, inp)
        elif kind == "file":
            c05_run_file(sr, work, drv, inp, 10 ** 9)
        elif kind == "long":
            c05_run_long(sr, work, drv, inp, model_limit=10 ** 9)
    else:
        if kind == "long":
            c03_run_long(sr, work, drv, inp)
        elif kind == "recipe":
            c03_run_recipe(sr, work, drv, inp, shrink=shrink)
        elif kind == "design":
            text, _ = c05_design_text(inp)
            c03_run_parsed(sr, work, drv, inp, text=text)
        elif kind == "text":
            c03_run_parsed(sr, work, drv, inp, text=inp["text"])
        elif kind == "file":
            path = inp["path"]
            if not os.path.isabs(path):
                path = os.path.join(REPO, path)
            c03_run_parsed(sr, work, drv, inp, path=path)


# ------------------------------------------------------------------------------------------------
# shard workers
# ------------------------------------------------------------------------------------------------
def pick_trigger(rng, trigs, p):
    return rng.choice(trigs) if rng.random() < p else None


def worker(pid, seed, shard_no, n_cases, tier, t_end, files, boost):
    """boost: None or {"trigger": t}: neighbourhood search after a correspondence mismatch"""
    sr = shard.ShardResult()
    work = Work()
    drv = lean.Driver("drv_edif")
    rng = random.Random(stable_hash([seed, pid, "shard", shard_no]))
    shrunk = set()
    try:
        for path in files:
            if time.time() > t_end:
                sr.dist("skipped-for-time.file")
                continue
            rel = os.path.relpath(path, REPO)
            if pid == "C05":
                c05_run_file(sr, work, drv, {"kind": "file", "path": rel}, model_limit=(400_000 if tier == "quick" else 3_000_000))
            else:
                c03_run_parsed(sr, work, drv, {"kind": "file", "path": rel}, path=path)
        # long inputs (block boundaries of the reader): a fixed list per run, dealt out over the shards
        if not boost:
            longs = long05_inputs(seed, tier) if pid == "C05" else [
                {"kind": "long", "n": n, "seed": int(stable_hash([seed, "long03", n, v]), 16) % (1 << 20)}
                for n in LONG_SIZES for v in range(1 if tier == "quick" else 4)]
            for k, linp in enumerate(longs):
                if k % 16 == shard_no and time.time() < t_end:
                    if pid == "C05":
                        c05_run_long(sr, work, drv, linp)
                    else:
                        c03_run_long(sr, work, drv, linp)
        for i in range(n_cases):
            if time.time() > t_end:
                sr.dist("stopped-for-time")
                break
            size = rng.choice(["small", "small", "medium", "medium", "large"])
            if pid == "C05":
                trig = boost["trigger"] if boost else pick_trigger(rng, TRIG05, 0.06)
                d = G.gen_design(rng, size, trig)
                inp = {"d": d, "lseed": rng.randrange(1 << 30), "style": None, "mode": None, "trigger": trig}
                ok = c05_run_design(sr, work, drv, inp, shrink=True, deadline=t_end, shrunk=shrunk)
                if i < 2 and ok:
                    sr.sample({"kind": "design", "text": c05_design_text(inp)[0][:600], "trigger": trig})
            else:
                trig = boost["trigger"] if boost else pick_trigger(rng, TRIG03, 0.06)
                if rng.random() < 0.8 or trig:
                    net = G.gen_recipe(rng, size, trig)
                    inp = {"kind": "recipe", "net": net, "trigger": trig}
                    if trig is None and rng.random() < 0.45:
                        # write (or write + read back) -> edit -> [write -> edit] -> write -> read
                        inp["history"] = {"gen": rng.randrange(1 << 30), "first": rng.choice(["compose", "compose", "reparse"])}
                    ok = c03_run_recipe(sr, work, drv, inp, shrink=True, deadline=t_end, shrunk=shrunk)
                    if i < 2 and ok:
                        sr.sample({"kind": "recipe", "view03": G.view03(net)["libraries"] if size == "small" else "…", "trigger": trig})
                else:
                    d = G.sanitize_for_c03(G.gen_design(rng, size, None), rng)
                    inp = {"kind": "design", "d": d, "lseed": rng.randrange(1 << 30), "style": None, "mode": None, "trigger": None}
                    text, _ = c05_design_text(inp)
                    c03_run_parsed(sr, work, drv, inp, text=text)
    finally:
        drv.close()
        work.close()
        restore_policy()
    return sr


# ------------------------------------------------------------------------------------------------
# entry point
# ------------------------------------------------------------------------------------------------
def corpus_inputs(pid):
    out = []
    for p in sorted(glob.glob(os.path.join(ROOT, "corpus", pid, "*.json"))):
        try:
            j = json.load(open(p))
        except Exception:
            continue
        inp = j.get("input", j)
        out.append((os.path.basename(p), inp))
    return out


def run(ctx):
    pid = ctx.pid
    info = THEOREMS[pid]
    lean.check_obligations(ctx, ENGINE_DIR, MODULES[pid], ["drv_edif"], AUDIT, info["theorems"])
    built = os.path.exists(os.path.join(lean.LEAN, ".lake", "build", "bin", "drv_edif"))
    if not built:
        ctx.obligation("driver drv_edif available", False, "not built")
        return
    ctx.rule = RULES[pid]
    ctx.assumptions = ASSUMPTIONS[pid]
    ctx.partial_notes = PARTIAL[pid]
    if ctx.tier == "thorough":
        lean.leanchecker(ctx, MODULES[pid])
    t_end = ctx.t0 + ctx.scale(60, 1050)

    # replay of one input
    if ctx.replay:
        j = json.load(open(ctx.replay if os.path.isabs(ctx.replay) else os.path.join(ROOT, ctx.replay)))
        inp = j.get("input", j)
        sr = shard.ShardResult()
        work = Work()
        drv = lean.Driver("drv_edif")
        try:
            if j.get("kind") == "obligation-no-longer-checks":
                for cm in j.get("broken_correspondence", []):
                    if cm.get("input"):
                        run_input(pid, sr, work, drv, cm["input"], ctx.tier)
            else:
                run_input(pid, sr, work, drv, inp, ctx.tier)
        finally:
            drv.close()
            work.close()
        ctx.merge_shard(sr)
        return

    # 1. corpus first (pinned findings, minimised past failures)
    sr = shard.ShardResult()
    work = Work()
    drv = lean.Driver("drv_edif")
    try:
        for name, inp in corpus_inputs(pid):
            run_input(pid, sr, work, drv, inp, ctx.tier)
            sr.dist("corpus")
    finally:
        drv.close()
        work.close()
    ctx.merge_shard(sr)

    # 2. bundled files + generated inputs, sharded
    nshards = 16
    files = example_files(ctx.scale(50_000, 10 ** 12))
    if pid == "C03" and ctx.tier == "thorough":
        files = example_files(3_000_000)
    if pid == "C05" and ctx.tier == "thorough":
        files = example_files(8_000_000)
    per = [[] for _ in range(nshards)]
    # largest first, round robin, so that the big files do not end up in one shard
    for k, f in enumerate(reversed(files)):
        per[k % nshards].append(f)
    # upper bounds; every shard stops at t_end (time-boxed: 75 s quick, 1050 s thorough)
    n_cases = ctx.scale(120, 2500) if pid == "C05" else ctx.scale(90, 1800)
    args = [(pid, ctx.seed, s, n_cases, ctx.tier, t_end, per[s], None) for s in range(nshards)]
    shard.run_shards(ctx, worker, args)

    # 3. a correspondence mismatch or broken obligation without a failing input: search harder
    open_sigs = set(SIG.values())
    real_corr = [c for c in ctx.corr if not (c.get("signature") in open_sigs)]
    broken = [o for o in ctx.obligations if not o[1]]
    if (real_corr or broken) and not [s for s in ctx.spec if s["signature"] not in open_sigs]:
        t_end2 = min(ctx.t0 + ctx.budget_s - 20, time.time() + ctx.scale(45, 400))
        # neighbourhood: the same generators, three times the cases, fresh seeds, NO finding triggers (a
        # trigger would only reproduce the open findings)
        args = [(pid, ctx.seed + 7919, 100 + s, n_cases * 3, ctx.tier, t_end2, [], {"trigger": None})
                for s in range(nshards)]
        before = len(ctx.corr)
        shard.run_shards(ctx, worker, args)
        ctx.extra["failing_input_search"] = {"extra_shards": nshards, "new_mismatches": len(ctx.corr) - before}
    ctx.extra["bundled_files"] = [os.path.basename(f) for f in files]


RULES = {
    "C05": "abstract designs (random hierarchy of 1-4 libraries, leaf and non-leaf cells, scalar and array ports, instances "
           "with cellRef/libraryRef/viewRef spelled in random case, rename constructs on every kind of object, typed "
           "properties, comments, status blocks; nets as scalar nets or as bit nets name[i]/id_i_ of buses in shuffled order "
           "with missing bits and arbitrary base index) are rendered by the harness's own writer with random keyword case "
           "and white space; every readable bundled .edf (<= 50 kB quick, <= 8 MB thorough) is added. A case is distinct by "
           "the hash of its abstract design / file name and non-trivial when it has hierarchy, a bus or an array port. For "
           "each: lexE(text) vs the writer's token list, canon(sdn.parse) vs the Lean model's ofSExp(readS(lexE text)) "
           "(full dictionaries), view05(sdn.parse) vs the design's denotation, well-formedness oracle. ~6% of the cases "
           "carry exactly one trigger of a known open finding.",
    "C03": "netlists built through the public API from generated recipes (1-4 libraries with acyclic dependencies declared "
           "in shuffled order; adversarial names that are deliberately REUSED across scopes - the same cell name in several "
           "libraries, the same port / instance / cable names in different cells, all instantiated and connected - and that "
           "collide after sanitising or differ only in letter case; bus ports/cables with base indices, one-wire array cables, "
           "unconnected pins, empty nets, instance properties of the three types); 45% of them continue with a HISTORY on the "
           "same netlist: write (or write and read back) -> 1-4 API edits (add a cell and instantiate it in an existing cell, "
           "add instance / port / cable, rename library / cell / port / cable / instance; new names built to collide with "
           "identifiers an earlier compose or the reader has stamped on siblings) -> optionally write / read back and edit "
           "again -> write -> read; plus reader-produced netlists (abstract designs of C05, bundled files <= 50 kB quick / "
           "<= 3 MB thorough). For each: compose to a temp file, compare the file's tokens with the Lean writer model (time "
           "stamp masked), parse it back (reader correspondence on the written text), P = equality of the name-keyed C03 view "
           "before/after + well-formedness, then compose/parse the parsed netlist again (parse.compose.parse = parse). Distinct "
           "by hash of recipe + history; non-trivial = has hierarchy or a bus.",
}
ASSUMPTIONS = {
    "C05": ["names and strings are printable ASCII (decision 8); no float-valued (number (e ..)) properties; scalar nets are not "
            "named like bus bits (pinned finding, file convention); names starting with a backslash are not generated",
            "model outcome 'unsupported' (constructs outside the modelled subset: duplicate net declarations, comments inside "
            "keywordMap, viewRef without cellRef, integer tokens with trailing characters) makes no claim; counted in the "
            "input distribution"],
    "C03": ["identifier assignment (make_valid) and the library/cell order chosen by the writer are read back from the "
            "implementation after compose and fed to the writer model (C17 / C16 own them); names avoid C17's open "
            "sub-domains (double quote in names, leading backslash, identifiers >= 250 characters)",
            "quantifier of the property: all elements named, no double quote/newline in names and string properties, "
            "non-empty ports and cables, scalar bundles at index 0, acyclic library dependencies"],
}
PARTIAL = {
    "C05": ["edif_reader_spec is proved as edif_reader_spec_partial (the nets of a cell in any order on the reader's own "
            "multibit_add_cable) plus the reference / token lemmas; the assembly over arbitrary abstract designs (keyword and "
            "reference spellings, comments, properties everywhere) is covered by correspondence + P on the implementation",
            "bundled files above 3 MB (thorough) / 400 kB (quick) are checked on the implementation side only (independent "
            "text denotation); files above 8 MB are not run"],
    "C03": ["edif_roundtrip and edif_roundtrip_text are proved at full strength on the model (netlist after _edifify_netlist: "
            "identifiers and order are read back from the implementation); parse_compose_parse is evaluated on the "
            "implementation, not proved"],
}
