"""Stand-alone sanity tool for the SPEC SIDE of C05's Lean theorem `edif_reader_spec`
(lean/Spydr/Edif/Abstract.lean, Props/C05Denote.lean); NOT part of ./check.

It draws random abstract designs inside the proved fragment, writes them as Lean terms, lets Lean
evaluate `wf`, `renderText d`, `denote d` and `view05 (readEdif (renderText d))`, then parses the Lean-rendered
text with the REAL spydrnet reader (VERIF_REPO or /repo) and compares the implementation's view with
Lean's `denote`.  This ties the hand-written Lean `render` / `denote` to the implementation the same way
the harness ties its Python `render` / `denote` (the theorem itself ties the Lean reader model to them).

usage:  python harness/engines/edif_denote_sanity.py [seed] [count]        (about 10 s per 40 designs)
"""
import json, os, random, re, subprocess, sys, tempfile

HERE = os.path.dirname(os.path.abspath(__file__))
LEAN = os.path.join(HERE, "..", "..", "lean")
sys.path.insert(0, os.environ.get("VERIF_REPO", "/repo"))
rng = random.Random(int(sys.argv[1]) if len(sys.argv) > 1 else 0)
N = int(sys.argv[2]) if len(sys.argv) > 2 else 40
used = set()
def ident(pool=None):
    while True:
        s = rng.choice("abcdefgXYZ") + "".join(rng.choice("abcXY019_") for _ in range(rng.randint(0, 4)))
        if s.endswith("_") and len(s) > 2 and s[-2].isdigit():
            continue
        if s.lower() not in pool:
            pool.add(s.lower()); return s
def name(pool_ids, pool_names):
    i = ident(pool_ids)
    if rng.random() < 0.4:
        while True:
            o = "".join(rng.choice("abc XY$.[]-") for _ in range(rng.randint(1, 5)))
            import re
            if re.search(r"\[\d+\]$", o): continue
            if o not in pool_names and o not in pool_ids:
                pool_names.add(o); return (i, o)
    if i in pool_names:
        return name(pool_ids, pool_names)
    pool_names.add(i)
    return (i, None)
def vary(s):
    return "".join(c.upper() if rng.random() < 0.5 else c.lower() for c in s)
def lstr(s): return '(S\' %s)' % json.dumps(s)
def lname(n): return "⟨%s, %s⟩" % (lstr(n[0]), "none" if n[1] is None else "some " + lstr(n[1]))
def gen():
    libs = []
    lp, ln = set(), set()
    for L in range(rng.randint(1, 3)):
        cells = []
        cp, cn = set(), set()
        for D in range(rng.randint(1, 3)):
            pp, pn = set(), set()
            ports = []
            for _ in range(rng.randint(0, 4)):
                ports.append({"nm": name(pp, pn), "dir": rng.choice([".undefined", ".inp", ".out", ".inout"]),
                              "arr": rng.choice([None, None, 1, 2, 3, 4])})
            targets = [(li, di) for li in range(L) for di in range(len(libs[li]["cells"]))] + [(L, di) for di in range(D)]
            ip, inn = set(), set()
            insts = []
            if targets:
                for _ in range(rng.randint(0, 3)):
                    li, di = rng.choice(targets)
                    tl = libs[li] if li < L else {"nm": None, "cells": cells}
                    tc = (libs[li]["cells"] if li < L else cells)[di]
                    props = []
                    ppid = set()
                    for _ in range(rng.randint(0, 2)):
                        pi_ = ident(ppid)
                        props.append((pi_, rng.choice([None, "o r"]), rng.choice([("str", "x y"), ("int", rng.randint(-5, 5)), ("bool", rng.random() < 0.5)])))
                    insts.append({"nm": name(ip, inn), "li": li, "di": di, "tc": tc, "props": props})
            # pins available
            avail = []
            for pi, p in enumerate(ports):
                for b in range(p["arr"] or 1):
                    avail.append(("p", pi, b))
            for ii, i in enumerate(insts):
                for pi, p in enumerate(i["tc"]["ports"]):
                    for b in range(p["arr"] or 1):
                        avail.append(("i", ii, pi, b))
            rng.shuffle(avail)
            nets = []
            np_, nn = set(), set()
            buses = []
            for _ in range(rng.randint(0, 2)):
                b = name(np_, nn)
                bn = b[1] if b[1] is not None else b[0]
                if bn.startswith("\\"): continue
                idxs = rng.sample(range(0, 7), rng.randint(1, 4))
                buses.append((b[0], bn, idxs))
            items = []
            for b in buses:
                for i in b[2]:
                    items.append(("bit", b[0], b[1], i))
            for _ in range(rng.randint(0, 3)):
                items.append(("scalar", name(np_, nn)))
            rng.shuffle(items)
            for it in items:
                k = rng.randint(0, min(3, len(avail)))
                pins, avail = avail[:k], avail[k:]
                nets.append((it, pins))
            cells.append({"nm": name(cp, cn), "ports": ports, "insts": insts, "nets": nets, "view": rng.choice(["netlist", "v1", "Net_V"])})
        libs.append({"nm": name(lp, ln), "cells": cells})
    tli = rng.randrange(len(libs)); tdi = rng.randrange(len(libs[tli]["cells"]))
    return {"nm": name(set(), set()), "libs": libs, "top": name(set(), set()), "tli": tli, "tdi": tdi}
def lean(d):
    def pin(c, libs, L, x):
        if x[0] == "p":
            p = c["ports"][x[1]]
            bit = "none" if (p["arr"] is None and rng.random() < 0.8) or (x[2] == 0 and rng.random() < 0.2) else "(some %d)" % x[2]
            return ".port %d %s %s" % (x[1], bit, lstr(vary(p["nm"][0])))
        i = c["insts"][x[1]]
        p = i["tc"]["ports"][x[2]]
        bit = "none" if (p["arr"] is None and rng.random() < 0.8) or (x[3] == 0 and rng.random() < 0.2) else "(some %d)" % x[3]
        return ".inst %d %d %s %s %s" % (x[1], x[2], bit, lstr(vary(p["nm"][0])), lstr(vary(i["nm"][0])))
    out = []
    for L, l in enumerate(d["libs"]):
        cs = []
        for c in l["cells"]:
            ports = ", ".join("⟨%s, %s, %s⟩" % (lname(p["nm"]), p["dir"], "none" if p["arr"] is None else "some %d" % p["arr"]) for p in c["ports"])
            insts = []
            for i in c["insts"]:
                tl = d["libs"][i["li"]]
                props = ", ".join("⟨⟨%s, %s⟩, %s⟩" % (lstr(p[0]), "none" if p[1] is None else "some " + lstr(p[1]),
                          {"str": lambda v: ".str " + lstr(v), "int": lambda v: ".int (%d)" % v, "bool": lambda v: ".bool " + ("true" if v else "false")}[p[2][0]](p[2][1])) for p in i["props"])
                insts.append("⟨%s, %d, %d, %s, %s, %s, [%s]⟩" % (lname(i["nm"]), i["li"], i["di"], lstr(vary(i["tc"]["view"])),
                             lstr(vary(i["tc"]["nm"][0])), lstr(vary(tl["nm"][0])), props))
            nets = []
            for it, pins in c["nets"]:
                ps = ", ".join(pin(c, d["libs"], L, x) for x in pins)
                if it[0] == "scalar":
                    nets.append("⟨.scalar %s, [%s]⟩" % (lname(it[1]), ps))
                else:
                    nets.append("⟨.bit %s %s %d, [%s]⟩" % (lstr(it[1]), lstr(it[2]), it[3], ps))
            cs.append("{ name := %s, view := %s, ports := [%s], insts := [%s], nets := [%s] }" % (lname(c["nm"]), lstr(c["view"]), ports, ", ".join(insts), ", ".join(nets)))
        out.append("⟨%s, [%s]⟩" % (lname(l["nm"]), ", ".join(cs)))
    tl = d["libs"][d["tli"]]; tc = tl["cells"][d["tdi"]]
    return "{ name := %s, libs := [%s], top := %s, topLi := %d, topDi := %d, topCellSp := %s, topLibSp := %s }" % (
        lname(d["nm"]), ", ".join(out), lname(d["top"]), d["tli"], d["tdi"], lstr(vary(tc["nm"][0])), lstr(vary(tl["nm"][0])))
LEANSRC = ("""import Spydr.Edif.Props.C05Denote
open Spydr.Edif
def S' (s : String) : Str := s.toList
def js (s : Str) : String := (String.ofList s).quote
def jo : Option Str → String | none => "null" | some s => js s
def jl (xs : List String) : String := "[" ++ ", ".intercalate xs ++ "]"
def jpin : CPin → String | .port p b => s!"[\\"p\\", {p}, {b}]" | .inst i p b => s!"[\\"i\\", {i}, {p}, {b}]"
def jdir : Dir → String | .undefined => "\\"UNDEFINED\\"" | .inout => "\\"INOUT\\"" | .inp => "\\"IN\\"" | .out => "\\"OUT\\""
partial def jval : Val → String
  | .null => "null" | .bool b => toString b | .int i => toString i | .str s => js s
  | .list xs => jl (xs.map jval) | .obj kv => "{" ++ ", ".intercalate (kv.map fun (k, v) => js k ++ ": " ++ jval v) ++ "}"
def jv (v : V05) : String :=
  jl [jo v.name, jo v.ident, jl (v.libs.map fun l => jl [jo l.name, jo l.ident, jl (l.cells.map fun c =>
    jl [jo c.name, jo c.ident, jo c.view,
      jl (c.ports.map fun p => jl [jo p.name, jo p.ident, jdir p.dir, toString p.width, toString p.array]),
      jl (c.insts.map fun i => jl [jo i.name, jo i.ident, (match i.ref with | some (a, b) => s!"[{a}, {b}]" | none => "null"), jl (i.props.map jval)]),
      jl (c.cables.map fun cb => jl [jo cb.name, jo cb.ident, toString cb.array, toString cb.lower, jl (cb.wires.map fun w => jl (w.map jpin))])])]),
    (match v.top with | some t => jl [jo t.name, jo t.ident, (match t.ref with | some (a, b) => s!"[{a}, {b}]" | none => "null")] | none => "null")]
def run (d : ADesign) : IO Unit := do
  let r := match readEdif (renderText d) with | .ok n => jv (view05 n) | .error _ => "\\"ERR\\""
  IO.println (jl [toString d.wf, js (renderText d), jv (denote d), r])
""")
LEANSRC += "".join("#eval run %s\n" % lean(gen()) for k in range(N))

import spydrnet as sdn
def view(n):
    def pr(x): return [x.name, x.data.get("EDIF.identifier")]
    libs = list(n.libraries)
    def ref(i):
        d = i.reference
        li = libs.index(d.library); return [li, list(d.library.definitions).index(d)]
    out = pr(n) + [[]]
    for l in libs:
        cells = []
        for d in l.definitions:
            ports = [pr(p) + [str(p.direction).split(".")[1], len(p.pins), p.is_array] for p in d.ports]
            insts = [pr(i) + [ref(i), i.data.get("EDIF.properties", [])] for i in d.children]
            cabs = []
            for c in d.cables:
                ws = []
                for w in c.wires:
                    ps = []
                    for p in w.pins:
                        if isinstance(p, sdn.OuterPin):
                            ip = p.inner_pin
                            ps.append(["i", list(d.children).index(p.instance), list(p.instance.reference.ports).index(ip.port), ip.port.pins.index(ip)])
                        else:
                            ps.append(["p", list(d.ports).index(p.port), p.port.pins.index(p)])
                    ws.append(ps)
                cabs.append(pr(c) + [c.is_array, c.lower_index, ws])
            cells.append(pr(d) + [d.data.get("EDIF.view.identifier"), ports, insts, cabs])
        out[2].append(pr(l) + [cells])
    t = n.top_instance
    out.append(pr(t) + [ref(t)])
    return out
bad = 0; tot = 0; wf = 0
tmp = tempfile.mkdtemp(prefix='verif_edif_denote_')
src = os.path.join(tmp, 'S.lean')
open(src, 'w').write(LEANSRC)
out = subprocess.run(['lake', 'env', 'lean', src], cwd=LEAN, stdout=subprocess.PIPE, stderr=subprocess.STDOUT, text=True).stdout
import shutil; shutil.rmtree(tmp)
for line in out.splitlines():
    if not line.startswith("["): continue
    r = json.loads(line)
    tot += 1
    if r[0] is not True:
        continue
    wf += 1
    assert r[2] == r[3], ("LEAN reader != denote", r[1])
    with tempfile.NamedTemporaryFile("w", suffix=".edf", delete=False) as f:
        f.write(r[1]); fn = f.name
    try:
        v = view(sdn.parse(fn))
    except Exception as e:
        v = "EXC %r" % e
    os.unlink(fn)
    if v != r[2]:
        bad += 1
        print("MISMATCH\n", r[1], "\n impl:", json.dumps(v), "\n lean:", json.dumps(r[2]))
print("total", tot, "wf", wf, "mismatch", bad)
sys.exit(1 if bad or wf == 0 else 0)
