"""Abstract EDIF designs for C05: generator, independent text writer, denotation, shrinker.

Nothing here imports spydrnet or looks at the Lean model: the *denotation* (`denote`) is what the
EDIF 2 0 0 text `render(d)` declares, computed directly from the abstract design.

Abstract design d (plain JSON):
  {"name": NM, "status": None | {...}, "body": [ITEM...]}            ITEM in file order
  ITEM = {"k":"lib", "external":bool, "nm":NM, "comments":[[str]], "cells":[CELL]}
       | {"k":"comment", "text":[str]}
       | {"k":"design", "nm":NM, "ref":[li,ci], "cspell":str, "lspell":str, "props":[PROP]}
  CELL = {"nm":NM, "view":NM, "props":[PROP], "comments":[[str]],
          "ports":[{"nm":NM, "width":None|int, "dir":"INPUT"|"OUTPUT"|"INOUT"|None, "props":[PROP]}],
          "insts":[{"nm":NM, "ref":[li,ci], "vspell":str, "cspell":str, "lspell":str|None, "props":[PROP]}],
          "buses":[NM],
          "nets":[{"kind":"scalar","nm":NM,"pins":[PIN],"props":[PROP]}
                 |{"kind":"bit","bus":k,"idx":i,"pins":[PIN]}]}
  PIN  = {"inst": None|ii, "port": pi, "bit": None|b, "pspell": str, "ispell": str|None}
  PROP = {"nm":NM, "t":"s"|"i"|"b", "v":..., "owner":None|str}
  NM   = {"id": identifier, "orig": None|original name}
li counts only "lib" items, in file order.
"""
import copy
import json

LET = "abcdefghijklmnopqrstuvwxyz"
IDCH = LET + LET.upper() + "0123456789_"
# printable ASCII without the double quote (C03/C05 quantifier) and, for generated original names,
# without the glob metacharacters * ? (they are a separate, explicitly triggered sub-domain)
ORIGCH = "".join(chr(c) for c in range(32, 127) if chr(c) not in '"*?')
KW_STYLES = ("lower", "camel", "upper", "random")

CAMEL = {
    "edif": "edif", "edifversion": "edifVersion", "ediflevel": "edifLevel", "keywordmap": "keywordMap",
    "keywordlevel": "keywordLevel", "status": "status", "written": "written", "timestamp": "timeStamp",
    "author": "author", "program": "program", "version": "version", "comment": "comment",
    "library": "library", "external": "external", "technology": "technology",
    "numberdefinition": "numberDefinition", "cell": "cell", "celltype": "cellType", "generic": "GENERIC",
    "view": "view", "viewtype": "viewType", "netlist": "NETLIST", "interface": "interface", "port": "port",
    "array": "array", "rename": "rename", "direction": "direction", "input": "INPUT", "output": "OUTPUT",
    "inout": "INOUT", "contents": "contents", "instance": "instance", "viewref": "viewRef",
    "cellref": "cellRef", "libraryref": "libraryRef", "property": "property", "string": "string",
    "integer": "integer", "boolean": "boolean", "true": "true", "false": "false", "owner": "owner",
    "net": "net", "joined": "joined", "portref": "portRef", "instanceref": "instanceRef",
    "member": "member", "design": "design",
}


# ----------------------------------------------------------------------------------------------
# generation
# ----------------------------------------------------------------------------------------------
def rand_case(rng, s):
    return "".join((c.upper() if rng.random() < 0.5 else c.lower()) if c.isalpha() else c for c in s)


def gen_ident(rng, used, amp_ok=True, maxlen=8):
    """fresh EDIF identifier, case-insensitively distinct from `used` (a set of lower-cased ones)"""
    while True:
        n = rng.randint(1, maxlen) if rng.random() < 0.9 else rng.randint(1, 24)
        if amp_ok and rng.random() < 0.12:
            s = "&" + "".join(rng.choice(IDCH) for _ in range(max(1, n)))
        else:
            s = rng.choice(LET + LET.upper()) + "".join(rng.choice(IDCH) for _ in range(n - 1))
        if s.lower() not in used:
            used.add(s.lower())
            return s


def name_is_indexed(s):
    """does the reader's file convention read `s` as  <short>[<digits>]  (parser.separate_name_and_index
    with '[')?  Used only to keep generated *scalar* names outside that (pinned) sub-domain."""
    if not s or s[-1] != "]":
        return False
    k = s.rfind("[")
    return k >= 0 and s[k + 1:-1].isdigit() and s[k + 1:-1].isascii()


def gen_orig(rng, used_names, ident, for_net=False):
    """an original name (any printable ASCII but \" * ?), distinct from used_names; not the identifier"""
    while True:
        r = rng.random()
        if r < 0.35:
            s = ident + rng.choice(["$", ".x", "/q", " b", "[", "]", "<0>", "(", ")", "%", "\\"])
        elif r < 0.5:
            s = rand_case(rng, ident)
        elif r < 0.6:
            s = ident.lstrip("&") or "x"
            s = rng.choice(["_", "$", "0", "9", "."]) + s
        else:
            s = "".join(rng.choice(ORIGCH) for _ in range(rng.randint(1, 10)))
        if s == ident or s in used_names:
            continue
        if s[0] == "\\":        # escaped-name convention of the reader: not generated
            continue
        if for_net and (name_is_indexed(s) or s.endswith("[")):
            continue
        used_names.add(s)
        return s


def gen_nm(rng, used_ids, used_names, p_rename=0.3, for_net=False, amp_ok=True):
    """a name definition {id, orig}.  Names are deliberately REUSED across scopes: with probability
    0.35 a name already handed out elsewhere in this design (rng._pool: another library's cell, another
    cell's port / instance / net, …) is taken again if it is free in the present scope."""
    pool = getattr(rng, "_pool", None)
    if pool and rng.random() < 0.35:
        for _ in range(4):
            c = rng.choice(pool)
            nm_name = c["orig"] if c["orig"] is not None else c["id"]
            if c["id"].lower() in used_ids or nm_name in used_names:
                continue
            if not amp_ok and c["id"].startswith("&"):
                continue
            if for_net and (name_is_indexed(nm_name) or nm_name.endswith("[")):
                continue
            used_ids.add(c["id"].lower())
            used_names.add(nm_name)
            return {"id": c["id"], "orig": c["orig"]}
    nm = _gen_nm_fresh(rng, used_ids, used_names, p_rename, for_net, amp_ok)
    if pool is not None:
        pool.append(dict(nm))
    return nm


def _gen_nm_fresh(rng, used_ids, used_names, p_rename=0.3, for_net=False, amp_ok=True):
    while True:
        ident = gen_ident(rng, used_ids, amp_ok=amp_ok)
        if rng.random() < p_rename:
            return {"id": ident, "orig": gen_orig(rng, used_names, ident, for_net)}
        if ident in used_names or (for_net and name_is_indexed(ident)):
            continue
        used_names.add(ident)
        return {"id": ident, "orig": None}


def gen_string(rng, lo=0, hi=12):
    r = rng.random()
    if r < 0.1:
        return ""
    if r < 0.2:
        # %-delimited runs of digits: EDIF's own string-token escape form (%34% = a double quote); spydrnet
        # writes and reads '%' verbatim, so such text must come back unchanged
        return rng.choice(["a b", "(x)", "16'hFFFF", "1'b0", "%", "x;y", "  ", ")(", "a\tb",
                           "%50%", "%75% of max", "duty_%50%_stage", "% 34 %", "a%65 66%b", "100%", "%%", "%-5%", "%+7% x"])
    return "".join(rng.choice(ORIGCH + "*?") for _ in range(rng.randint(lo, hi)))


def gen_props(rng, p=0.3, maxn=3):
    out = []
    if rng.random() >= p:
        return out
    used_i, used_n = set(), set()
    for _ in range(rng.randint(1, maxn)):
        nm = gen_nm(rng, used_i, used_n, p_rename=0.25)
        t = rng.choice("siib")
        if t == "s":
            v = gen_string(rng)
        elif t == "i":
            v = rng.choice([0, 1, 7, 42, -3, 2 ** 40 + 5, rng.randint(-1000, 100000)])
        else:
            v = rng.random() < 0.5
        out.append({"nm": nm, "t": t, "v": v, "owner": ("Xilinx" if rng.random() < 0.15 else None)})
    return out


def gen_comments(rng, p=0.15):
    if rng.random() >= p:
        return []
    return [[gen_string(rng) for _ in range(rng.randint(0, 2))] for _ in range(rng.randint(1, 2))]


def spell(rng, ident, p=0.35):
    return rand_case(rng, ident) if rng.random() < p else ident


def gen_design(rng, size="small", trigger=None):
    """size: small | medium | large ; trigger: None | 'design_case' | 'after_design' | 'amp_bus' | 'glob' | 'bracket_tail' | 'dup_base_bit' |
    'scalar_like_bus' | 'shared_stem'"""
    S = {"small": dict(libs=(1, 2), leaf=(1, 2), mid=(1, 2), kids=3, ports=3, width=3),
         "medium": dict(libs=(1, 3), leaf=(1, 4), mid=(1, 5), kids=5, ports=5, width=5),
         "large": dict(libs=(2, 4), leaf=(2, 6), mid=(3, 9), kids=9, ports=7, width=9)}[size]
    top_ids, top_names = set(), set()
    rng._pool = []          # names handed out so far in this design (reused across scopes by gen_nm)
    d = {"name": gen_nm(rng, set(), set()), "status": None, "body": []}
    if rng.random() < 0.6:
        st = {"ts": [rng.randint(1990, 2030), rng.randint(1, 12), rng.randint(1, 28), rng.randint(0, 23),
                     rng.randint(0, 59), rng.randint(0, 59)],
              "author": gen_string(rng) if rng.random() < 0.3 else None,
              "program": gen_string(rng) if rng.random() < 0.6 else None,
              "version": None, "comments": gen_comments(rng, 0.3)}
        if st["program"] is not None and rng.random() < 0.6:
            st["version"] = gen_string(rng)
        d["status"] = st
    nlibs = rng.randint(*S["libs"])
    libs = []
    for _ in range(nlibs):
        libs.append({"k": "lib", "external": rng.random() < 0.15, "nm": gen_nm(rng, top_ids, top_names),
                     "comments": gen_comments(rng), "cells": [], "_ids": set(), "_names": set()})
    cells = []   # (li, ci, cell)

    def mkports(cell, lo):
        ui, un = set(), set()
        for _ in range(rng.randint(lo, S["ports"])):
            w = None if rng.random() < 0.5 else rng.randint(1, S["width"])
            cell["ports"].append({"nm": gen_nm(rng, ui, un), "width": w,
                                  "dir": rng.choice(["INPUT", "OUTPUT", "INOUT", "INPUT", "OUTPUT", None]),
                                  "props": gen_props(rng, 0.1, 2)})

    def newcell(leaf):
        li = rng.randrange(nlibs)
        L = libs[li]
        cell = {"nm": gen_nm(rng, L["_ids"], L["_names"]),
                "view": ({"id": "netlist", "orig": None} if rng.random() < 0.7
                         else gen_nm(rng, set(), set(), p_rename=0.2)),
                "props": gen_props(rng, 0.15, 2), "comments": gen_comments(rng, 0.1),
                "ports": [], "insts": [], "buses": [], "nets": []}
        mkports(cell, 1 if leaf else 0)
        return li, cell

    def add(li, cell):
        libs[li]["cells"].append(cell)
        cells.append((li, len(libs[li]["cells"]) - 1, cell))

    # references may only point to cells that precede the instance in the text: earlier library, or
    # earlier cell of the same library.  We build the libraries' cell lists so that this holds:
    # cells are created in a global order; a cell in library li may reference created cells whose
    # library index is <= li (same library: already appended, so earlier).
    for _ in range(rng.randint(*S["leaf"])):
        add(*newcell(True))
    for _ in range(rng.randint(*S["mid"])):
        li, cell = newcell(False)
        cands = [(l2, c2, x) for (l2, c2, x) in cells if l2 <= li]
        if cands:
            ui, un = set(), set()
            for _ in range(rng.randint(0, S["kids"])):
                l2, c2, x = rng.choice(cands)
                same = (l2 == li)
                cell["insts"].append({
                    "nm": gen_nm(rng, ui, un), "ref": [l2, c2],
                    "vspell": spell(rng, x["view"]["id"]), "cspell": spell(rng, x["nm"]["id"]),
                    "lspell": (None if (same and rng.random() < 0.4) else spell(rng, libs[l2]["nm"]["id"])),
                    "props": gen_props(rng, 0.35, 3), "comments": gen_comments(rng, 0.05)})
        gen_nets(rng, cell, libs, S, trigger)
        if trigger in ("inst_no_viewref", "viewref_no_cellref"):
            # one more instance, after the nets were drawn (no net touches it): without any reference, or
            # referencing the view of the cell it stands in
            ci_self = len(libs[li]["cells"])
            extra = {"nm": gen_nm(rng, {x["nm"]["id"].lower() for x in cell["insts"]},
                                  {x["nm"]["orig"] or x["nm"]["id"] for x in cell["insts"]}),
                     "vspell": spell(rng, cell["view"]["id"]), "cspell": cell["nm"]["id"], "lspell": None,
                     "props": [], "comments": []}
            if trigger == "inst_no_viewref":
                extra.update(ref=None, noref=True)
            else:
                extra.update(ref=[li, ci_self], nocellref=True)
            cell["insts"].append(extra)
        add(li, cell)
    for L in libs:
        del L["_ids"], L["_names"]
    # body order: libraries in index order (references go backwards), comments sprinkled, design
    body = []
    for L in libs:
        if rng.random() < 0.15:
            body.append({"k": "comment", "text": [gen_string(rng) for _ in range(rng.randint(0, 2))]})
        body.append(L)
    tli, tci, tcell = cells[-1] if rng.random() < 0.7 else rng.choice(cells)
    cs, ls = tcell["nm"]["id"], libs[tli]["nm"]["id"]
    if trigger == "design_case":
        cs2, ls2 = rand_case(rng, cs), rand_case(rng, ls)
        if (cs2, ls2) == (cs, ls):
            cs2 = cs.swapcase()
            if cs2 == cs:
                ls2 = ls.swapcase()
        cs, ls = cs2, ls2
    des = {"k": "design", "nm": gen_nm(rng, set(), set()), "ref": [tli, tci], "cspell": cs, "lspell": ls,
           "props": gen_props(rng, 0.2, 2)}
    body.append(des)
    if trigger == "after_design":
        if rng.random() < 0.5:
            body.append({"k": "comment", "text": [gen_string(rng)]})
        else:
            body.append({"k": "lib", "external": False, "nm": gen_nm(rng, top_ids, top_names), "comments": [],
                         "cells": []})
    d["body"] = body
    return d


# ----------------------------------------------------------------------------------------------
# LONG designs: texts of tens to hundreds of kB whose strings (renamed names, string properties) contain
# blanks and parentheses and cover most of the text, so that some string straddles every multiple of the
# reader's block size; a leading comment works as padding that shifts the rest of the text
# ----------------------------------------------------------------------------------------------
LONG_WORDS = ("A6LUT", "u", "(x)", "fixed by the floorplan", "do not retime", ")(", "( )", "stage")


def blanky(rng, k):
    """a string of about k characters with a blank or parenthesis every few characters"""
    parts = []
    n = 0
    while n < k:
        w = rng.choice(LONG_WORDS + ("gen(%d)" % rng.randint(0, 999), "SLICE_X%dY%d" % (rng.randint(0, 99), rng.randint(0, 99)),
                                     "blk %d" % rng.randint(0, 9)))
        parts.append(w)
        n += len(w) + 1
    return " ".join(parts)


def gen_long_design(n, seed, pad=""):
    """chain of n placed buffers; every instance and net is renamed to a string with blanks / parentheses,
    every instance carries a long string property (and an integer one)"""
    import random
    rng = random.Random(seed)

    def nm(i, o=None):
        return {"id": i, "orig": o}

    def port(i, d):
        return {"nm": nm(i), "width": None, "dir": d, "props": []}
    leaf = {"nm": nm("BUF"), "view": nm("netlist"), "props": [], "comments": [], "ports": [port("I", "INPUT"), port("O", "OUTPUT")],
            "insts": [], "buses": [], "nets": []}
    top = {"nm": nm("top", "top of the (long) chain"), "view": nm("netlist"), "props": [], "comments": [],
           "ports": [port("a", "INPUT"), port("y", "OUTPUT")], "insts": [], "buses": [], "nets": []}
    prev = {"inst": None, "port": 0, "bit": None, "pspell": "a", "ispell": None}
    for k in range(n):
        top["insts"].append({"nm": nm("u%d" % k, blanky(rng, rng.randint(15, 60)) + " %d" % k), "ref": [0, 0], "vspell": "netlist",
                             "cspell": rng.choice(["BUF", "buf", "Buf"]), "lspell": rng.choice(["prims", "PRIMS", None]) if False else "prims",
                             "props": [{"nm": nm("LOC"), "t": "s", "v": blanky(rng, rng.randint(30, 120)), "owner": None},
                                       {"nm": nm("N%d" % (k % 7)), "t": "i", "v": rng.randint(-10 ** 9, 10 ** 9), "owner": None}],
                             "comments": []})
        top["nets"].append({"kind": "scalar", "nm": nm("n%d" % k, blanky(rng, rng.randint(10, 50)) + " %d" % k),
                            "pins": [prev, {"inst": k, "port": 0, "bit": None, "pspell": rng.choice(["I", "i"]), "ispell": "u%d" % k}],
                            "props": [], "comments": []})
        prev = {"inst": k, "port": 1, "bit": None, "pspell": "O", "ispell": rng.choice(["u%d", "U%d"]) % k}
    top["nets"].append({"kind": "scalar", "nm": nm("y"), "pins": [prev, {"inst": None, "port": 1, "bit": None, "pspell": "y", "ispell": None}],
                        "props": [], "comments": []})
    body = [{"k": "comment", "text": [pad]},
            {"k": "lib", "external": False, "nm": nm("prims"), "comments": [], "cells": [leaf]},
            {"k": "lib", "external": False, "nm": nm("work", "work (lib)"), "comments": [], "cells": [top]},
            {"k": "design", "nm": nm("top_i", "the top"), "ref": [1, 0], "cspell": "TOP", "lspell": "Work", "props": []}]
    return {"name": nm("long_%d" % n), "status": None, "body": body}


def token_spans(text):
    """(start, end, kind) of every token of an EDIF text; kind: s(tring) | p(arenthesis) | n(umber) | i(dentifier / word)"""
    import re
    out = []
    for m in re.finditer(r'"[^"]*"|[()]|[^\s()"]+', text):
        t = m.group()
        k = "s" if t[0] == '"' else "p" if t in "()" else "n" if t.lstrip("+-").isdigit() else "i"
        out.append((m.start(), m.end(), k))
    return out


def long_text(n, seed, j, kind, where, delta):
    """the text of gen_long_design(n, seed) padded so that block boundary 32768*j falls `delta` characters after the start
    (where='s') or the end (where='e') of a token of the given kind (p: the boundary falls inside a run of parentheses).
    Returns (design, text, tokens, boundary position relative to the token)"""
    import random
    B = 32768 * j
    d0 = gen_long_design(n, seed, "")
    t0, _ = render(d0, random.Random(seed), "camel", "tight" if seed % 2 else "pretty")
    pad = ""
    hit = None
    if B < len(t0):
        cands = [sp for sp in token_spans(t0) if sp[2] == kind and sp[0] > 200 and (sp[0] if where == "s" else sp[1]) + delta <= B]
        if cands:
            sp = cands[-1]
            pad = "p" * (B - ((sp[0] if where == "s" else sp[1]) + delta))
            hit = sp
    d = gen_long_design(n, seed, pad)
    text, toks = render(d, random.Random(seed), "camel", "tight" if seed % 2 else "pretty")
    return d, text, toks, hit


def gen_nets(rng, cell, libs, S, trigger):
    """connect a random subset of the available pins, each pin on at most one net"""
    free = []
    for pi, p in enumerate(cell["ports"]):
        for b in range(p["width"] or 1):
            free.append({"inst": None, "port": pi, "bit": (b if p["width"] is not None else None),
                         "pspell": spell(rng, p["nm"]["id"]), "ispell": None})
    for ii, inst in enumerate(cell["insts"]):
        x = libs[inst["ref"][0]]["cells"][inst["ref"][1]]
        for pi, p in enumerate(x["ports"]):
            for b in range(p["width"] or 1):
                free.append({"inst": ii, "port": pi, "bit": (b if p["width"] is not None else None),
                             "pspell": spell(rng, p["nm"]["id"]), "ispell": spell(rng, inst["nm"]["id"])})
    rng.shuffle(free)
    free = [q for q in free if rng.random() < 0.8]

    def take():
        k = rng.choice([0, 1, 2, 2, 3, 4])
        out = []
        while free and len(out) < k:
            out.append(free.pop())
        return out
    ui, un = set(), set()
    nets = []
    nn = rng.randint(0, max(1, len(free) // 2 + 1))
    for _ in range(nn):
        if rng.random() < 0.55:
            nets.append({"kind": "scalar", "nm": gen_nm(rng, ui, un, for_net=True), "pins": take(),
                         "props": gen_props(rng, 0.08, 1)})
        else:
            k = len(cell["buses"])
            nm = gen_nm(rng, ui, un, p_rename=0.4, for_net=True)
            while nm["id"].startswith("&_"):       # '&_' bus identifiers: separate sub-domain (trigger amp_bus)
                nm = gen_nm(rng, ui, un, p_rename=0.4, for_net=True)
            if nm["orig"] is None:
                nm["orig"] = nm["id"]
            # multi-dimensional names: the bus is called stem[d] (its bits stem[d][i]); several buses of a cell share the stem
            if rng.random() < 0.15:
                stems = [b["orig"][:b["orig"].index("[")] for b in cell["buses"] if b.get("_md")]
                stem = rng.choice(stems) if stems and rng.random() < 0.7 else nm["id"].lstrip("&") or "m"
                for dd in rng.sample(range(0, 8), 8):
                    cand = "%s[%d]" % (stem, dd)
                    if cand not in un:
                        un.discard(nm["orig"])
                        un.add(cand)
                        nm["orig"] = cand
                        nm["_md"] = True
                        break
            cell["buses"].append(nm)
            base = rng.choice([0, 0, 0, 1, 2, 5, 31])
            width = rng.randint(1, S["width"])
            idxs = [base + j for j in range(width)]
            idxs = [i for i in idxs if rng.random() < 0.8] or [base]
            # the reader takes the index from the NAME; the identifier only has to look indexed: now and
            # then the identifier's index differs from the name's
            off = rng.choice([1, 7, 100]) if rng.random() < 0.12 else 0
            for i in idxs:
                bn = {"kind": "bit", "bus": k, "idx": i, "pins": take()}
                if off:
                    bn["iidx"] = i + off
                nets.append(bn)
    if trigger == "amp_bus":
        k = len(cell["buses"])
        while True:
            ident = "&_" + gen_ident(rng, set(), amp_ok=False).rstrip("_")
            if ident.lower() not in ui and len(ident) > 2:
                ui.add(ident.lower())
                break
        orig = "_" + ident[2:]
        if orig in un:
            orig = orig + "$"
        un.add(orig)
        cell["buses"].append({"id": ident, "orig": orig})
        for i in rng.sample(range(0, 4), rng.randint(2, 3)):
            nets.append({"kind": "bit", "bus": k, "idx": i, "pins": take()})
    tail = []
    if trigger == "scalar_like_bus":
        # a scalar net that carries the NAME (or only the identifier) of a bus assembled from bit nets, declared
        # after or before the bits: the text declares two different nets
        k = len(cell["buses"])
        ident = gen_ident(rng, ui, amp_ok=False)
        while ident in un:
            ident = gen_ident(rng, ui, amp_ok=False)
        un.add(ident)
        cell["buses"].append({"id": ident, "orig": ident})
        bits = [{"kind": "bit", "bus": k, "idx": i, "pins": take()} for i in (0, 1)]
        if rng.random() < 0.6:
            sc_nm = {"id": gen_ident(rng, ui, amp_ok=False), "orig": ident}       # same name, other identifier
        else:
            other = gen_orig(rng, un, ident, for_net=True)
            sc_nm = {"id": ident, "orig": other}                                   # same identifier, other name
        sc = {"kind": "scalar", "nm": sc_nm, "pins": take(), "props": []}
        tail = bits + [sc] if rng.random() < 0.6 else [sc] + bits
    if trigger == "shared_stem":
        # two buses with different names whose bit identifiers share one stem
        k = len(cell["buses"])
        stem = gen_ident(rng, ui, amp_ok=False)
        n1 = gen_ident(rng, ui, amp_ok=False)
        n2 = gen_ident(rng, ui, amp_ok=False)
        un.update([n1, n2])
        cell["buses"] += [{"id": stem, "orig": n1}, {"id": stem, "orig": n2}]
        tail = [{"kind": "bit", "bus": k, "idx": 0, "pins": take()},
                {"kind": "bit", "bus": k + 1, "idx": 1, "pins": take()}]
    if trigger == "dup_base_bit":
        # the lowest bit of a bus is declared twice (float_demo.edf does this): both declarations are the
        # same net, their pins are joined; the other bits keep their positions
        k = len(cell["buses"])
        ident = gen_ident(rng, ui, amp_ok=False)
        while ident in un:
            ident = gen_ident(rng, ui, amp_ok=False)
        un.add(ident)
        cell["buses"].append({"id": ident, "orig": ident})
        base = rng.choice([0, 0, 3])
        dup = [{"kind": "bit", "bus": k, "idx": base, "pins": take()},
               {"kind": "bit", "bus": k, "idx": base, "pins": (take() if rng.random() < 0.5 else [])},
               {"kind": "bit", "bus": k, "idx": base + 1, "pins": take()},
               {"kind": "bit", "bus": k, "idx": base + 2, "pins": take()}]
    else:
        dup = []
    if trigger == "bracket_tail":
        ident = gen_ident(rng, ui, amp_ok=False)
        orig = ident + "["
        while orig in un:
            orig = "x" + orig
        un.add(orig)
        nets.append({"kind": "scalar", "nm": {"id": ident, "orig": orig}, "pins": take(), "props": []})
    rng.shuffle(nets)              # any order of bits, bits of different buses interleaved
    nets += dup                    # (kept in this order: base bit, base bit again, higher bits)
    nets += tail
    if trigger == "glob":
        # a bus whose original name is a glob pattern matching the name of a bus declared before it
        k = len(cell["buses"])
        a_id = gen_ident(rng, ui, amp_ok=False)
        while a_id in un:
            a_id = gen_ident(rng, ui, amp_ok=False)
        un.add(a_id)
        gname = a_id + "*" if (len(a_id) < 2 or rng.random() < 0.5) else a_id[:-1] + "?"
        g_id = gen_ident(rng, ui, amp_ok=False)
        un.add(gname)
        cell["buses"] += [{"id": a_id, "orig": a_id}, {"id": g_id, "orig": gname}]
        for (b, i) in ((k, 0), (k, 1), (k + 1, 1), (k + 1, 0)):
            nets.append({"kind": "bit", "bus": b, "idx": i, "pins": take()})
    cell["nets"] = nets


# ----------------------------------------------------------------------------------------------
# independent writer: abstract design -> token tree -> text
# ----------------------------------------------------------------------------------------------
class KW:
    """keyword spelling policy"""

    def __init__(self, rng, style):
        self.rng, self.style = rng, style

    def __call__(self, k):
        st = self.style
        if st == "lower":
            return k
        if st == "upper":
            return k.upper()
        if st == "camel":
            return CAMEL.get(k, k)
        return rand_case(self.rng, k)


def q(s):
    return '"' + s + '"'


def nm_tree(kw, nm):
    if nm["orig"] is None:
        return nm["id"]
    return [kw("rename"), nm["id"], q(nm["orig"])]


def prop_tree(kw, p):
    if p["t"] == "s":
        val = [kw("string"), q(p["v"])]
    elif p["t"] == "i":
        val = [kw("integer"), str(p["v"])]
    else:
        val = [kw("boolean"), [kw("true") if p["v"] else kw("false")]]
    t = [kw("property"), nm_tree(kw, p["nm"]), val]
    if p.get("owner") is not None:
        t.append([kw("owner"), q(p["owner"])])
    return t


def comment_trees(kw, comments):
    return [[kw("comment")] + [q(s) for s in c] for c in comments]


def pin_tree(kw, pin):
    ref = pin["pspell"] if pin["bit"] is None else [kw("member"), pin["pspell"], str(pin["bit"])]
    t = [kw("portref"), ref]
    if pin["inst"] is not None:
        t.append([kw("instanceref"), pin["ispell"]])
    return t


def cell_tree(kw, cell):
    t = [kw("cell"), nm_tree(kw, cell["nm"]), [kw("celltype"), kw("generic")]]
    iface = [kw("interface")]
    for p in cell["ports"]:
        if p["width"] is None:
            pt = [kw("port"), nm_tree(kw, p["nm"])]
        else:
            pt = [kw("port"), [kw("array"), nm_tree(kw, p["nm"]), str(p["width"])]]
        if p["dir"] is not None:
            pt.append([kw("direction"), kw(p["dir"].lower())])
        pt += [prop_tree(kw, x) for x in p.get("props", [])]
        iface.append(pt)
    view = [kw("view"), nm_tree(kw, cell["view"]), [kw("viewtype"), kw("netlist")], iface]
    if cell["insts"] or cell["nets"]:
        cont = [kw("contents")]
        for i in cell["insts"]:
            cref = [kw("cellref"), i["cspell"]]
            if i["lspell"] is not None:
                cref.append([kw("libraryref"), i["lspell"]])
            it = [kw("instance"), nm_tree(kw, i["nm"]), [kw("viewref"), i["vspell"], cref]]
            if i.get("noref"):              # trigger inst_no_viewref: (instance name) without (viewRef ...)
                it = [kw("instance"), nm_tree(kw, i["nm"])]
            elif i.get("nocellref"):        # trigger viewref_no_cellref: (viewRef v) names the cell being read
                it = [kw("instance"), nm_tree(kw, i["nm"]), [kw("viewref"), i["vspell"]]]
            # comments before or after the properties (fixed by the identifier, so that the text is a function of the design)
            ps, cs = [prop_tree(kw, x) for x in i["props"]], comment_trees(kw, i.get("comments", []))
            it += (cs + ps) if len(i["nm"]["id"]) % 2 == 0 else (ps + cs)
            cont.append(it)
        for n in cell["nets"]:
            if n["kind"] == "scalar":
                name = nm_tree(kw, n["nm"])
            else:
                b = cell["buses"][n["bus"]]
                name = [kw("rename"), "%s_%d_" % (b["id"], n.get("iidx", n["idx"])),
                        q("%s[%d]" % (b["orig"], n["idx"]))]
            nt = [kw("net"), name, [kw("joined")] + [pin_tree(kw, x) for x in n["pins"]]]
            nt += [prop_tree(kw, x) for x in n.get("props", [])]
            cont.append(nt)
        view.append(cont)
    t.append(view)
    ps, cs = [prop_tree(kw, x) for x in cell["props"]], comment_trees(kw, cell["comments"])
    t += (cs + ps) if len(cell["nm"]["id"]) % 2 == 0 else (ps + cs)
    return t


def tree(d, kw):
    t = [kw("edif"), nm_tree(kw, d["name"]), [kw("edifversion"), "2", "0", "0"], [kw("ediflevel"), "0"],
         [kw("keywordmap"), [kw("keywordlevel"), "0"]]]
    st = d.get("status")
    if st:
        w = [kw("written"), [kw("timestamp")] + [str(x) for x in st["ts"]]]
        if st["author"] is not None:
            w.append([kw("author"), q(st["author"])])
        if st["program"] is not None:
            pr = [kw("program"), q(st["program"])]
            if st["version"] is not None:
                pr.append([kw("version"), q(st["version"])])
            w.append(pr)
        w += comment_trees(kw, st["comments"])
        t.append([kw("status"), w])
    libs = [x for x in d["body"] if x["k"] == "lib"]
    for it in d["body"]:
        if it["k"] == "comment":
            t.append([kw("comment")] + [q(s) for s in it["text"]])
        elif it["k"] == "lib":
            lt = [kw("external" if it["external"] else "library"), nm_tree(kw, it["nm"]), [kw("ediflevel"), "0"],
                  [kw("technology"), [kw("numberdefinition")]]]
            for c in it["cells"]:
                lt.append(cell_tree(kw, c))
            lt += comment_trees(kw, it["comments"])
            t.append(lt)
        else:
            dt = [kw("design"), nm_tree(kw, it["nm"]),
                  [kw("cellref"), it["cspell"], [kw("libraryref"), it["lspell"]]]]
            dt += [prop_tree(kw, x) for x in it.get("props", [])]
            t.append(dt)
    return t


def tokens_of(t, out=None):
    out = [] if out is None else out
    if isinstance(t, str):
        out.append(t)
    else:
        out.append("(")
        for x in t:
            tokens_of(x, out)
        out.append(")")
    return out


def layout(tokens, rng, mode="random"):
    """tokens -> text.  Atoms are separated by at least one blank; around parentheses blanks are
    optional.  mode 'tight' uses the minimum, 'pretty' one token per line, 'random' a mixture."""
    WS = [" ", "\n", "\t", "  ", "\r\n", " \n  "]
    out = []
    prev = None
    for tk in tokens:
        need = prev is not None and prev not in "()" and tk not in "()"
        # a string token directly after an atom would be glued to it by the tokenizer: keep a blank
        if prev is not None and prev not in "()" and tk.startswith('"'):
            need = True
        if prev is not None and prev.startswith('"') and tk not in "()":
            need = True
        if mode == "tight":
            sep = " " if need else ""
        elif mode == "pretty":
            sep = "\n" if prev is not None else ""
        else:
            sep = rng.choice(WS) if (need or rng.random() < 0.5) else ""
        out.append(sep)
        out.append(tk)
        prev = tk
    if mode != "tight" and rng.random() < 0.5:
        out.append("\n")
    return "".join(out)


def render(d, rng, style=None, mode=None):
    style = style or rng.choice(KW_STYLES)
    mode = mode or rng.choice(["random", "random", "tight", "pretty"])
    toks = tokens_of(tree(d, KW(rng, style)))
    return layout(toks, rng, mode), toks


# ----------------------------------------------------------------------------------------------
# denotation: what the text declares (view05)
# ----------------------------------------------------------------------------------------------
def nm_pair(nm):
    return [nm["orig"] if nm["orig"] is not None else nm["id"], nm["id"]]


def strip_nl(s):
    return s.replace("\n", "").replace("\r", "")


def prop_den(p):
    o = {"identifier": p["nm"]["id"]}
    if p["nm"]["orig"] is not None:
        o["original_identifier"] = strip_nl(p["nm"]["orig"])
    o["value"] = strip_nl(p["v"]) if p["t"] == "s" else p["v"]
    return o


DIRS = {"INPUT": "IN", "OUTPUT": "OUT", "INOUT": "INOUT", None: "UNDEFINED"}


def denote(d):
    """view05 of the design the text declares"""
    libs = [x for x in d["body"] if x["k"] == "lib"]
    out = {"name": nm_pair(d["name"]), "libs": [], "top": None}
    for L in libs:
        LL = {"name": nm_pair(L["nm"]), "external": bool(L["external"]), "cells": []}
        for c in L["cells"]:
            C = {"name": nm_pair(c["nm"]), "view": c["view"]["id"],
                 "ports": [{"name": nm_pair(p["nm"]), "dir": DIRS[p["dir"]], "width": p["width"] or 1,
                            "array": p["width"] is not None, "props": [prop_den(x) for x in p.get("props", [])]}
                           for p in c["ports"]],
                 "insts": [{"name": nm_pair(i["nm"]), "ref": (None if i["ref"] is None else list(i["ref"])), "props": [prop_den(x) for x in i["props"]]}
                           for i in c["insts"]],
                 "props": [prop_den(x) for x in c["props"]],
                 "cables": []}
            pos = {}
            for n in c["nets"]:
                pins = [(["p", x["port"], x["bit"] or 0] if x["inst"] is None
                         else ["i", x["inst"], x["port"], x["bit"] or 0]) for x in n["pins"]]
                if n["kind"] == "scalar":
                    C["cables"].append({"name": nm_pair(n["nm"]), "array": False, "lower": 0, "wires": [pins],
                                        "props": [prop_den(x) for x in n.get("props", [])]})
                else:
                    key = n["bus"]
                    if key not in pos:
                        pos[key] = len(C["cables"])
                        b = c["buses"][key]
                        C["cables"].append({"name": [b["orig"], b["id"]], "array": True, "bits": {}, "props": []})
                    C["cables"][pos[key]]["bits"].setdefault(n["idx"], []).extend(pins)
            for cb in C["cables"]:
                if "bits" in cb:
                    bits = cb.pop("bits")
                    lo, hi = min(bits), max(bits)
                    cb["lower"] = lo
                    cb["wires"] = [bits.get(i, []) for i in range(lo, hi + 1)]
            LL["cells"].append(C)
        out["libs"].append(LL)
    for it in d["body"]:
        if it["k"] == "design":
            out["top"] = {"name": nm_pair(it["nm"]), "ref": list(it["ref"])}
    return out


def view05(c):
    """the same view extracted from canon.cnetlist(parsed netlist)"""
    def pair(x):
        return [x["name"], x["data"].get("EDIF.identifier")]

    def props(x):
        return x["data"].get("EDIF.properties", [])
    out = {"name": pair(c), "libs": [], "top": None}
    for L in c["libraries"]:
        LL = {"name": pair(L), "external": bool(L["data"].get("EDIF.external", False)), "cells": []}
        for D in L["definitions"]:
            LL["cells"].append({
                "name": pair(D), "view": D["data"].get("EDIF.view.identifier"),
                "ports": [{"name": pair(p), "dir": p["dir"], "width": p["width"], "array": not p["scalar"],
                           "props": props(p)} for p in D["ports"]],
                "insts": [{"name": pair(i), "ref": i["ref"], "props": props(i)} for i in D["instances"]],
                "props": props(D),
                "cables": [{"name": pair(cb), "array": not cb["scalar"], "lower": cb["lower"], "wires": cb["wires"],
                            "props": props(cb)} for cb in D["cables"]]})
        out["libs"].append(LL)
    t = c["top"]
    if t is not None:
        out["top"] = {"name": pair(t), "ref": t["ref"]}
    return out


def first_diff_path(a, b, path=()):
    """first difference between two JSON values as a tuple of keys / indices (type-aware: True != 1),
    or None when equal"""
    if type(a) is not type(b):
        return path
    if isinstance(a, dict):
        for k in sorted(set(a) | set(b), key=str):
            if k not in a or k not in b:
                return path + (k,)
            r = first_diff_path(a[k], b[k], path + (k,))
            if r is not None:
                return r
        return None
    if isinstance(a, list):
        if len(a) != len(b):
            return path + ("#len",)
        for i, (x, y) in enumerate(zip(a, b)):
            r = first_diff_path(x, y, path + (i,))
            if r is not None:
                return r
        return None
    return None if a == b else path


def path_str(p):
    return "".join("[%d]" % x if isinstance(x, int) else "." + str(x) for x in p) or "."


def first_diff(a, b):
    r = first_diff_path(a, b)
    return None if r is None else path_str(r)


def kind_of_path(p):
    """path with indices removed: a stable name for 'what differs'"""
    import re
    return re.sub(r"\[\d+\]", "", p).strip(".") or "root"


def first_diff03(a, b):
    """for view03 values: (kind, path string); the kind drops indices and the element NAMES that key
    the dictionaries (library, definition, instance, net)"""
    r = first_diff_path(a, b)
    if r is None:
        return None
    out = []
    skip = 0
    for x in r:
        if skip:
            skip -= 1
            continue
        if isinstance(x, int):
            continue
        out.append(str(x))
        if x == "libraries":
            skip = 2
        elif x in ("instances", "nets"):
            skip = 1
    return ".".join(out) or "root", path_str(r)


# ----------------------------------------------------------------------------------------------
# features (for evidence) and shrinking
# ----------------------------------------------------------------------------------------------
def features(d):
    libs = [x for x in d["body"] if x["k"] == "lib"]
    cells = [c for L in libs for c in L["cells"]]
    nb = sum(len(c["buses"]) for c in cells)
    gaps = 0
    unordered = 0
    for c in cells:
        per = {}
        for n in c["nets"]:
            if n["kind"] == "bit":
                per.setdefault(n["bus"], []).append(n["idx"])
        for k, v in per.items():
            if sorted(v) != v:
                unordered += 1
            if len(v) != max(v) - min(v) + 1:
                gaps += 1
    depth_nontrivial = any(c["insts"] for c in cells)
    return {"libs": len(libs), "cells": len(cells), "buses": nb, "gaps": gaps, "unordered": unordered,
            "insts": sum(len(c["insts"]) for c in cells), "hier": depth_nontrivial,
            "nontrivial": depth_nontrivial or nb > 0 or any(p["width"] for c in cells for p in c["ports"])}


def _cells(d):
    for L in (x for x in d["body"] if x["k"] == "lib"):
        for c in L["cells"]:
            yield c


def shrink_candidates(d):
    """smaller valid abstract designs (one step)"""
    libs = [x for x in d["body"] if x["k"] == "lib"]
    # drop nets / pins / props / comments
    for li, L in enumerate(libs):
        for ci, c in enumerate(L["cells"]):
            for ni in range(len(c["nets"])):
                e = copy.deepcopy(d)
                cc = [x for x in e["body"] if x["k"] == "lib"][li]["cells"][ci]
                del cc["nets"][ni]
                yield e
            for ni, n in enumerate(c["nets"]):
                for pi in range(len(n["pins"])):
                    e = copy.deepcopy(d)
                    cc = [x for x in e["body"] if x["k"] == "lib"][li]["cells"][ci]
                    del cc["nets"][ni]["pins"][pi]
                    yield e
            # drop an instance no pin refers to
            used = {p["inst"] for n in c["nets"] for p in n["pins"] if p["inst"] is not None}
            for ii in range(len(c["insts"])):
                if ii in used:
                    continue
                e = copy.deepcopy(d)
                cc = [x for x in e["body"] if x["k"] == "lib"][li]["cells"][ci]
                del cc["insts"][ii]
                for n in cc["nets"]:
                    for p in n["pins"]:
                        if p["inst"] is not None and p["inst"] > ii:
                            p["inst"] -= 1
                yield e
            for key in ("props", "comments"):
                if c[key]:
                    e = copy.deepcopy(d)
                    [x for x in e["body"] if x["k"] == "lib"][li]["cells"][ci][key] = []
                    yield e
            for ii, i in enumerate(c["insts"]):
                if i["props"]:
                    e = copy.deepcopy(d)
                    [x for x in e["body"] if x["k"] == "lib"][li]["cells"][ci]["insts"][ii]["props"] = []
                    yield e
    # drop a cell nobody references (and that is not the design target)
    refd = {tuple(i["ref"]) for c in _cells(d) for i in c["insts"] if i["ref"] is not None}
    for it in d["body"]:
        if it["k"] == "design":
            refd.add(tuple(it["ref"]))
    for li, L in enumerate(libs):
        for ci in range(len(L["cells"])):
            if (li, ci) in refd:
                continue
            e = copy.deepcopy(d)
            del [x for x in e["body"] if x["k"] == "lib"][li]["cells"][ci]

            def fix(r):
                if r is not None and r[0] == li and r[1] > ci:
                    r[1] -= 1
            for c in _cells(e):
                for i in c["insts"]:
                    fix(i["ref"])
            for it in e["body"]:
                if it["k"] == "design":
                    fix(it["ref"])
            yield e
    # drop comments / status
    for bi, it in enumerate(d["body"]):
        if it["k"] == "comment":
            e = copy.deepcopy(d)
            del e["body"][bi]
            yield e
    if d.get("status"):
        e = copy.deepcopy(d)
        e["status"] = None
        yield e
    # drop unused ports
    for li, L in enumerate(libs):
        for ci, c in enumerate(L["cells"]):
            for pi in range(len(c["ports"])):
                usedp = any(p["inst"] is None and p["port"] == pi for n in c["nets"] for p in n["pins"])
                for c2 in _cells(d):
                    for ii, i in enumerate(c2["insts"]):
                        if i["ref"] == [li, ci]:
                            if any(p["inst"] == ii and p["port"] == pi for n in c2["nets"] for p in n["pins"]):
                                usedp = True
                if usedp:
                    continue
                e = copy.deepcopy(d)
                elibs = [x for x in e["body"] if x["k"] == "lib"]
                del elibs[li]["cells"][ci]["ports"][pi]
                for n in elibs[li]["cells"][ci]["nets"]:
                    for p in n["pins"]:
                        if p["inst"] is None and p["port"] > pi:
                            p["port"] -= 1
                for c2 in _cells(e):
                    for ii, i in enumerate(c2["insts"]):
                        if i["ref"] == [li, ci]:
                            for n in c2["nets"]:
                                for p in n["pins"]:
                                    if p["inst"] == ii and p["port"] > pi:
                                        p["port"] -= 1
                yield e


def shrink(d, fails, max_steps=400):
    """greedy one-step shrinking while `fails(d')` stays true"""
    steps = 0
    improved = True
    while improved and steps < max_steps:
        improved = False
        for e in shrink_candidates(d):
            steps += 1
            if steps > max_steps:
                break
            try:
                if fails(e):
                    d = e
                    improved = True
                    break
            except Exception:
                continue
    return d


def size_of(d):
    return len(json.dumps(d))


# ==============================================================================================
# C03: recipes (canon-format netlists) for API-built netlists
# ==============================================================================================
# adversarial but C17-neutral alphabet: no '-' (C17 defect 15), no '"', no newline, no glob chars
NAMECH = LET + LET.upper() + "0123456789" + "__$./[]<>(): +=%&~^|{}@!#,;'`\\"


def sanitized_key(s):
    """lower-cased image of make_valid's character fix: names with the same key get colliding
    identifiers"""
    t = "".join(c if (c.isalnum() and c.isascii()) else "_" for c in s)
    if not (s[0].isalpha() and s[0].isascii()):
        t = "&" + t
    return t.lower()


# characters outside printable ASCII that the quantifier allows (no double quote, no line break): non-ASCII
# letters and symbols (no non-ASCII DIGITS: str.isdigit / int() accept them, the model is ASCII there),
# DEL and C0 controls.  Drawn only in netlists flagged rng._odd (8 %), because at the pinned commit the
# reader rejects every such name (finding edif.reader.string_token_charset).
ODDCH = "\u00e9\u00df\u03bb\u0436\u3042\u20ac\x7f\x01\x0b\x0c\x1f"


def gen_name03(rng, used, kind="x", bus=False, scalar_net=False):
    """a sibling name: any characters but double quote / line break, outside the pinned sub-domains.
    `used`: the names of the scope so far (exact).  Names are deliberately REUSED across scopes: with
    probability 0.4 a name already handed out elsewhere in this netlist (rng._pool: a cell of another
    library, a port / instance / cable of another cell, a library, …) is taken again if it is free in
    the present scope; and siblings may collide after sanitising or differ only in letter case
    (make_valid resolves that with an _sdn_N_ suffix)."""
    pool = getattr(rng, "_pool", None)
    while True:
        r = rng.random()
        from_pool = False
        if pool and r < 0.4:
            s = rng.choice(pool)
            from_pool = True
        elif r < 0.6:
            s = rng.choice(LET + LET.upper()) + "".join(rng.choice(IDCH) for _ in range(rng.randint(0, 7)))
        elif r < 0.7:
            s = rng.choice(["_", "$", "0", "7", ".", "[", "-"]) + "".join(rng.choice(IDCH) for _ in range(rng.randint(1, 5)))
        elif r < 0.85:
            base = rng.choice(LET) + "".join(rng.choice(IDCH) for _ in range(rng.randint(0, 4)))
            s = base + rng.choice(["[0]", "[12]", "_3_", ".q", "/x", "<1>", "$", "(", ")", " z", "_sdn_1_", "[1:0]", "]", "-b",
                                   "_%50%_x", "%7%", "% 12 %", "%65 66%", "%"])
        else:
            s = "".join(rng.choice(NAMECH + "-") for _ in range(rng.randint(1, 9)))
        if getattr(rng, "_odd", False) and not from_pool and rng.random() < 0.3:
            k = rng.randrange(len(s) + 1)
            s = s[:k] + rng.choice(ODDCH) + s[k:]
        if not s:
            continue
        if s[0] == "\\" and bus:
            continue        # bus cable with a leading backslash: pinned reader convention (trigger backslash_bus)
        if s in used:
            continue
        if not name_ok03(s, bus, scalar_net, kind):
            continue
        used.add(s)
        if pool is not None and not from_pool:
            pool.append(s)
        return s


def name_ok03(s, bus, scalar_net, kind="x"):
    """outside the pinned sub-domain (a scalar net named like a bus bit); a scalar net name ending in
    '[' is allowed again (its finding is fixed)"""
    if scalar_net and name_is_indexed(s):
        return False
    return True


def gen_props03(rng):
    out = []
    ui = set()
    for _ in range(rng.randint(1, 3)):
        p = {"identifier": gen_ident(rng, ui)}
        if rng.random() < 0.3:
            p["original_identifier"] = p["identifier"] + rng.choice(["$", ".x", "[0]", " y"])
        t = rng.choice("siib")
        p["value"] = (gen_string(rng).replace("\t", " ") if t == "s" else
                      rng.choice([0, 1, 5, -7, 2 ** 33, rng.randint(-99, 9999)]) if t == "i" else (rng.random() < 0.5))
        out.append(p)
    return out


def gen_recipe(rng, size="small", trigger=None):
    """trigger: None | undefined_dir | one_pin_array | bitlike_scalar | amp_bus | glob | bracket_tail |
    backslash_bus | old_name | odd_prop_value | odd_char"""
    S = {"small": dict(libs=(1, 2), leaf=(1, 2), mid=(1, 2), kids=3, ports=3, width=3),
         "medium": dict(libs=(1, 3), leaf=(1, 4), mid=(1, 5), kids=5, ports=4, width=4),
         "large": dict(libs=(2, 4), leaf=(2, 6), mid=(3, 9), kids=8, ports=6, width=8)}[size]
    nlibs = rng.randint(*S["libs"])
    rng._pool = []          # names handed out so far in this netlist (reused across scopes by gen_name03)
    rng._odd = trigger is None and rng.random() < 0.08
    used_l = set()
    libs = [{"name": gen_name03(rng, used_l), "data": {}, "definitions": [], "_used": set()} for _ in range(nlibs)]
    order = []      # (lib index, def dict) in creation (dependency) order

    def mkports(D, lo):
        up = set()
        for _ in range(rng.randint(lo, S["ports"])):
            w = 1 if rng.random() < 0.5 else rng.randint(2, S["width"])
            D["ports"].append({"name": gen_name03(rng, up), "dir": rng.choice(["IN", "OUT", "INOUT"]), "width": w,
                               "scalar": w == 1, "lower": (rng.randint(0, 7) if w > 1 and rng.random() < 0.4 else 0),
                               "downto": rng.random() < 0.8,
                               "data": ({"pk": rng.choice([1, "v", True])} if rng.random() < 0.15 else
                                        ({"EDIF.properties": gen_props03(rng)} if rng.random() < 0.05 else {}))})

    def newdef(li, leaf):
        L = libs[li]
        D = {"name": gen_name03(rng, L["_used"]), "data": ({"dk": rng.choice([3, "x", [1, 2]])} if rng.random() < 0.2 else {}),
             "ports": [], "cables": [], "instances": []}
        mkports(D, 1 if leaf else 0)
        return D
    for _ in range(rng.randint(*S["leaf"])):
        li = rng.randrange(nlibs)
        order.append((li, newdef(li, True)))
    for _ in range(rng.randint(*S["mid"])):
        li = rng.randrange(nlibs)
        D = newdef(li, False)
        cands = [k for k, (l2, _) in enumerate(order) if l2 <= li]
        ui = set()
        if cands:
            for _ in range(rng.randint(0, S["kids"])):
                k = rng.choice(cands)
                data = {}
                if rng.random() < 0.35:
                    data["EDIF.properties"] = gen_props03(rng)
                if rng.random() < 0.15:
                    data["ik"] = rng.choice([7, "s", False])
                D["instances"].append({"name": gen_name03(rng, ui), "ref": k, "data": data})
        order.append((li, D))
    # nets
    for li, D in order:
        free = []
        for pi, p in enumerate(D["ports"]):
            free += [["p", pi, b] for b in range(p["width"])]
        for ii, inst in enumerate(D["instances"]):
            R = order[inst["ref"]][1]
            for pi, p in enumerate(R["ports"]):
                free += [["i", ii, pi, b] for b in range(p["width"])]
        rng.shuffle(free)
        free = [x for x in free if rng.random() < 0.8]
        uc = set()
        ncab = rng.randint(0, max(1, len(free) // 2 + 1)) if (D["instances"] or rng.random() < 0.3) else 0
        for _ in range(ncab):
            w = 1 if rng.random() < 0.55 else rng.randint(2, S["width"])
            arr = w > 1 or rng.random() < 0.15
            wires = []
            for _ in range(w):
                k = rng.choice([0, 1, 2, 2, 3])
                wires.append([free.pop() for _ in range(min(k, len(free)))])
            D["cables"].append({"name": gen_name03(rng, uc, kind="net", bus=arr, scalar_net=not arr), "scalar": not arr,
                                "lower": (rng.choice([0, 0, 1, 3, 31]) if arr else 0), "downto": rng.random() < 0.8,
                                "data": ({"EDIF.properties": gen_props03(rng)} if rng.random() < 0.05 else {}),
                                "wires": wires})
        if rng.random() < 0.05:
            D["data"]["EDIF.properties"] = gen_props03(rng)     # not written by the composer; not in the C03 view
        apply_trigger03(rng, D, uc, trigger)
    # distribute to libraries, then shuffle declaration order everywhere
    pos = {}
    for k, (li, D) in enumerate(order):
        libs[li]["definitions"].append((k, D))
    perm = list(range(nlibs))
    rng.shuffle(perm)
    out_libs = []
    for new_li, old_li in enumerate(perm):
        L = libs[old_li]
        ds = L["definitions"]
        rng.shuffle(ds)
        for di, (k, D) in enumerate(ds):
            pos[k] = [new_li, di]
        out_libs.append({"name": L["name"], "data": L["data"], "definitions": [D for _, D in ds]})
    for _, D in order:
        for inst in D["instances"]:
            inst["ref"] = pos[inst["ref"]]
    topk = len(order) - 1 if rng.random() < 0.8 else rng.randrange(len(order))
    return {"name": gen_name03(rng, set()), "data": ({"EDIF.status.written.program": "gen03"} if rng.random() < 0.2 else {}),
            "libraries": out_libs,
            "top": {"name": gen_name03(rng, set()), "ref": pos[topk], "data": {}, "child_of": None}}


def apply_trigger03(rng, D, uc, trigger):
    if trigger == "undefined_dir" and D["ports"]:
        rng.choice(D["ports"])["dir"] = "UNDEFINED"
    elif trigger == "one_pin_array":
        for p in D["ports"]:
            if p["width"] == 1:
                p["scalar"] = False
                break
    elif trigger == "bitlike_scalar":
        n = "w[%d]" % rng.randint(0, 9)
        if n not in uc:
            uc.add(n)
            D["cables"].append({"name": n, "scalar": True, "lower": 0, "downto": True, "data": {}, "wires": [[]]})
    elif trigger == "amp_bus":
        n = "_" + rng.choice(LET) + rng.choice(LET)
        if n not in uc:
            uc.add(n)
            D["cables"].append({"name": n, "scalar": False, "lower": 0, "downto": True, "data": {}, "wires": [[], []]})
    elif trigger == "glob":
        a = "g" + rng.choice(LET)
        if a not in uc and (a + "*") not in uc:
            uc.update([a, a + "*"])
            D["cables"].append({"name": a, "scalar": False, "lower": 0, "downto": True, "data": {}, "wires": [[], []]})
            D["cables"].append({"name": a + "*", "scalar": False, "lower": 0, "downto": True, "data": {}, "wires": [[], []]})
    elif trigger == "backslash_bus":
        n = "\\" + rng.choice(LET) + rng.choice(LET)
        if n not in uc:
            uc.add(n)
            D["cables"].append({"name": n, "scalar": False, "lower": 0, "downto": True, "data": {}, "wires": [[], []]})
    elif trigger == "old_name":
        D["data"]["oldName"] = "X" + rng.choice(LET)      # legacy key: the writer then emits (rename id "old") inside cellref
    elif trigger == "odd_prop_value" and D["instances"]:
        k = rng.choice(D["instances"])
        k["data"].setdefault("EDIF.properties", []).append(
            {"identifier": "p" + rng.choice(LET), "value": rng.choice([{"float": "1.5"}, None])})
    elif trigger == "odd_char" and D["ports"]:
        p = rng.choice(D["ports"])
        p["name"] = p["name"] + rng.choice(ODDCH)
    elif trigger == "bracket_tail":
        n = "t" + rng.choice(LET) + "["
        if n not in uc:
            uc.add(n)
            D["cables"].append({"name": n, "scalar": True, "lower": 0, "downto": True, "data": {}, "wires": [[]]})


def view03(c):
    """C03 view of a canon netlist: exactly the attributes the statement lists, keyed by name.
    Port base index / downto are NOT in it (decision 4); cable base index is."""
    libname = [L["name"] for L in c["libraries"]]
    defname = [[D["name"] for D in L["definitions"]] for L in c["libraries"]]

    def ref(r):
        if r is None:
            return None
        if isinstance(r[0], str):
            return r
        return [libname[r[0]], defname[r[0]][r[1]]]
    out = {"name": c["name"], "libraries": {}, "top": None}
    for L in c["libraries"]:
        defs = {}
        for D in L["definitions"]:
            pn = [p["name"] for p in D["ports"]]
            kn = [k["name"] for k in D["instances"]]
            kref = [k["ref"] for k in D["instances"]]

            def pin(x):
                if x[0] == "p":
                    return ["p", pn[x[1]], x[2]]
                if x[0] == "i":
                    r = kref[x[1]]
                    rp = c["libraries"][r[0]]["definitions"][r[1]]["ports"][x[2]]["name"]
                    return ["i", kn[x[1]], rp, x[3]]
                return x
            defs[D["name"]] = {
                "ports": [[p["name"], p["dir"], p["width"], not p["scalar"]] for p in D["ports"]],
                "instances": {k["name"]: {"ref": ref(k["ref"]), "props": k["data"].get("EDIF.properties") or []}
                              for k in D["instances"]},
                "nets": {cb["name"]: {"width": len(cb["wires"]), "lower": cb["lower"],
                                      "wires": [[pin(x) for x in w] for w in cb["wires"]]} for cb in D["cables"]},
                "#": [len(D["ports"]), len(D["instances"]), len(D["cables"])]}
        out["libraries"][L["name"]] = defs
    out["#libs"] = [len(c["libraries"])] + [len(L["definitions"]) for L in sorted(c["libraries"], key=lambda x: str(x["name"]))]
    t = c["top"]
    if t is not None:
        out["top"] = {"name": t["name"], "ref": ref(t["ref"])}
    return out


def shrink03_candidates(c):
    """smaller canon recipes (one step): drop cable / wire pin / instance / port / definition / props"""
    def clone():
        return copy.deepcopy(c)
    for li, L in enumerate(c["libraries"]):
        for di, D in enumerate(L["definitions"]):
            for ci in range(len(D["cables"])):
                e = clone()
                del e["libraries"][li]["definitions"][di]["cables"][ci]
                yield e
            for ci, cb in enumerate(D["cables"]):
                if len(cb["wires"]) > 1:
                    e = clone()
                    del e["libraries"][li]["definitions"][di]["cables"][ci]["wires"][-1]
                    yield e
                for wi, w in enumerate(cb["wires"]):
                    if w:
                        e = clone()
                        e["libraries"][li]["definitions"][di]["cables"][ci]["wires"][wi] = w[:-1]
                        yield e
            used = {x[1] for cb in D["cables"] for w in cb["wires"] for x in w if x[0] == "i"}
            for ii in range(len(D["instances"])):
                if ii in used:
                    continue
                e = clone()
                DD = e["libraries"][li]["definitions"][di]
                del DD["instances"][ii]
                for cb in DD["cables"]:
                    for w in cb["wires"]:
                        for x in w:
                            if x[0] == "i" and x[1] > ii:
                                x[1] -= 1
                yield e
            for ii, k in enumerate(D["instances"]):
                if k["data"]:
                    e = clone()
                    e["libraries"][li]["definitions"][di]["instances"][ii]["data"] = {}
                    yield e
    refd = set()
    for L in c["libraries"]:
        for D in L["definitions"]:
            for k in D["instances"]:
                if k["ref"] is not None:
                    refd.add(tuple(k["ref"]))
    if c["top"] is not None and c["top"]["ref"] is not None:
        refd.add(tuple(c["top"]["ref"]))
    for li, L in enumerate(c["libraries"]):
        for di in range(len(L["definitions"])):
            if (li, di) in refd:
                continue
            e = clone()
            del e["libraries"][li]["definitions"][di]

            def fix(r):
                if r is not None and r[0] == li and r[1] > di:
                    r[1] -= 1
            for L2 in e["libraries"]:
                for D2 in L2["definitions"]:
                    for k in D2["instances"]:
                        fix(k["ref"])
            fix(e["top"]["ref"])
            yield e
    for li, L in enumerate(c["libraries"]):
        if L["definitions"]:
            continue
        e = clone()
        del e["libraries"][li]

        def fixl(r):
            if r is not None and r[0] > li:
                r[0] -= 1
        for L2 in e["libraries"]:
            for D2 in L2["definitions"]:
                for k in D2["instances"]:
                    fixl(k["ref"])
        fixl(e["top"]["ref"])
        yield e
    # unused ports
    for li, L in enumerate(c["libraries"]):
        for di, D in enumerate(L["definitions"]):
            for pi in range(len(D["ports"])):
                usedp = any(x[0] == "p" and x[1] == pi for cb in D["cables"] for w in cb["wires"] for x in w)
                for L2 in c["libraries"]:
                    for D2 in L2["definitions"]:
                        for ii, k in enumerate(D2["instances"]):
                            if k["ref"] == [li, di] and any(x[0] == "i" and x[1] == ii and x[2] == pi
                                                            for cb in D2["cables"] for w in cb["wires"] for x in w):
                                usedp = True
                if usedp:
                    continue
                e = clone()
                DD = e["libraries"][li]["definitions"][di]
                del DD["ports"][pi]
                for cb in DD["cables"]:
                    for w in cb["wires"]:
                        for x in w:
                            if x[0] == "p" and x[1] > pi:
                                x[1] -= 1
                for L2 in e["libraries"]:
                    for D2 in L2["definitions"]:
                        for ii, k in enumerate(D2["instances"]):
                            if k["ref"] == [li, di]:
                                for cb in D2["cables"]:
                                    for w in cb["wires"]:
                                        for x in w:
                                            if x[0] == "i" and x[1] == ii and x[2] > pi:
                                                x[2] -= 1
                yield e


def shrink03(c, fails, max_steps=300):
    steps = 0
    improved = True
    while improved and steps < max_steps:
        improved = False
        for e in shrink03_candidates(c):
            steps += 1
            if steps > max_steps:
                break
            try:
                if fails(e):
                    c = e
                    improved = True
                    break
            except Exception:
                continue
    return c


def features03(c):
    defs = [D for L in c["libraries"] for D in L["definitions"]]
    return {"libs": len(c["libraries"]), "defs": len(defs),
            "insts": sum(len(D["instances"]) for D in defs),
            "buses": sum(1 for D in defs for cb in D["cables"] if len(cb["wires"]) > 1),
            "busports": sum(1 for D in defs for p in D["ports"] if p["width"] > 1),
            "nontrivial": any(D["instances"] for D in defs) or any(len(cb["wires"]) > 1 for D in defs for cb in D["cables"])}


def sanitize_for_c03(d, rng):
    """abstract design -> one whose parsed netlist is outside the sub-domains of the open WRITER
    findings (every port has a direction, no one-pin array port)"""
    d = copy.deepcopy(d)
    libs = [x for x in d["body"] if x["k"] == "lib"]
    fix = set()
    for li, L in enumerate(libs):
        for ci, c in enumerate(L["cells"]):
            for pi, p in enumerate(c["ports"]):
                if p["dir"] is None:
                    p["dir"] = rng.choice(["INPUT", "OUTPUT", "INOUT"])
                if p["width"] == 1:
                    p["width"] = None
                    fix.add((li, ci, pi))
    for li, L in enumerate(libs):
        for ci, c in enumerate(L["cells"]):
            for n in c["nets"]:
                for x in n["pins"]:
                    key = (li, ci, x["port"]) if x["inst"] is None else tuple(c["insts"][x["inst"]]["ref"]) + (x["port"],)
                    if key in fix:
                        x["bit"] = None
    return d


# ==============================================================================================
# independent reading of an EDIF text (oracle for bundled files): what the text declares, computed
# on the s-expression tree with the property's semantics — nothing here looks at spydrnet or at the
# Lean model.  Supported: the netlist-view subset the bundled files use.
# ==============================================================================================
def sexp_tokens(text):
    toks = []
    i, n = 0, len(text)
    while i < n:
        ch = text[i]
        if ch in "()":
            toks.append(ch)
            i += 1
        elif ch == '"':
            j = text.index('"', i + 1)
            toks.append(text[i:j + 1].replace("\n", "").replace("\r", ""))
            i = j + 1
        elif ch in " \t\r\n":
            i += 1
        else:
            j = i
            while j < n and text[j] not in ' \t\r\n()"':
                j += 1
            toks.append(text[i:j])
            i = j
    return toks


def sexp_tree(text):
    stack = [[]]
    for t in sexp_tokens(text):
        if t == "(":
            stack.append([])
        elif t == ")":
            x = stack.pop()
            stack[-1].append(x)
        else:
            stack[-1].append(t)
    return stack[0][0]


def _kw(x):
    return x[0].lower() if isinstance(x, list) and x and isinstance(x[0], str) else None


def _name(x):
    """nameDef -> [name, identifier]"""
    if isinstance(x, list):
        assert _kw(x) == "rename"
        return [x[2][1:-1], x[1]]
    return [x, x]


def _split_index(s, o, c):
    """<base> o <digits> c  ->  (base, index) or None"""
    if not s.endswith(c):
        return None
    k = s.rfind(o, 0, len(s) - 1)
    if k < 0:
        return None
    d = s[k + 1:-1]
    if not d or not all("0" <= ch <= "9" for ch in d):
        return None
    return s[:k], int(d)


def denote_text(text):
    """view05 (without properties) of the design an EDIF text declares.
    Bit nets  (rename id_i_ "name[i]")  of one bus are one cable: base = least index, bit i at
    position i - base, gaps empty; several declarations of the same net are joined (their pins in
    order of appearance)."""
    t = sexp_tree(text)
    assert _kw(t) == "edif"
    out = {"name": _name(t[1]), "libs": [], "top": None}
    libs = []       # (identifier lower, [cell identifier lower...])
    cellports = {}  # (li, ci) -> [(identifier lower, width)]
    for item in t[2:]:
        k = _kw(item)
        if k in ("library", "external"):
            li = len(out["libs"])
            L = {"name": _name(item[1]), "external": k == "external", "cells": []}
            libs.append((L["name"][1].lower(), []))
            for cell in item[2:]:
                if _kw(cell) != "cell":
                    continue
                ci = len(L["cells"])
                C = {"name": _name(cell[1]), "view": None, "ports": [], "insts": [], "cables": []}
                # sibling names are unique in the data model: an original name already taken by an earlier
                # cell of the library falls back to the identifier (synth_th1_slaac.edf has
                # (rename placedLFSR__1_ "placedLFSR") after a cell placedLFSR); same for instances
                if any(x["name"][0] == C["name"][0] for x in L["cells"]):
                    C["name"] = [C["name"][1], C["name"][1]]
                ports = []
                insts = []
                for v in cell[2:]:
                    if _kw(v) != "view":
                        continue
                    C["view"] = _name(v[1])[1]
                    for x in v[2:]:
                        if _kw(x) == "interface":
                            for p in x[1:]:
                                if _kw(p) != "port":
                                    continue
                                if isinstance(p[1], list) and _kw(p[1]) == "array":
                                    nm, width, arr = _name(p[1][1]), int(p[1][2]), True
                                else:
                                    nm, width, arr = _name(p[1]), 1, False
                                d = "UNDEFINED"
                                for y in p[2:]:
                                    if _kw(y) == "direction":
                                        d = {"input": "IN", "output": "OUT", "inout": "INOUT"}[y[1].lower()]
                                C["ports"].append({"name": nm, "dir": d, "width": width, "array": arr})
                                ports.append((nm[1].lower(), width))
                        elif _kw(x) == "contents":
                            cables = []     # [name, ident, array, {idx: pins} | pins]
                            pos = {}
                            scalar_ids = set()
                            for y in x[1:]:
                                if _kw(y) == "instance":
                                    nm = _name(y[1])
                                    ref = None
                                    for z in y[2:]:
                                        if _kw(z) == "viewref":
                                            cr = z[2]
                                            lidx = li
                                            if len(cr) > 2:
                                                want = cr[2][1].lower()
                                                lidx = li if want == libs[li][0] else [a for a, _ in libs].index(want)
                                            ref = [lidx, libs[lidx][1].index(cr[1].lower())]
                                    if any(x["name"][0] == nm[0] for x in C["insts"]):
                                        nm = [nm[1], nm[1]]
                                    C["insts"].append({"name": nm, "ref": ref})
                                    insts.append((nm[1].lower(), ref))
                                elif _kw(y) == "net":
                                    nm = _name(y[1])
                                    pins = []
                                    for j in y[2:]:
                                        if _kw(j) != "joined":
                                            continue
                                        for pr in j[1:]:
                                            if _kw(pr) != "portref":
                                                continue
                                            if isinstance(pr[1], list):
                                                pid, bit = pr[1][1].lower(), int(pr[1][2])
                                            else:
                                                pid, bit = pr[1].lower(), 0
                                            inst = None
                                            for z in pr[2:]:
                                                if _kw(z) == "instanceref":
                                                    inst = z[1].lower()
                                            if inst is None:
                                                pi = [a for a, _ in ports].index(pid)
                                                pins.append(["p", pi, bit])
                                            else:
                                                ii = [a for a, _ in insts].index(inst)
                                                r = insts[ii][1]
                                                pi = [a for a, _ in cellports[tuple(r)]].index(pid)
                                                pins.append(["i", ii, pi, bit])
                                    sn = _split_index(nm[0], "[", "]") if not nm[0].startswith("\\") else None
                                    si = _split_index(nm[1], "_", "_")
                                    # a bus cannot take a base identifier that a scalar net of the cell already
                                    # carries (n_bit_counter.edf: (net (rename counter "[3:0]counter") …) before
                                    # counter_0_ / "counter[0]"): such bit nets stay scalar nets
                                    if sn is not None and si is not None and si[0].lower() in scalar_ids \
                                            and ("bus", sn[0]) not in pos:
                                        sn = None
                                    if sn is not None and si is not None:
                                        key = ("bus", sn[0])
                                        if key not in pos:
                                            pos[key] = len(cables)
                                            cables.append({"name": [sn[0], si[0]], "array": True, "bits": {}})
                                        bits_so_far = cables[pos[key]]["bits"]
                                        if bits_so_far and sn[1] == min(bits_so_far):
                                            out.setdefault("features", set()).add("dup_base_bit")
                                        bits_so_far.setdefault(sn[1], []).extend(pins)
                                    else:
                                        key = ("net", nm[0])
                                        scalar_ids.add(nm[1].lower())
                                        if key not in pos:
                                            pos[key] = len(cables)
                                            cables.append({"name": nm, "array": False, "lower": 0, "wires": [[]]})
                                        cables[pos[key]]["wires"][0].extend(pins)
                            for cb in cables:
                                if "bits" in cb:
                                    bits = cb.pop("bits")
                                    lo, hi = min(bits), max(bits)
                                    cb["lower"] = lo
                                    cb["wires"] = [bits.get(i, []) for i in range(lo, hi + 1)]
                            C["cables"] = cables
                libs[li][1].append(C["name"][1].lower())
                cellports[(li, ci)] = ports
                L["cells"].append(C)
            out["libs"].append(L)
        elif k == "design":
            cr = item[2]
            lidx = [a for a, _ in libs].index(cr[2][1].lower())
            out["top"] = {"name": _name(item[1]), "ref": [lidx, libs[lidx][1].index(cr[1].lower())]}
    return out


def strip_props(v):
    """view05 without the property lists (denote_text does not read properties)"""
    v = copy.deepcopy(v)
    for L in v["libs"]:
        for C in L["cells"]:
            C.pop("props", None)
            for k in ("ports", "insts", "cables"):
                for x in C[k]:
                    x.pop("props", None)
    return v

# ------------------------------------------------------------------------------------------------
# the fragment of the Lean theorem C05.edif_reader_spec (lean/Spydr/Edif/Abstract.lean)
# ------------------------------------------------------------------------------------------------
def fragment_reasons(d):
    """the syntactic features of an abstract design that the Lean `ADesign` does not have, in a fixed order
    (the first one is reported as `theorem_fragment:…:out:<reason>`); empty list: the design can be
    handed to the driver, which evaluates the decidable hypothesis `wf`"""
    out = []

    def add(r):
        if r not in out:
            out.append(r)
    if d.get("status") is not None:
        add("status_block")
    seen_design = False
    for it in d["body"]:
        if it["k"] == "comment":
            add("comment")
        elif it["k"] == "design":
            seen_design = True
            if it.get("props"):
                add("design_property")
        elif it["k"] == "lib":
            if seen_design:
                add("construct_after_design")
            if it.get("comments"):
                add("comment")
            for c in it["cells"]:
                if c["view"].get("orig") is not None:
                    add("view_rename")
                if c.get("props"):
                    add("cell_property")
                if c.get("comments"):
                    add("comment")
                for p in c["ports"]:
                    if p.get("props"):
                        add("port_property")
                for i in c["insts"]:
                    if i.get("noref") or i.get("nocellref"):
                        add("instance_without_complete_reference")
                    if i.get("comments"):
                        add("comment")
                    if any(x.get("owner") is not None for x in i["props"]):
                        add("property_owner")
                    if any(x["t"] not in ("s", "i", "b") for x in i["props"]):
                        add("property_type")
                for n in c["nets"]:
                    if n.get("props"):
                        add("net_property")
                    if n.get("comments"):
                        add("comment")
    if not seen_design:
        add("no_design")
    return out


def to_adesign(d):
    """JSON of the Lean `ADesign` for a design with fragment_reasons(d) == []"""
    def nm(x):
        return [x["id"], x["orig"]]
    libs = [x for x in d["body"] if x["k"] == "lib"]
    des = [x for x in d["body"] if x["k"] == "design"][-1]
    out = {"name": nm(d["name"]), "libs": [], "top": nm(des["nm"]), "tli": des["ref"][0], "tdi": des["ref"][1],
           "tcsp": des["cspell"], "tlsp": des["lspell"]}
    for L in libs:
        cells = []
        for c in L["cells"]:
            nets = []
            for n in c["nets"]:
                pins = [(["p", x["port"], x["bit"], x["pspell"]] if x["inst"] is None
                         else ["i", x["inst"], x["port"], x["bit"], x["pspell"], x["ispell"]]) for x in n["pins"]]
                if n["kind"] == "scalar":
                    nets.append({"kind": "scalar", "name": nm(n["nm"]), "pins": pins})
                else:
                    b = c["buses"][n["bus"]]
                    nets.append({"kind": "bit", "bid": b["id"], "bname": b["orig"], "idx": n["idx"],
                                 "iidx": n.get("iidx", n["idx"]), "pins": pins})
            cells.append({
                "name": nm(c["nm"]), "view": c["view"]["id"],
                "ports": [{"name": nm(p["nm"]), "dir": DIRS[p["dir"]], "array": p["width"]} for p in c["ports"]],
                "insts": [{"name": nm(i["nm"]), "li": i["ref"][0], "di": i["ref"][1], "vsp": i["vspell"], "csp": i["cspell"],
                           "lsp": (i["lspell"] if i.get("lspell") is not None else libs[i["ref"][0]]["nm"]["id"]),
                           "lomit": i.get("lspell") is None,
                           "props": [{"name": nm(x["nm"]), "t": x["t"], "v": x["v"]} for x in i["props"]]} for i in c["insts"]],
                "nets": nets})
        out["libs"].append({"name": nm(L["nm"]), "cells": cells, "ext": bool(L.get("external"))})
    return out
