"""Engine `hier`: C11 (hierarchical references: each occurrence once, canonical) and
C12 (cross-hierarchy tracing = the electrical net).

Lean side: lean/Spydr/Hier (model, spec, theorems), driver drv_hier.
This file: generator of netlist *recipes* (pure data, shrinkable), builder through the public API,
dump of the live netlist into the model's `Design` value, the implementation observations, two
independent Python oracles (recursive path enumeration; union-find elaboration), the comparison.
"""
import gc
import glob
import json
import os
import time
import traceback

from common import lean, shard
from common.ctx import ROOT, stable_hash

ENGINE_DIR = "Spydr/Hier"
MODULES = ["Spydr.Hier.Props.C11", "Spydr.Hier.Props.C12", "Spydr.Hier.Audit"]
EXES = ["drv_hier"]
AUDIT = "Spydr/Hier/Audit.lean"

# signatures of the open findings (known_findings.d/hier.json)
SIG_ALL_WIRE = "get_hwires.ALL.from-wire-without-port-pin.stops-at-the-wire"
SIG_ALL_CABLE = "get_hcables.ALL.from-wire-whose-first-pin-is-an-instance-pin.stops-at-the-cable"
SIG_NARROW = "get_hcables.narrow-selection.from-hpin.walks-past-the-adjacent-wire"
SIG_UNIQUE = "HRef.is_unique.true-for-port-or-cable-reference-into-shared-definition"
SIG_NOREF = "get_hinstances.instance-without-reference.no-occurrences-returned"
SIG_RMDEF = "get_all_hrefs_of_instances.definition-removed-from-library.occurrences-not-returned"
SIG_NOWIRE = "get_hcables.cable-without-wires.occurrences-not-returned"
SIG_MOVED = "hier-tracing.outer-wire-of-moved-child-or-port-sits-in-its-old-definition.returns-invalid-reference"
SIG_DANGLING = "hier-tracing.pin-of-removed-child-or-port-left-on-wire.returns-invalid-reference"


def _meta():
    with open(os.path.join(os.path.dirname(os.path.abspath(__file__)), "hier.meta.json")) as f:
        return json.load(f)


# --------------------------------------------------------------------------------------------
# recipes
# --------------------------------------------------------------------------------------------
NAMES = "abcdefghkmnpqrstuvwxyz"


def gen_recipe(rng, size="small"):
    """A netlist recipe.  Definitions are created in index order; children reference strictly
    earlier definitions (the hierarchy is a DAG with sharing at several depths); kinds of
    definitions: leaf (ports only), wire-only / pass-through (ports+cables, no children), module
    (children + cables).  Nets: random groups of port pins and child pins; some groups are forced to
    contain only child pins, only port pins, or nothing."""
    big = size == "big"
    n_leaf = rng.randint(1, 3)
    n_pass = rng.randint(0, 2)
    n_mod = rng.randint(1, 5 if big else 4)
    unnamed = rng.random() < 0.25
    dup_names = rng.random() < 0.15
    fan = rng.random() < 0.25        # one wire with a large fan-out (>= 12 pins) in the top definition
    defs = []

    def nm(stem):
        if unnamed and rng.random() < 0.4:
            return None
        if dup_names:
            return stem + rng.choice("ab")
        return stem + rng.choice(NAMES) + str(rng.randrange(100))

    def mkports(lo, hi):
        ports = []
        for _ in range(rng.randint(lo, hi)):
            w = 1 if rng.random() < 0.55 else rng.randint(2, 3)
            arr = (w > 1) or rng.random() < 0.2
            ports.append({"name": nm("P"), "width": w, "arr": arr,
                          "lower": rng.choice([0, 0, 1, 3, -2]) if arr else 0})
        return ports

    def mkcables(D, pins):
        rng.shuffle(pins)
        pins = [q for q in pins if rng.random() >= 0.2]
        cables = []
        mode_bias = rng.random()
        while pins:
            wdt = 1 if rng.random() < 0.6 else rng.randint(2, 3)
            arr = (wdt > 1) or rng.random() < 0.2
            wires = []
            for _ in range(wdt):
                mode = rng.random()
                grp = []
                if mode < 0.12:
                    pass                                    # a wire touching nothing
                elif mode < 0.12 + 0.25 * mode_bias + 0.1:     # only child pins
                    cand = [q for q in pins if q[0] == "c"]
                    for q in cand[: rng.choice([1, 2, 2, 3])]:
                        grp.append(q)
                        pins.remove(q)
                elif mode < 0.55:                            # only port pins
                    cand = [q for q in pins if q[0] == "p"]
                    for q in cand[: rng.choice([1, 2])]:
                        grp.append(q)
                        pins.remove(q)
                else:
                    for _ in range(rng.choice([1, 2, 2, 3, 4])):
                        if pins:
                            grp.append(pins.pop())
                wires.append(grp)
            cables.append({"name": nm("N"), "arr": arr, "lower": rng.choice([0, 0, 2, -1]) if arr else 0,
                           "wires": wires})
            if rng.random() < 0.08:
                break
        if rng.random() < 0.2:
            cables.append({"name": nm("N"), "arr": False, "lower": 0, "wires": [[]]})
        D["cables"] = cables

    for _ in range(n_leaf):
        defs.append({"name": nm("leaf"), "ports": mkports(1, 3), "children": [], "cables": []})
    fan_idx = None
    if fan:
        fan_idx = len(defs)
        defs.append({"name": nm("fan"), "ports": [{"name": nm("P"), "width": 3, "arr": True, "lower": 0},
                                                   {"name": nm("P"), "width": 3, "arr": True, "lower": 2}],
                     "children": [], "cables": []})
    for _ in range(n_pass):
        D = {"name": nm("pass"), "ports": mkports(1, 4), "children": [], "cables": []}
        pins = [["p", pi, b] for pi, P in enumerate(D["ports"]) for b in range(P["width"])]
        mkcables(D, pins)
        defs.append(D)
    for mi in range(n_mod):
        # sometimes reuse the port shape of an earlier definition (re-pointing needs equal shapes)
        if defs and rng.random() < 0.3:
            src = rng.choice(defs)
            ports = [dict(P, name=nm("P")) for P in src["ports"]]
        else:
            ports = mkports(0 if mi == n_mod - 1 else 1, 3)
        D = {"name": nm("mod"), "ports": ports, "children": [], "cables": []}
        for _ in range(rng.randint(1, 4 if big else 3)):
            ref = rng.randrange(len(defs)) if rng.random() >= 0.04 else None
            D["children"].append({"name": nm("I"), "ref": ref})
        pins = [["p", pi, b] for pi, P in enumerate(D["ports"]) for b in range(P["width"])]
        for ci, c in enumerate(D["children"]):
            if c["ref"] is not None:
                for pi, P in enumerate(defs[c["ref"]]["ports"]):
                    for b in range(P["width"]):
                        pins.append(["c", ci, pi, b])
        mkcables(D, pins)
        if fan and mi == n_mod - 1:
            k0 = len(D["children"])
            grp = []
            for j in range(3):
                D["children"].append({"name": nm("F"), "ref": fan_idx})
                grp += [["c", k0 + j, pi, bb] for pi in range(2) for bb in range(3)]
            rng.shuffle(grp)
            grp = grp[: rng.randint(12, 18)]
            D["cables"].append({"name": nm("N"), "arr": False, "lower": 0, "wires": [grp]})
        defs.append(D)
    out = {"defs": defs, "top": len(defs) - 1, "topname": nm("top"), "nlibs": rng.randint(1, 2),
           "orphans": rng.randint(0, 1)}
    # how the top instance is installed: property setter, Netlist.set_top_instance(instance), or the
    # netlist under test is a clone() of the built one
    out["top_mode"] = rng.choice(["setter", "setter", "set_top_instance", "clone"])
    # a definition that is instantiated but sits in no library (stand-alone Definition / removed from it)
    if rng.random() < 0.15 and len(defs) > 1:
        used = sorted(set(c["ref"] for D in defs for c in D["children"] if c["ref"] is not None))
        cand = [i for i in used if defs[i]["children"]] or used
        if cand:
            out["detached"] = [rng.choice(cand)]
    return out


def recipe_size(r):
    return sum(1 + len(D["ports"]) + len(D["children"]) + sum(1 + len(C["wires"]) + sum(len(w) for w in C["wires"])
                                                               for C in D["cables"]) for D in r["defs"])


class Built:
    """The live netlist built from a recipe, with handles by recipe position."""

    def __init__(self, r):
        import spydrnet as sdn
        self.sdn = sdn
        self.recipe = r
        nl = sdn.Netlist(name="nl")
        self.nl = nl
        self.libs = [nl.create_library(name="lib%d" % i) for i in range(max(1, r.get("nlibs", 1)))]
        self.defs = []
        for di, D in enumerate(r["defs"]):
            d = self.libs[di % len(self.libs)].create_definition()
            if D.get("name") is not None:
                d.name = D["name"]
            for P in D["ports"]:
                p = d.create_port()
                if P.get("name") is not None:
                    p.name = P["name"]
                p.create_pins(P["width"])
                if P.get("arr"):
                    p.is_array = True
                    p.lower_index = P.get("lower", 0)
            for c in D["children"]:
                k = d.create_child()
                if c.get("name") is not None:
                    k.name = c["name"]
                if c.get("ref") is not None:
                    k.reference = self.defs[c["ref"]]
            for C in D["cables"]:
                cb = d.create_cable()
                if C.get("name") is not None:
                    cb.name = C["name"]
                cb.create_wires(len(C["wires"]))
                if C.get("arr"):
                    cb.is_array = True
                    cb.lower_index = C.get("lower", 0)
                for w, grp in zip(cb.wires, C["wires"]):
                    for q in grp:
                        if q[0] == "p":
                            w.connect_pin(d.ports[q[1]].pins[q[2]])
                        else:
                            k = d.children[q[1]]
                            w.connect_pin(k.pins[k.reference.ports[q[2]].pins[q[3]]])
            self.defs.append(d)
        top = sdn.Instance()
        if r.get("topname") is not None:
            top.name = r["topname"]
        top.reference = self.defs[r["top"]]
        mode = r.get("top_mode", "setter")
        if mode == "set_top_instance":
            nl.set_top_instance(top)
        else:
            nl.top_instance = top
        if mode == "clone":
            # the netlist under test is the clone; handles are re-derived by position
            nl = nl.clone()
            self.nl = nl
            self.libs = list(nl.libraries)
            n = len(self.libs)
            self.defs = [self.libs[di % n].definitions[di // n] for di in range(len(r["defs"]))]
        for di in r.get("detached", []):
            d = self.defs[di]
            if d.library is not None:
                d.library.remove_definition(d)
        self.h_children = [list(d.children) for d in self.defs]
        self.h_ports = [list(d.ports) for d in self.defs]
        self.orphans = []
        for _ in range(r.get("orphans", 0)):
            o = sdn.Instance()
            o.name = "orphan"
            o.reference = self.defs[0]
            self.orphans.append(o)


# --------------------------------------------------------------------------------------------
# identities and the dump into the model's Design value
# --------------------------------------------------------------------------------------------
class Ids:
    def __init__(self):
        self.m = {}
        self.keep = []

    def of(self, obj):
        k = id(obj)
        if k not in self.m:
            self.m[k] = len(self.keep)
            self.keep.append(obj)
        return self.m[k]


def nm_of(x):
    n = x.name
    return n if n else ""


def collect_defs(nl):
    """definitions of the netlist's libraries plus everything reachable through references
    (definitions removed from their library are still walked by the hierarchical code)"""
    out, seen = [], set()

    def add(d):
        if d is not None and id(d) not in seen:
            seen.add(id(d))
            out.append(d)
    for lib in nl.libraries:
        for d in lib.definitions:
            add(d)
    t = nl.top_instance
    if t is not None:
        add(t.reference)
    i = 0
    while i < len(out):
        for c in out[i].children:
            add(c.reference)
        i += 1
    return out


def topo(defs):
    """order with referenced definitions first (Kahn); leftovers (cycles) appended"""
    idx = {id(d): k for k, d in enumerate(defs)}
    deps = {k: set(idx[id(c.reference)] for c in d.children if c.reference is not None and id(c.reference) in idx)
            for k, d in enumerate(defs)}
    done, order = set(), []
    progress = True
    while progress:
        progress = False
        for k in range(len(defs)):
            if k not in done and deps[k] <= done:
                done.add(k)
                order.append(defs[k])
                progress = True
    order += [defs[k] for k in range(len(defs)) if k not in done]
    return order


def dump(nl, ids):
    from spydrnet.ir.outerpin import OuterPin
    defs = topo(collect_defs(nl))
    dpos = {id(d): k for k, d in enumerate(defs)}

    def inst(i):
        r = i.reference
        return {"id": ids.of(i), "name": nm_of(i), "ref": dpos.get(id(r)) if r is not None else None}

    def pinref(x):
        if isinstance(x, OuterPin):
            return ["o", ids.of(x.instance), ids.of(x.inner_pin)]
        return ["i", ids.of(x)]
    out = []
    for d in defs:
        lib = d.library
        out.append({
            "inNl": bool(lib is not None and lib.netlist is nl),
            "ports": [{"id": ids.of(p), "name": nm_of(p), "arr": bool(p.is_array), "lower": int(p.lower_index),
                       "pins": [ids.of(q) for q in p.pins]} for p in d.ports],
            "cables": [{"id": ids.of(c), "name": nm_of(c), "arr": bool(c.is_array), "lower": int(c.lower_index),
                        "wires": [{"id": ids.of(w), "pins": [pinref(x) for x in w.pins]} for w in c.wires]}
                       for c in d.cables],
            "children": [inst(k) for k in d.children]})
    t = nl.top_instance
    return {"defs": out, "top": inst(t) if t is not None else None}, dpos


def path_of(h, ids):
    """leaf-first identity tuple of an HRef"""
    from spydrnet.ir.outerpin import OuterPin
    out = []
    while h is not None:
        it = h.item
        if it is None or isinstance(it, OuterPin):
            out.append(10 ** 9)
        else:
            out.append(ids.of(it))
        h = h.parent
    return out


def exc_family(e):
    for cls, n in ((AssertionError, "assert"), (ValueError, "value"), (KeyError, "key"), (TypeError, "type"),
                   (IndexError, "index"), (RuntimeError, "runtime"), (AttributeError, "attr")):
        if isinstance(e, cls):
            return n
    return "other"


# --------------------------------------------------------------------------------------------
# independent oracle 1: recursive enumeration of the elaborated design (live objects, forward lists)
# --------------------------------------------------------------------------------------------
class Elab:
    def __init__(self, nl, ids, max_nodes=400):
        self.ids = ids
        self.inst_paths = []      # root-first tuples of Instance objects
        t = nl.top_instance
        ok = (t is not None and t.reference is not None and t.reference.library is not None
              and t.reference.library.netlist is not None and t.reference.library.netlist.top_instance is t)
        self.overflow = False
        if ok:
            stack = [(t,)]
            while stack:
                p = stack.pop()
                self.inst_paths.append(p)
                if len(self.inst_paths) > max_nodes:
                    self.overflow = True
                    break
                ref = p[-1].reference
                if ref is not None:
                    for c in ref.children:
                        stack.append(p + (c,))
        self.by_kind = {"hinst": [], "hport": [], "hpin": [], "hcable": [], "hwire": []}
        self.names = {}
        self.all_valid = set()
        for p in self.inst_paths:
            base = "/".join(nm_of(i) for i in p[1:])
            key = self.key(p)
            self.by_kind["hinst"].append(key)
            self.names[key] = base
            ref = p[-1].reference
            if ref is None:
                continue
            for P in ref.ports:
                kp = (ids.of(P),) + key
                self.by_kind["hport"].append(kp)
                pn = (base + "/" if len(p) > 1 else "") + nm_of(P)
                self.names[kp] = pn
                for b, q in enumerate(P.pins):
                    kq = (ids.of(q),) + kp
                    self.by_kind["hpin"].append(kq)
                    self.names[kq] = pn + ("[%d]" % (P.lower_index + b) if P.is_array else "")
            for C in ref.cables:
                kc = (ids.of(C),) + key
                self.by_kind["hcable"].append(kc)
                cn = (base + "/" if len(p) > 1 else "") + nm_of(C)
                self.names[kc] = cn
                for b, w in enumerate(C.wires):
                    kw = (ids.of(w),) + kc
                    self.by_kind["hwire"].append(kw)
                    self.names[kw] = cn + ("[%d]" % (C.lower_index + b) if C.is_array else "")
        for k in self.by_kind.values():
            self.all_valid.update(k)
        self.kset = {k: set(v) for k, v in self.by_kind.items()}
        self.ends = {}
        for k in self.all_valid:
            self.ends.setdefault(k[0], []).append(k)

    def key(self, p):
        return tuple(self.ids.of(x) for x in reversed(p))

    @staticmethod
    def inst_part(kind, k):
        return {"hinst": k, "hport": k[1:], "hcable": k[1:], "hpin": k[2:], "hwire": k[2:]}[kind]

    def below(self, kind, p, rec):
        """items of `kind` inside hierarchical instance p (identity tuple, leaf first)"""
        out = []
        n = len(p)
        for k in self.by_kind[kind]:
            ip = self.inst_part(kind, k)
            if kind == "hinst":
                if len(ip) > n and ip[len(ip) - n:] == p and (rec or len(ip) == n + 1):
                    out.append(k)
            else:
                if len(ip) >= n and ip[len(ip) - n:] == p and (rec or len(ip) == n):
                    out.append(k)
        return sorted(out)


# --------------------------------------------------------------------------------------------
# independent oracle 2: union-find elaboration of the nets
# --------------------------------------------------------------------------------------------
class Nets:
    def __init__(self, elab, ids):
        from spydrnet.ir.outerpin import OuterPin
        self.parent = {}
        self.inner_of = {}   # hpin key -> hwire key on the inside
        self.outer_of = {}   # hpin key -> hwire key on the outside
        self.pins_of = {}    # hwire key -> set of hpin keys
        self.dangling = False  # some wire lists a pin of a removed child / port
        for k in elab.by_kind["hwire"]:
            self.parent[k] = k
            self.pins_of[k] = set()
        for p in elab.inst_paths:
            ref = p[-1].reference
            if ref is None:
                continue
            key = elab.key(p)
            port_of = {}
            for P in ref.ports:
                for q in P.pins:
                    port_of[id(q)] = P
            for C in ref.cables:
                for w in C.wires:
                    kw = (ids.of(w), ids.of(C)) + key
                    for x in w.pins:
                        if isinstance(x, OuterPin):
                            c, q = x.instance, x.inner_pin
                            # only pins of the elaborated design: the instance must (still) be a child of
                            # this definition, the pin a pin of a port of its definition
                            if c is None or q is None or c.reference is None or not any(c is kk for kk in ref.children):
                                self.dangling = True
                                continue
                            P = None
                            for PP in c.reference.ports:
                                if any(y is q for y in PP.pins):
                                    P = PP
                            if P is None:
                                self.dangling = True
                                continue
                            hp = (ids.of(q), ids.of(P), ids.of(c)) + key
                            self.outer_of[hp] = kw
                        else:
                            P = port_of.get(id(x))
                            if P is None:
                                self.dangling = True
                                continue
                            hp = (ids.of(x), ids.of(P)) + key
                            self.inner_of[hp] = kw
                        self.pins_of[kw].add(hp)
        for hp, w1 in self.inner_of.items():
            w2 = self.outer_of.get(hp)
            if w2 is not None:
                self.union(w1, w2)
        self.classes = {}
        for k in self.parent:
            self.classes.setdefault(self.find(k), []).append(k)

    def find(self, x):
        while self.parent[x] != x:
            self.parent[x] = self.parent[self.parent[x]]
            x = self.parent[x]
        return x

    def union(self, a, b):
        ra, rb = self.find(a), self.find(b)
        if ra != rb:
            self.parent[ra] = rb

    def net_of_wire(self, kw):
        return sorted(self.classes[self.find(kw)])

    def net_of_pin(self, hp):
        out = set()
        for w in (self.inner_of.get(hp), self.outer_of.get(hp)):
            if w is not None:
                out.update(self.classes[self.find(w)])
        return sorted(out)


# --------------------------------------------------------------------------------------------
# implementation observations
# --------------------------------------------------------------------------------------------
SELS = {"I": "INSIDE", "O": "OUTSIDE", "B": "BOTH", "A": "ALL"}


class QueryTimeout(Exception):
    pass


QUERY_LIMIT_S = 8.0   # CPU seconds of this process (ITIMER_VIRTUAL): waiting for a busy machine does not count
_WATCHDOG = {"on": False, "timeouts": 0}


class TooManyTimeouts(Exception):
    pass


def _on_query_alarm(signum, frame):
    raise QueryTimeout()


def arm_watchdog():
    """only inside pool workers (the main process keeps its own SIGALRM hard timeout)"""
    import multiprocessing
    import signal
    if multiprocessing.current_process().name != "MainProcess":
        signal.signal(signal.SIGVTALRM, _on_query_alarm)
        _WATCHDOG["on"] = True


def timed(thunk):
    """run one call into the implementation; a call that does not return within QUERY_LIMIT_S is
    reported as an outcome of its own (`timeout`) instead of stalling the whole check"""
    if not _WATCHDOG["on"]:
        return thunk()
    import signal
    signal.setitimer(signal.ITIMER_VIRTUAL, QUERY_LIMIT_S)
    try:
        return thunk()
    finally:
        signal.setitimer(signal.ITIMER_VIRTUAL, 0)


def impl_query(sdn, f, obj, rec, sel, ids, flt=None):
    fn = {"hinst": sdn.get_hinstances, "hport": sdn.get_hports, "hpin": sdn.get_hpins,
          "hcable": sdn.get_hcables, "hwire": sdn.get_hwires}[f]
    kw = {"recursive": rec}
    if flt is not None:
        kw["filter"] = flt
    if f in ("hcable", "hwire"):
        kw["selection"] = SELS[sel]
    if _WATCHDOG["timeouts"] >= 3:
        raise TooManyTimeouts()
    try:
        res = timed(lambda: list(fn(obj, **kw)))
    except RecursionError:
        raise
    except QueryTimeout:
        _WATCHDOG["timeouts"] += 1
        return {"exc": "timeout"}, []
    except Exception as e:  # noqa
        return {"exc": exc_family(e)}, []
    return sorted(path_of(h, ids) for h in res), res


def root_json(obj, ids, dpos):
    import spydrnet as sdn
    from spydrnet.util.hierarchical_reference import HRef
    from spydrnet.ir.outerpin import OuterPin
    if isinstance(obj, HRef):
        return {"k": "href", "h": path_of(obj, ids)}
    if isinstance(obj, sdn.Netlist):
        return {"k": "netlist"}
    if isinstance(obj, sdn.Library):
        return {"k": "lib", "defs": [dpos[id(d)] for d in obj.definitions]}
    if isinstance(obj, sdn.Definition):
        return {"k": "def", "d": dpos[id(obj)]}
    if isinstance(obj, sdn.Instance):
        return {"k": "inst", "id": ids.of(obj)}
    if isinstance(obj, sdn.Port):
        return {"k": "port", "id": ids.of(obj)}
    if isinstance(obj, sdn.Cable):
        return {"k": "cable", "id": ids.of(obj)}
    if isinstance(obj, OuterPin):
        return {"k": "opin", "inst": ids.of(obj.instance), "pin": ids.of(obj.inner_pin)}
    if isinstance(obj, sdn.InnerPin):
        return {"k": "ipin", "id": ids.of(obj)}
    if isinstance(obj, sdn.Wire):
        return {"k": "wire", "id": ids.of(obj)}
    raise TypeError(obj)


def root_tag(rj):
    return rj["k"] if rj["k"] != "href" else "href"


class Session:
    """One driver process; loads a design, answers batches."""

    def __init__(self):
        self.drv = lean.Driver("drv_hier")

    def load(self, design):
        r = self.drv.ask({"load": design})
        if "error" in r:
            raise RuntimeError("driver: " + r["error"])
        return r

    def ask(self, qs):
        if not qs:
            return []
        r = self.drv.ask({"q": qs})
        if "error" in r:
            raise RuntimeError("driver: " + r["error"])
        return r["r"]

    def close(self):
        self.drv.close()


def count_reach(res, sess, queries=None, refs=None):
    """Reach of the headline theorems (bookkeeping only; no verdict depends on it): for every case the
    driver evaluates the decidable hypotheses of each theorem that speaks about that case on the loaded
    design and answers "in" or "out:<first failing hypothesis>"."""
    try:
        fq = [{"f": "frag", "q": q["f"], "root": q["root"], "sel": q.get("sel", "I")} for q in (queries or [])]
        fq += [{"f": "fragref", "h": list(k)} for k in (refs or [])]
        for a in sess.ask(fq):
            for thm, verdict in a["v"]:
                res.dist("theorem_fragment:%s:%s" % (thm, verdict))
    except Exception:  # noqa
        res.dist("theorem_fragment:bookkeeping-error")


# --------------------------------------------------------------------------------------------
# C11 on one recipe
# --------------------------------------------------------------------------------------------
def gen_edits(rng, r, n):
    ops = []
    nd = len(r["defs"])
    for _ in range(n):
        di = rng.randrange(nd)
        D = r["defs"][di]
        k = rng.random()
        if k < 0.2 and D["children"]:
            ops.append(["rm_child", di, rng.randrange(len(D["children"]))])
        elif k < 0.3 and D["ports"]:
            ops.append(["rm_port", di, rng.randrange(len(D["ports"]))])
        elif k < 0.4 and D["cables"]:
            ops.append(["rm_cable", di, rng.randrange(len(D["cables"]))])
        elif k < 0.58 and D["children"] and di > 0:
            ops.append(["repoint", di, rng.randrange(len(D["children"])),
                        rng.choice([None] + list(range(di)) + list(range(di)))])
        elif k < 0.57:
            ops.append(["rm_def", di])
        elif k < 0.62:
            # replace the top instance after references were taken
            ops.append(["retop", di, rng.choice(["set_top_instance", "setter"])])
        elif k < 0.80:
            # RENAME an item on the paths of held references / change what a bus index is computed from
            kind = rng.choice(["child", "child", "port", "cable", "top", "lower_port", "lower_cable", "arr_port", "arr_cable"])
            newname = "R" + rng.choice(NAMES) + str(rng.randrange(1000))
            if kind == "child" and D["children"]:
                ops.append(["rename", "child", di, rng.randrange(len(D["children"])), newname])
            elif kind == "port" and D["ports"]:
                ops.append(["rename", "port", di, rng.randrange(len(D["ports"])), newname])
            elif kind == "cable" and D["cables"]:
                ops.append(["rename", "cable", di, rng.randrange(len(D["cables"])), newname])
            elif kind == "top":
                ops.append(["rename", "top", 0, 0, newname])
            elif kind == "lower_port" and D["ports"]:
                ops.append(["lower", "port", di, rng.randrange(len(D["ports"])), rng.choice([-3, 1, 4, 7])])
            elif kind == "lower_cable" and D["cables"]:
                ops.append(["lower", "cable", di, rng.randrange(len(D["cables"])), rng.choice([-3, 1, 4, 7])])
            elif kind == "arr_port" and D["ports"]:
                ops.append(["toggle_array", "port", di, rng.randrange(len(D["ports"]))])
            elif kind == "arr_cable" and D["cables"]:
                ops.append(["toggle_array", "cable", di, rng.randrange(len(D["cables"]))])
        elif k < 0.95:
            # MOVE something to another parent (remove, then add elsewhere): the old references must die
            dj = rng.randrange(nd)
            E = r["defs"][dj]
            kind = rng.choice(["wire", "wire", "pin", "pin", "child", "port", "cable"])
            if kind == "wire" and D["cables"] and E["cables"]:
                ci = rng.randrange(len(D["cables"]))
                if D["cables"][ci]["wires"]:
                    ops.append(["mv_wire", di, ci, rng.randrange(len(D["cables"][ci]["wires"])), dj,
                                rng.randrange(len(E["cables"]))])
            elif kind == "pin" and D["ports"] and E["ports"]:
                pi = rng.randrange(len(D["ports"]))
                ops.append(["mv_pin", di, pi, rng.randrange(D["ports"][pi]["width"]), dj, rng.randrange(len(E["ports"]))])
            elif kind == "child" and D["children"]:
                ops.append(["mv_child", di, rng.randrange(len(D["children"])), dj])
            elif kind == "port" and D["ports"]:
                ops.append(["mv_port", di, rng.randrange(len(D["ports"])), dj])
            elif kind == "cable" and D["cables"]:
                ops.append(["mv_cable", di, rng.randrange(len(D["cables"])), dj])
        elif D["cables"]:
            ci = rng.randrange(len(D["cables"]))
            if D["cables"][ci]["wires"]:
                ops.append(["rm_wire", di, ci, rng.randrange(len(D["cables"][ci]["wires"]))])
        else:
            ops.append(["rm_def", di])
    return ops


def apply_edit(b, handles, op):
    """handles: per definition the original children/ports/cables lists (objects), so that an op
    addresses the same object whatever was removed before.  Returns 'ok' or the refusal family."""
    try:
        if op[0] in ("rename", "lower", "toggle_array"):
            d = H = None
        else:
            d = b.defs[op[1]]
            H = handles[op[1]]
        if op[0] == "rm_child":
            d.remove_child(H["children"][op[2]])
        elif op[0] == "rm_port":
            d.remove_port(H["ports"][op[2]])
        elif op[0] == "rm_cable":
            d.remove_cable(H["cables"][op[2]])
        elif op[0] == "rm_wire":
            c = H["cables"][op[2]]
            c.remove_wire(H["wires"][op[2]][op[3]])
        elif op[0] == "repoint":
            k = H["children"][op[2]]
            k.reference = None if op[3] is None else b.defs[op[3]]
        elif op[0] == "rm_def":
            d.library.remove_definition(d)
        elif op[0] == "retop":
            import spydrnet as _sdn
            t = _sdn.Instance()
            t.name = "T2"
            t.reference = d
            if op[2] == "set_top_instance":
                b.nl.set_top_instance(t)
            else:
                b.nl.top_instance = t
        elif op[0] == "rename":
            x = b.nl.top_instance if op[1] == "top" else handles[op[2]][{"child": "children", "port": "ports", "cable": "cables"}[op[1]]][op[3]]
            x.name = op[4]
        elif op[0] == "lower":
            x = handles[op[2]]["ports" if op[1] == "port" else "cables"][op[3]]
            x.lower_index = op[4]
        elif op[0] == "toggle_array":
            x = handles[op[2]]["ports" if op[1] == "port" else "cables"][op[3]]
            x.is_array = not x.is_array          # refused (RuntimeError) for multi-item bundles
        elif op[0] == "mv_wire":
            w = H["wires"][op[2]][op[3]]
            tgt = handles[op[4]]["cables"][op[5]]
            if w.cable is not None:
                w.cable.remove_wire(w)
            tgt.add_wire(w)
        elif op[0] == "mv_pin":
            q = H["pins"][op[2]][op[3]]
            tgt = handles[op[4]]["ports"][op[5]]
            if q.port is not None:
                q.port.remove_pin(q)
            tgt.add_pin(q)
        elif op[0] == "mv_child":
            k = H["children"][op[2]]
            tgt = b.defs[op[3]]
            r = k.reference
            if r is not None and (r is tgt or b.defs.index(r) >= op[3]):
                return "skipped-would-cycle"
            if k.parent is not None:
                k.parent.remove_child(k)
            tgt.add_child(k)
        elif op[0] == "mv_port":
            x = H["ports"][op[2]]
            if x.definition is not None:
                x.definition.remove_port(x)
            b.defs[op[3]].add_port(x)
        elif op[0] == "mv_cable":
            x = H["cables"][op[2]]
            if x.definition is not None:
                x.definition.remove_cable(x)
            b.defs[op[3]].add_cable(x)
        return "ok"
    except Exception as e:  # noqa
        return exc_family(e)


def elem_roots(b):
    """every element of the built netlist (a few outer pins included)"""
    nl = b.nl
    roots = [nl] + list(nl.libraries)
    for d in b.defs:
        roots.append(d)
        roots.extend(d.children)
        for p in d.ports:
            roots.append(p)
            roots.extend(p.pins)
        for c in d.cables:
            roots.append(c)
            roots.extend(c.wires)
        for k in d.children:
            roots.extend(list(k.pins)[:2])
    roots.append(nl.top_instance)
    roots.extend(b.orphans)
    return roots


KIND_OF_FN = {"hinst": "hinst", "hport": "hport", "hpin": "hpin", "hcable": "hcable", "hwire": "hwire"}


def c11_expected(elab, f, rj, rec, dpos_inv, b, defs_by_idx=None):
    """The property's own demand (P) for the root/function combinations C11 speaks about; None when
    the combination is only covered by the correspondence with the model."""
    k = rj["k"]
    if k == "netlist":
        t = b.nl.top_instance
        return elab.below(f, (elab.ids.of(t),), rec) if elab.inst_paths else []
    if k == "href":
        h = tuple(rj["h"])
        if h not in elab.all_valid:
            return []
        if h in elab.kset["hinst"]:
            return elab.below(f, h, rec)
        return None
    # occurrences of a given element
    same = {"inst": "hinst", "port": "hport", "ipin": "hpin", "cable": "hcable", "wire": "hwire"}
    if k in same and same[k] == f:
        return sorted(elab.ends.get(rj["id"], []))
    # roots that stand for a set of instances: the instance itself, the instances of a definition, of the
    # definitions of a library, the instance of an outer pin
    occs = None
    if k == "inst":
        occs = sorted(elab.ends.get(rj["id"], []))
    elif k in ("def", "lib") and defs_by_idx is not None:
        want = [defs_by_idx[i] for i in ([rj["d"]] if k == "def" else rj["defs"])]
        occs = sorted(elab.key(p) for p in elab.inst_paths if any(p[-1].reference is D for D in want))
    elif k == "opin":
        occs = sorted(elab.ends.get(rj["inst"], []))
        if f == "hpin":
            return sorted(x for x in elab.ends.get(rj["pin"], []) if len(x) > 2 and x[2:] in set(occs))
        if f == "hport":
            return sorted(set(x[1:] for x in elab.ends.get(rj["pin"], []) if len(x) > 2 and x[2:] in set(occs)))
        if f != "hinst":
            return None
    if occs is None:
        return None
    if f == "hinst":
        return occs
    out = set()
    for o in occs:
        out.update(elab.below(f, o, rec))
    return sorted(out)


def unique_sig(elab, k, iu, eu):
    """the open finding: is_unique looks at the instances of the path only; a reference to a port /
    cable / pin / wire whose instance path is unique but whose owning definition has another reachable
    instance is reported unique"""
    if not (iu and not eu) or k not in elab.all_valid or k in elab.kset["hinst"]:
        return None
    for kind in ("hport", "hcable", "hpin", "hwire"):
        if k in elab.kset[kind]:
            ip = elab.inst_part(kind, k)
            if len(elab.ends.get(ip[0], [])) == 1:
                return SIG_UNIQUE
    return None


def check_c11(res, sess, recipe, rng, tier_scale, edits=None, tag="gen"):
    import spydrnet as sdn
    from spydrnet.util.hierarchical_reference import HRef
    try:
        b = Built(recipe)
    except Exception:
        res.dist("recipe-not-buildable")
        return
    ids = Ids()
    design, dpos = dump(b.nl, ids)
    st = sess.load(design)
    if not (st["wf"] and st["wfnet"] and st["sorted"]):
        res["obligations"].append(("hier: dumped design satisfies WF, WFNet and Sorted", False, json.dumps(recipe)[:1500]))
        return
    from common import canon
    probs = [] if recipe.get("detached") else canon.wf_problems(b.nl)   # a detached definition is 'outside the netlist' on purpose
    if probs:
        res["obligations"].append(("hier: generated netlist is well-formed on the live objects (canon.wf_problems)", False,
                                   "; ".join(probs[:5]) + " " + json.dumps(recipe)[:800]))
        return
    elab = Elab(b.nl, ids)
    if elab.overflow:
        res.dist("too-big-skipped")
        return
    inp_base = {"recipe": recipe}
    depth = max(len(p) for p in elab.inst_paths) if elab.inst_paths else 0
    shared = len(set(id(p[-1]) for p in elab.inst_paths)) < len(elab.inst_paths)
    nontrivial = depth >= 3 or shared
    res.case(stable_hash(recipe), nontrivial)
    res.dist("c11.depth=%d" % min(depth, 6))
    res.dist("c11.shared-definition" if shared else "c11.no-sharing")
    res.dist("c11.elab-insts<=%d" % (10 * ((len(elab.inst_paths) + 9) // 10)))
    res.sample({"recipe_defs": len(recipe["defs"]), "elab_instances": len(elab.inst_paths), "depth": depth, "tag": tag})

    # ---- streaming consumption, BEFORE this function holds any reference of the netlist: results are
    # taken one at a time and dropped; every occurrence must still come exactly once
    fns_ = {"hinst": sdn.get_hinstances, "hport": sdn.get_hports, "hpin": sdn.get_hpins,
            "hcable": sdn.get_hcables, "hwire": sdn.get_hwires}
    sroots = [[b.nl]] + [[l_] for l_ in b.nl.libraries] + [[b.nl, b.defs[recipe["top"]]]]
    if len(b.defs) > 1:
        sroots.append(rng.sample(b.defs, 2))
    cabs_ = [c_ for d_ in b.defs for c_ in d_.cables if len(c_.wires) > 1]
    sroots += [[c_] for c_ in cabs_[:2]]
    gc.collect()
    for coll in sroots:
        for f in ("hinst", "hport", "hpin", "hcable", "hwire"):
            rec = bool(rng.getrandbits(1))
            try:
                got = []
                for hh in fns_[f](list(coll), recursive=rec):
                    got.append(tuple(path_of(hh, ids)))
                hh = None
                lst = sorted(tuple(path_of(x, ids)) for x in fns_[f](list(coll), recursive=rec))
            except Exception as e:  # noqa
                got, lst = [("exc", exc_family(e))], None
            res["evaluations"] += 1
            res.dist("c11.streaming-before-any-reference-is-held")
            res.dist("theorem_fragment:no-theorem/collection-of-roots:out:no-theorem")
            if len(set(got)) != len(got) or sorted(got) != lst:
                inp = dict({"recipe": recipe}, query={"f": f, "roots": [type(o).__name__ for o in coll], "rec": rec,
                                                      "consumption": "streaming"})
                res.spec_failure("get_%ss.streaming-consumption.duplicate-or-differs-from-list-answer" % f, inp,
                                 "streamed %d (distinct %d), list answer %s" % (len(got), len(set(got)), None if lst is None else len(lst)))
    # ---- all roots: elements, then every reference returned from the netlist ----
    roots = elem_roots(b)
    href_roots = []
    for f, fn in (("hinst", sdn.get_hinstances), ("hport", sdn.get_hports), ("hpin", sdn.get_hpins),
                  ("hcable", sdn.get_hcables), ("hwire", sdn.get_hwires)):
        try:
            href_roots.extend(timed(lambda: list(fn(b.nl, recursive=True))))
        except Exception as e:  # noqa  (reported by the per-query comparison below)
            res.dist("c11.netlist-query-failed." + type(e).__name__)
    href_roots.append(HRef.from_parent_and_item(None, b.nl.top_instance))
    # a few invalid / ill-kinded references
    if b.defs and elab.inst_paths:
        t = b.nl.top_instance
        for d in b.defs[:2]:
            for x in list(d.ports[:1]) + list(d.cables[:1]) + list(d.children[:1]):
                href_roots.append(HRef.from_sequence([t, x]))
        href_roots.append(HRef.from_sequence([t, t]))
    cap = tier_scale[0]
    if len(href_roots) > cap:
        keep = rng.sample(range(len(href_roots)), cap)
        href_roots = [href_roots[i] for i in sorted(keep)]
    roots = roots + href_roots

    queries, meta = [], []
    defs_by_idx = {v: None for v in dpos.values()}
    for d_ in collect_defs(b.nl):
        defs_by_idx[dpos[id(d_)]] = d_
    pinlike = elab.kset["hport"] | elab.kset["hpin"]
    for obj in roots:
        rj = root_json(obj, ids, dpos)
        for f in ("hinst", "hport", "hpin", "hcable", "hwire"):
            if f == "hcable" and (rj["k"] in ("port", "ipin", "opin") or (rj["k"] == "href" and tuple(rj["h"]) in pinlike)):
                continue   # routed through the pin closure: C12's domain (all selections are checked there)
            for rec in (False, True):
                queries.append({"f": f, "root": rj, "rec": rec, "sel": "I"})
                meta.append((obj, rj, f, rec))
    answers = sess.ask(queries)
    count_reach(res, sess, queries)
    single = {}
    valid_set = elab.all_valid
    for (obj, rj, f, rec), q, a in zip(meta, queries, answers):
        impl, hrefs = impl_query(sdn, f, obj, rec, "I", ids)
        model = sorted(a["v"])
        single[(id(obj), f, rec)] = (impl, model)
        inp = dict(inp_base, query={"f": f, "root": rj, "rec": rec})
        res["evaluations"] += 1
        res.dist("c11.root=%s" % rj["k"])
        if not a["fin"]:
            res["obligations"].append(("hier: model search finished within its fuel", False, json.dumps(inp)[:800]))
        # open finding: get_all_hrefs_of_instances finds the netlist through instance.reference only
        noref = (f == "hinst" and rj["k"] == "inst" and impl == [] and getattr(obj, "reference", 0) is None
                 and getattr(obj, "parent", None) is not None)
        if impl != model:
            res.corr_mismatch("Spydr.Hier." + f + " vs spydrnet.get_" + f + "s", inp, impl, model,
                              signature=SIG_NOREF if noref else None)
        if isinstance(impl, dict):
            res.spec_failure("get_%ss.%s.raises-%s" % (f, rj["k"], impl["exc"]), inp, "query raised")
            continue
        tups = [tuple(x) for x in impl]
        if len(set(tups)) != len(tups):
            res.spec_failure("get_%ss.%s.duplicate-reference" % (f, rj["k"]), inp, "a reference is returned twice")
        bad = [x for x in tups if x not in valid_set]
        if bad:
            res.spec_failure("get_%ss.%s.returns-non-occurrence" % (f, rj["k"]), inp, "not an occurrence: %r" % (bad[:3],))
        kind_ok = elab.kset[f]
        if any(x not in kind_ok for x in tups if x in valid_set):
            res.spec_failure("get_%ss.%s.wrong-kind" % (f, rj["k"]), inp, "reference of another kind returned")
        exp = c11_expected(elab, f, rj, rec, None, b, defs_by_idx)
        if exp is not None and sorted(tups) != [tuple(x) for x in exp]:
            miss = sorted(set(map(tuple, exp)) - set(tups))
            extra = sorted(set(tups) - set(map(tuple, exp)))
            what = "omission" if miss and not extra else ("extra" if extra and not miss else "differs")
            res.spec_failure(SIG_NOREF if (noref and what == "omission") else "get_%ss.%s.%s" % (f, rj["k"], what), inp,
                             "missing %r extra %r" % (miss[:3], extra[:3]))
        for h in hrefs:
            k = tuple(path_of(h, ids))
            if k in valid_set:
                if not h.is_valid:
                    res.spec_failure("HRef.is_valid.false-on-occurrence", inp, repr(k))
                try:
                    n = h.name
                except Exception as e:  # noqa
                    n = {"exc": exc_family(e)}
                if n != elab.names[k]:
                    res.spec_failure("HRef.name.not-slash-joined-names-plus-index", inp,
                                     "name %r expected %r for %r" % (n, elab.names[k], k))

    # ---- collections of roots of mixed kinds, handed over as ONE list object ----
    # P: one reference per occurrence in the raw returned sequence (never through a set), nothing omitted
    # w.r.t. the single-root answers, and asking again with the very same list gives the same answer
    from spydrnet.ir.outerpin import OuterPin as _OPm
    colls = []
    for _ in range(tier_scale[2] if len(tier_scale) > 2 else 6):
        colls.append([rng.choice(roots) for _ in range(rng.randint(1, 3))])
    targeted = []
    for d_ in b.defs:
        for c_ in d_.cables:
            for w_ in c_.wires:
                for x_ in w_.pins:
                    if not isinstance(x_, _OPm) and x_.port is not None:
                        targeted.append((c_, w_, x_))
    rng.shuffle(targeted)
    # single roots that reach one occurrence by several routes (library / definition roots with recursion,
    # a cable whose wires lead to the same port): interesting for the streaming consumption below
    for lib_ in b.nl.libraries:
        colls += [[lib_], [lib_]]
    for d_ in rng.sample(b.defs, min(3, len(b.defs))):
        colls += [[d_], [d_]]
        for c_ in list(d_.cables)[:2]:
            colls.append([c_])
    by_item = {}
    for hh in href_roots:
        by_item.setdefault(id(hh.item), []).append(hh)
    for c_, w_, x_ in targeted[:4]:
        colls.append(rng.choice([[c_, x_.port], [w_, x_], [x_.port, c_], [x_, w_, c_]]))
        # an instance reference (name-map route) together with a port / pin of the same occurrence (pin route)
        occ_ = [hh for hh in href_roots if isinstance(hh.item, sdn.Instance) and hh.item.reference is c_.definition]
        if occ_:
            colls.append(rng.choice([[rng.choice(occ_), x_.port], [x_, rng.choice(occ_)], [b.nl, x_.port]]))
        hw_, hp_ = by_item.get(id(w_)), by_item.get(id(x_))
        if hw_ and hp_:
            colls.append([rng.choice(hw_), rng.choice(hp_)])
    for coll in colls:
        rjs = [root_json(o, ids, dpos) for o in coll]
        for f in ("hinst", "hport", "hpin", "hcable", "hwire"):
            rec = bool(rng.getrandbits(1))
            for o in coll:
                if (id(o), f, rec) not in single:
                    # e.g. get_hcables on pin-like roots (their single-root answer is C12's business): the
                    # collection is then only compared with the implementation's own single-root answers
                    si, _ = impl_query(sdn, f, o, rec, "I", ids)
                    single[(id(o), f, rec)] = (si, None)
            no_model = any(single[(id(o), f, rec)][1] is None for o in coll)
            if any(isinstance(single[(id(o), f, rec)][0], dict) for o in coll):
                continue
            inp = dict(inp_base, query={"f": f, "roots": rjs, "rec": rec})
            res["evaluations"] += 1
            res.dist("c11.collection-of-%d-roots" % len(coll))
            res.dist("theorem_fragment:no-theorem/collection-of-roots:out:no-theorem")
            lst = list(coll)
            r1, _h1 = impl_query(sdn, f, lst, rec, "I", ids)
            same_list = len(lst) == len(coll) and all(x is y for x, y in zip(lst, coll))
            r2, _h2 = impl_query(sdn, f, lst, rec, "I", ids)
            want_impl = sorted(set(tuple(x) for o in coll for x in single[(id(o), f, rec)][0]))
            want_model = None if no_model else sorted(set(tuple(x) for o in coll for x in single[(id(o), f, rec)][1]))
            # the same roots as a one-shot generator, and the answer consumed one reference at a time
            fnx = {"hinst": sdn.get_hinstances, "hport": sdn.get_hports, "hpin": sdn.get_hpins,
                   "hcable": sdn.get_hcables, "hwire": sdn.get_hwires}[f]
            try:
                r3 = sorted(path_of(x, ids) for x in fnx((x for x in coll), recursive=rec))
                r4 = []
                for hh in fnx(list(coll), recursive=rec):
                    r4.append(path_of(hh, ids))
                hh = None
            except Exception as e:  # noqa
                r3 = r4 = {"exc": exc_family(e)}
            if isinstance(r1, dict) or isinstance(r2, dict):
                res.spec_failure("get_%ss.collection.raises" % f, inp, repr((r1, r2))[:200])
                continue
            t1 = [tuple(x) for x in r1]
            if len(set(t1)) != len(t1) or len(set(map(id, _h1))) != len(_h1):
                res.spec_failure("get_%ss.collection.duplicate-reference" % f, inp, "one occurrence, two references in the result")
            if sorted(set(t1)) != want_impl:
                miss = sorted(set(want_impl) - set(t1))
                extra = sorted(set(t1) - set(want_impl))
                res.spec_failure("get_%ss.collection.%s" % (f, "omission" if miss and not extra else ("extra" if extra and not miss else "differs")),
                                 inp, "vs the single-root answers: missing %r extra %r" % (miss[:3], extra[:3]))
            if r2 != r1:
                res.spec_failure("get_%ss.collection.asked-again-with-the-same-list.differs" % f, inp,
                                 "first %d references, second %d; caller's list %s" % (len(r1), len(r2), "unchanged" if same_list else "was modified"))
            if r3 != r1:
                res.spec_failure("get_%ss.roots-as-generator.differs-from-roots-as-list" % f, inp,
                                 "list %d, generator %r" % (len(r1), len(r3) if isinstance(r3, list) else r3))
            if not isinstance(r4, list) or len(set(map(tuple, r4))) != len(r4) or sorted(r4) != r1:
                res.spec_failure("get_%ss.collection.streaming-consumption.differs" % f, inp,
                                 "list %d, streamed %r" % (len(r1), len(r4) if isinstance(r4, list) else r4))
            if want_model is not None and sorted(set(t1)) != want_model:
                res.corr_mismatch("Spydr.Hier.%s (union over the roots) vs spydrnet.get_%ss(collection)" % (f, f), inp, r1,
                                  [list(x) for x in want_model])

    # ---- names / validity / uniqueness / canonicity of every reference ----
    allh = {}
    for h in href_roots:
        allh[tuple(path_of(h, ids))] = h
    hs = list(allh.items())
    qs = []
    for k, h in hs:
        qs += [{"f": "valid", "h": list(k)}, {"f": "unique", "h": list(k)}, {"f": "name", "h": list(k)}]
    ans = sess.ask(qs)
    count_reach(res, sess, refs=[k for k, h in hs])
    for n, (k, h) in enumerate(hs):
        av, au, an = ans[3 * n], ans[3 * n + 1], ans[3 * n + 2]
        inp = dict(inp_base, href=list(k))
        res["evaluations"] += 1
        try:
            iv, iu = timed(lambda: (bool(h.is_valid), bool(h.is_unique)))
        except QueryTimeout:
            res.spec_failure("HRef.is_valid-or-is_unique.does-not-return", inp, "no answer within %s CPU seconds" % QUERY_LIMIT_S)
            continue
        ev = k in valid_set
        eu = ev and len(elab.ends.get(k[0], [])) == 1
        usig = unique_sig(elab, k, iu, eu)
        if iv != av["v"]:
            res.corr_mismatch("Spydr.Hier.isValid vs HRef.is_valid", inp, iv, av["v"])
        if iu != au["v"]:
            res.corr_mismatch("Spydr.Hier.isUnique vs HRef.is_unique", inp, iu, au["v"], signature=usig)
        if not au["fin"]:
            res["obligations"].append(("hier: isUnique search finished within its fuel", False, json.dumps(inp)[:800]))
        if iv != ev:
            res.spec_failure("HRef.is_valid.disagrees-with-netlist", inp, "is_valid=%r occurrence=%r" % (iv, ev))
        if iu != eu:
            res.spec_failure(usig or "HRef.is_unique.disagrees-with-netlist", inp, "is_unique=%r expected=%r" % (iu, eu))
        if ev:
            try:
                nm_i = h.name
            except Exception as e:  # noqa
                nm_i = {"exc": exc_family(e)}
            if nm_i != an["v"]:
                res.corr_mismatch("Spydr.Hier.hrefName vs HRef.name", inp, nm_i, an["v"])
    # canonicity: the same path obtained again is the same object, equal hash; model interning
    seqs = []
    objs = []
    for k, h in hs[: tier_scale[1]]:
        items = []
        x = h
        while x is not None:
            items.append(x.item)
            x = x.parent
        items.reverse()
        h2 = HRef.from_sequence(items)
        h3 = HRef(h.item, h.parent)
        if h2 is not h:
            res.spec_failure("HRef.from_sequence.not-the-same-object", dict(inp_base, href=list(k)), "flyweight miss")
        if hash(h2) != hash(h) or hash(h3) != hash(h) or not (h3 == h):
            res.spec_failure("HRef.hash-or-eq.differs-for-same-path", dict(inp_base, href=list(k)), "")
        if h.parent is not None and (h.parent == h or h == h.parent):
            res.spec_failure("HRef.eq.equal-to-its-parent", dict(inp_base, href=list(k)), "")
        seqs += [list(k), list(k)] + ([list(k[1:])] if len(k) > 1 else [])
        objs += [h, h2] + ([h.parent] if len(k) > 1 else [])
    if seqs:
        a = sess.ask([{"f": "intern", "hs": seqs}])[0]["v"]
        first = {}
        impl_pat = [first.setdefault(id(o), len(first)) for o in objs]
        firstm = {}
        model_pat = [firstm.setdefault(x, len(firstm)) for x in a]
        res["evaluations"] += 1
        if impl_pat != model_pat:
            res.corr_mismatch("Spydr.Hier.Fly.intern vs HRef.from_parent_and_item (identity pattern)",
                              dict(inp_base, seqs=seqs[:30]), impl_pat[:60], model_pat[:60])

    # ---- edits: validity / uniqueness of references obtained before ----
    if edits:
        handles = [{"children": list(d.children), "ports": list(d.ports), "cables": list(d.cables),
                    "wires": [list(c.wires) for c in d.cables], "pins": [list(p.pins) for p in d.ports]}
                   for d in b.defs]
        done = []
        for op in edits:
            oc = apply_edit(b, handles, op)
            done.append(op + [oc])
            res.dist("c11.edit.%s.%s" % (op[0], oc))
            design2, _dpos2 = dump(b.nl, ids)
            st2 = sess.load(design2)
            if not st2["sorted"]:
                res.dist("c11.edit-made-cycle")
                break
            if not st2["wf"]:
                res["obligations"].append(("hier: dumped design satisfies WF (identities) after edits", False,
                                           json.dumps({"recipe": recipe, "edits": done})[:1500]))
                break
            elab2 = Elab(b.nl, ids)
            qs = []
            for k, h in hs:
                qs += [{"f": "valid", "h": list(k)}, {"f": "unique", "h": list(k)}, {"f": "name", "h": list(k)}]
            ans = sess.ask(qs)
            count_reach(res, sess, refs=[k for k, h in hs])
            ans_names = ans[2::3]
            ans = [a for i, a in enumerate(ans) if i % 3 != 2]
            for n, (k, h) in enumerate(hs):
                inp = {"recipe": recipe, "edits": [list(x) for x in done], "href": list(k)}
                res["evaluations"] += 1
                # every derived attribute the HELD object exposes must describe the netlist as it is now
                if k in elab2.all_valid:
                    try:
                        nm_i, st_i = h.name, str(h)
                    except Exception as e:  # noqa
                        nm_i = st_i = {"exc": exc_family(e)}
                    if nm_i != elab2.names[k] or st_i != elab2.names[k]:
                        res.spec_failure("HRef.name.after-edit.held-reference-does-not-follow-the-netlist", inp,
                                         "name %r str %r expected %r" % (nm_i, st_i, elab2.names[k]))
                    if nm_i != ans_names[n]["v"]:
                        res.corr_mismatch("Spydr.Hier.hrefName vs HRef.name (after edits)", inp, nm_i, ans_names[n]["v"])
                if tuple(path_of(h, ids)) != k or hash(h) != hash(type(h)(h.item, h.parent)):
                    res.spec_failure("HRef.path-or-hash.changed-after-edit", inp, "")
                try:
                    iv, iu = timed(lambda: (bool(h.is_valid), bool(h.is_unique)))
                except QueryTimeout:
                    res.spec_failure("HRef.is_valid-or-is_unique.after-edit.does-not-return", inp, "")
                    continue
                except Exception as e:  # noqa
                    res.spec_failure("HRef.is_valid-after-edit.raises-" + exc_family(e), inp, "")
                    continue
                mv, mu = ans[2 * n]["v"], ans[2 * n + 1]["v"]
                ev = k in elab2.all_valid
                eu = ev and len(elab2.ends.get(k[0], [])) == 1
                usig = unique_sig(elab2, k, iu, eu)
                if iv != mv:
                    res.corr_mismatch("Spydr.Hier.isValid vs HRef.is_valid (after edits)", inp, iv, mv)
                if iu != mu:
                    res.corr_mismatch("Spydr.Hier.isUnique vs HRef.is_unique (after edits)", inp, iu, mu, signature=usig)
                if iv != ev:
                    res.spec_failure("HRef.is_valid.after-edit.disagrees-with-netlist", inp,
                                     "is_valid=%r occurrence=%r" % (iv, ev))
                elif iu != eu:
                    res.spec_failure(usig or "HRef.is_unique.after-edit.disagrees-with-netlist", inp,
                                     "is_unique=%r expected=%r" % (iu, eu))
                res.dist("c11.after-edit.%s" % ("valid" if ev else "invalid"))
            # every element (also the removed / moved ones) as query root after the edit
            dpos2 = _dpos2
            defs2 = {}
            for d_ in collect_defs(b.nl):
                defs2[dpos2[id(d_)]] = d_
            any_out = any(not D["inNl"] for D in design2["defs"])
            eroots = [b.nl] + list(b.nl.libraries)
            for d_, H in zip(b.defs, handles):
                if id(d_) in dpos2:
                    eroots.append(d_)
                eroots += H["children"] + H["ports"] + H["cables"]
                for lst in H["pins"]:
                    eroots += lst[:2]
                for lst in H["wires"]:
                    eroots += lst[:2]
                for kid in H["children"]:
                    eroots += [o for o in list(kid.pins)[:1] if o.instance is not None and o.inner_pin is not None]
            eroots.append(b.nl.top_instance)
            if len(eroots) > 3 * tier_scale[0]:
                eroots = [eroots[i] for i in sorted(rng.sample(range(len(eroots)), 3 * tier_scale[0]))]
            ALLOWED = {"hinst": None,
                       "hport": ("netlist", "lib", "def", "inst", "port", "ipin", "opin"),
                       "hpin": ("netlist", "lib", "def", "inst", "port", "ipin", "opin"),
                       "hcable": ("netlist", "lib", "def", "inst", "cable", "wire"),
                       "hwire": ("netlist", "lib", "def", "inst", "cable", "wire")}
            qs3, meta3 = [], []
            for obj in eroots:
                try:
                    rj = root_json(obj, ids, dpos2)
                except Exception:  # noqa  (a definition no longer reachable, an outer pin that lost its instance)
                    continue
                for f in ("hinst", "hport", "hpin", "hcable", "hwire"):
                    if ALLOWED[f] is not None and rj["k"] not in ALLOWED[f]:
                        continue   # would run over wire.pins / pin.wire of removed elements (C12's premise)
                    rec = bool(rng.getrandbits(1))
                    qs3.append({"f": f, "root": rj, "rec": rec, "sel": "I"})
                    meta3.append((obj, rj, f, rec))
            ans3 = sess.ask(qs3)
            count_reach(res, sess, qs3)
            for (obj, rj, f, rec), a in zip(meta3, ans3):
                inp = {"recipe": recipe, "edits": [list(x) for x in done], "query": {"f": f, "root": rj, "rec": rec}}
                res["evaluations"] += 1
                res.dist("c11.after-edit.root=%s" % rj["k"])
                impl, _ = impl_query(sdn, f, obj, rec, "I", ids)
                model = sorted(a["v"])
                sig = None
                if isinstance(impl, list) and impl != model and any_out and rj["k"] not in ("netlist", "href") \
                        and set(map(tuple, impl)) <= set(map(tuple, model)):
                    sig = SIG_RMDEF    # open finding: the netlist is looked for through the first instance only
                if isinstance(impl, list) and impl != model and f == "hcable" and rj["k"] == "cable" \
                        and len(obj.wires) == 0 and set(map(tuple, impl)) <= set(map(tuple, model)):
                    sig = SIG_NOWIRE   # open finding: a cable root is expanded through its wires only
                if impl != model:
                    res.corr_mismatch("Spydr.Hier.%s vs spydrnet.get_%ss (element root after edits)" % (f, f),
                                      inp, impl, model, signature=sig)
                if isinstance(impl, dict):
                    res.spec_failure("get_%ss.after-edit.%s.raises-%s" % (f, rj["k"], impl["exc"]), inp, "")
                    continue
                if not elab2.inst_paths:
                    # the top instance itself is no occurrence any more (its definition left the library):
                    # the elaborated design is empty by is_valid's own definition while the instance-set
                    # queries still walk from netlist.top_instance; only the correspondence is checked here
                    res.dist("c11.after-edit.top-invalid-P-not-evaluated")
                    continue
                tups = [tuple(x) for x in impl]
                if len(set(tups)) != len(tups):
                    res.spec_failure("get_%ss.after-edit.%s.duplicate-reference" % (f, rj["k"]), inp, "")
                if any(x not in elab2.all_valid for x in tups):
                    res.spec_failure("get_%ss.after-edit.%s.returns-non-occurrence" % (f, rj["k"]), inp, "")
                exp = c11_expected(elab2, f, rj, rec, None, b, defs2)
                if exp is not None and sorted(tups) != [tuple(x) for x in exp]:
                    miss = sorted(set(map(tuple, exp)) - set(tups))
                    extra = sorted(set(tups) - set(map(tuple, exp)))
                    what = "omission" if miss and not extra else ("extra" if extra and not miss else "differs")
                    res.spec_failure(sig if (sig and what == "omission") else
                                     "get_%ss.after-edit.%s.%s" % (f, rj["k"], what), inp,
                                     "missing %r extra %r" % (miss[:3], extra[:3]))
            # the held references as query roots after the edit: a dead path answers nothing, a live one
            # answers like the model on the re-dumped design
            qs2, meta2 = [], []
            for k, h in hs[: tier_scale[1]]:
                kk = "wirelike" if (k in elab2.kset["hwire"] or k in elab2.kset["hcable"]) else (
                    "pinlike" if (k in elab2.kset["hpin"] or k in elab2.kset["hport"]) else "other")
                for f in ("hinst", "hport", "hpin", "hcable", "hwire"):
                    if kk == "wirelike" and f in ("hpin", "hport"):
                        continue   # runs over wire.pins: after remove_child/remove_port those may dangle (WFNet is C12's premise)
                    if kk == "pinlike" and f in ("hcable", "hwire"):
                        continue   # pin.wire side of a removed pin: same remark
                    qs2.append({"f": f, "root": {"k": "href", "h": list(k)}, "rec": False, "sel": "I"})
                    meta2.append((k, h, f))
            ans2 = sess.ask(qs2)
            count_reach(res, sess, qs2)
            for (k, h, f), a in zip(meta2, ans2):
                inp = {"recipe": recipe, "edits": [list(x) for x in done], "query": {"f": f, "root": {"k": "href", "h": list(k)}, "rec": False}}
                res["evaluations"] += 1
                impl, _ = impl_query(sdn, f, h, False, "I", ids)
                if k not in elab2.all_valid and impl != []:
                    res.spec_failure("get_%ss.after-edit.dead-reference-as-root-answers" % f, inp, repr(impl)[:200])
                if impl != sorted(a["v"]):
                    it = h.item
                    nowire = (f == "hcable" and impl == [] and isinstance(it, sdn.Cable) and len(it.wires) == 0)
                    res.corr_mismatch("Spydr.Hier.%s vs spydrnet.get_%ss (held reference as root after edits)" % (f, f),
                                      inp, impl, sorted(a["v"]), signature=SIG_NOWIRE if nowire else None)
                    if nowire and k in elab2.all_valid:
                        res.spec_failure(SIG_NOWIRE, inp, "get_hcables(hcable) of a cable without wires returns nothing")


# --------------------------------------------------------------------------------------------
# C12 on one recipe
# --------------------------------------------------------------------------------------------
def all_port_pins(w):
    from spydrnet.ir.outerpin import OuterPin
    return all(not isinstance(x, OuterPin) for x in w.pins)


def wire_is_seen(w, f):
    """does the pinned commit's BOTH/ALL branch start the closure from this wire?"""
    from spydrnet.ir.outerpin import OuterPin
    if f == "hwire":
        return any(not isinstance(x, OuterPin) for x in w.pins)
    return bool(w.pins) and not isinstance(w.pins[0], OuterPin)


def wire_has_port_pin(w):
    from spydrnet.ir.outerpin import OuterPin
    return any(not isinstance(x, OuterPin) for x in w.pins)


def all_pinrefs(recipe, di):
    """pin references of definition di in recipe coordinates"""
    D = recipe["defs"][di]
    out = [["p", pi, bb] for pi, P in enumerate(D["ports"]) for bb in range(P["width"])]
    for ki, c in enumerate(D["children"]):
        if c["ref"] is not None:
            for pi, P in enumerate(recipe["defs"][c["ref"]]["ports"]):
                out.extend(["c", ki, pi, bb] for bb in range(P["width"]))
    return out


def pin_obj(b, di, q):
    """the pin object in recipe coordinates (positions as built, whatever was removed since)"""
    if q[0] == "p":
        return b.h_ports[di][q[1]].pins[q[2]]
    k = b.h_children[di][q[1]]
    return k.pins[k.reference.ports[q[2]].pins[q[3]]]


def gen_pin_edit(rng, b):
    """one connectivity edit on the live netlist, in recipe coordinates: disconnect a pin, connect a
    free pin, or move a pin to another wire of the same definition"""
    r = b.recipe
    cands = []
    for di, D in enumerate(r["defs"]):
        wires = [(ci, wi) for ci, C in enumerate(D["cables"]) for wi in range(len(C["wires"]))]
        if not wires:
            continue
        for q in all_pinrefs(r, di):
            cands.append((di, q, wires))
    if rng.random() < 0.25:
        # move a WIRED child whose definition has wires of its own to another definition: its outer pins
        # stay on the old definition's wires, and what lies below them would be a phantom
        mv = []
        for di, D in enumerate(r["defs"]):
            for ki, c in enumerate(D["children"]):
                ref = c["ref"]
                if ref is None or not r["defs"][ref]["cables"]:
                    continue
                obj = b.h_children[di][ki]
                if obj.parent is b.defs[di] and any(pp.wire is not None for pp in obj.pins):
                    mv += [(di, ki, dj) for dj in range(ref + 1, len(r["defs"])) if dj != di]
        if mv:
            return ["mv_child"] + list(rng.choice(mv))
    if rng.random() < 0.25:
        # a structural edit that leaves pins behind on wires: remove a child / a port
        di = rng.randrange(len(r["defs"]))
        D = r["defs"][di]
        if rng.random() < 0.3 and di != r["top"]:
            return ["rm_def", di]      # instantiated definition leaves its library; the net still runs through it
        if rng.random() < 0.45:
            # MOVE a child / a port to another definition: its pins stay behind on the old definition's wires
            dj = rng.randrange(len(r["defs"]))
            if D["children"] and (rng.random() < 0.7 or not D["ports"]):
                ki = rng.randrange(len(D["children"]))
                ref = D["children"][ki]["ref"]
                if dj != di and (ref is None or ref < dj):
                    return ["mv_child", di, ki, dj]
            elif D["ports"] and dj != di:
                return ["mv_port", di, rng.randrange(len(D["ports"])), dj]
        if D["children"] and (rng.random() < 0.6 or not D["ports"]):
            return ["rm_child", di, rng.randrange(len(D["children"]))]
        if D["ports"]:
            return ["rm_port", di, rng.randrange(len(D["ports"]))]
    if not cands:
        return None
    from spydrnet.ir.outerpin import OuterPin as _OPin
    for _ in range(20):
        di, q, wires = rng.choice(cands)
        try:
            pin = pin_obj(b, di, q)
        except Exception:  # noqa
            continue
        if isinstance(pin, _OPin):
            if pin.instance is None or pin.instance.parent is not b.defs[di]:
                continue       # pin of a removed child: not connected any further
        elif pin.port is None or pin.port.definition is not b.defs[di]:
            continue
        ci, wi = rng.choice(wires)
        if pin.wire is None:
            return ["conn", di, q, ci, wi]
        if rng.random() < 0.4:
            return ["disc", di, q]
        return ["move", di, q, ci, wi]
    return None


def apply_pin_edit(b, op):
    try:
        if op[0] == "rm_child":
            k = b.h_children[op[1]][op[2]]
            k.parent.remove_child(k)
            return "ok"
        if op[0] == "rm_port":
            x = b.h_ports[op[1]][op[2]]
            x.definition.remove_port(x)
            return "ok"
        if op[0] == "rm_def":
            dd = b.defs[op[1]]
            dd.library.remove_definition(dd)
            return "ok"
        if op[0] == "mv_child":
            k = b.h_children[op[1]][op[2]]
            tgt = b.defs[op[3]]
            rr = k.reference
            if rr is not None and (rr is tgt or b.defs.index(rr) >= op[3]):
                return "skipped-would-cycle"
            k.parent.remove_child(k)
            tgt.add_child(k)
            return "ok"
        if op[0] == "mv_port":
            x = b.h_ports[op[1]][op[2]]
            x.definition.remove_port(x)
            b.defs[op[3]].add_port(x)
            return "ok"
        pin = pin_obj(b, op[1], op[2])
        if op[0] in ("disc", "move") and pin.wire is not None:
            pin.wire.disconnect_pin(pin)
        if op[0] in ("conn", "move"):
            b.defs[op[1]].cables[op[3]].wires[op[4]].connect_pin(pin)
        return "ok"
    except Exception as e:  # noqa
        return exc_family(e)


def check_c12(res, sess, recipe, rng, tier_scale, tag="gen", only=None, pin_edits=None, n_gen_edits=0):
    """first pass on the netlist as built; then connectivity edits (given, or generated) each followed by
    the same queries again IN THE SAME PROCESS on the same objects, against the model on the re-dumped
    design and the union-find oracle recomputed on the edited netlist"""
    try:
        b = Built(recipe)
    except Exception:
        res.dist("recipe-not-buildable")
        return
    ids = Ids()
    done = []
    if not _c12_pass(res, sess, b, ids, recipe, rng, tier_scale, tag, only, done):
        return
    n = len(pin_edits) if pin_edits is not None else n_gen_edits
    for j in range(n):
        op = pin_edits[j] if pin_edits is not None else gen_pin_edit(rng, b)
        if op is None:
            break
        oc = apply_pin_edit(b, op)
        done.append(list(op))
        res.dist("c12.pin-edit.%s.%s" % (op[0], oc))
        if not _c12_pass(res, sess, b, ids, recipe, rng, tier_scale, tag, only, done):
            return


def _c12_pass(res, sess, b, ids, recipe, rng, tier_scale, tag, only, done):
    import spydrnet as sdn
    design, dpos = dump(b.nl, ids)
    st = sess.load(design)
    structural = any(op[0] in ("rm_child", "rm_port", "mv_child", "mv_port") for op in done)
    if not (st["wf"] and (st["wfnet"] or structural) and st["sorted"]):
        res["obligations"].append(("hier: dumped design satisfies WF, WFNet and Sorted", False,
                                   json.dumps({"recipe": recipe, "pin_edits": done})[:1500]))
        return False
    elab = Elab(b.nl, ids)
    if elab.overflow:
        res.dist("too-big-skipped")
        return False
    nets = Nets(elab, ids)
    depth = max(len(p) for p in elab.inst_paths) if elab.inst_paths else 0
    multi = sum(1 for c in nets.classes.values() if len(c) >= 2)
    deep = 0
    for c in nets.classes.values():
        lv = set(len(k) for k in c)
        if len(lv) >= 3:
            deep += 1
    if not done:
        res.case(stable_hash(recipe), multi >= 1 and depth >= 3)
        res.dist("c12.depth=%d" % min(depth, 6))
        res.dist("c12.nets-spanning>=3-levels" if deep else "c12.nets-spanning<3-levels")
        res.sample({"recipe_defs": len(recipe["defs"]), "hwires": len(nets.parent), "nets": len(nets.classes),
                    "multi_wire_nets": multi, "tag": tag})
    else:
        res.case(stable_hash([recipe, done]), multi >= 1)
        res.dist("c12.pass-after-%d-pin-edits" % len(done))
    from spydrnet.util.hierarchical_reference import HRef as _H
    # streaming consumption (no reference kept by the consumer): must give the same pins as the attached ones
    if not nets.dangling:
        gc.collect()
        fan = sorted(nets.pins_of, key=lambda kk: -len(nets.pins_of[kk]))[:5]
        for kw in fan:
            if len(nets.pins_of[kw]) < 3:
                continue
            hw = _H.from_sequence([ids.keep[i] for i in reversed(kw)])
            got = []
            try:
                for hh in sdn.get_hpins(hw):
                    got.append(tuple(path_of(hh, ids)))
                hh = None
                cnt = sum(1 for _ in sdn.get_hpins(hw))
            except Exception as e:  # noqa
                got, cnt = [("exc", exc_family(e))], -1
            res["evaluations"] += 1
            res.dist("c12.streaming.fan-out>=%d" % (12 if len(nets.pins_of[kw]) >= 12 else 3))
            res.dist("theorem_fragment:hpins_of_hwire_spec:" + ("in" if st["wf"] else "out:WF"))
            if sorted(got) != sorted(nets.pins_of[kw]) or cnt != len(nets.pins_of[kw]):
                inp = {"recipe": recipe, "query": {"f": "hpin", "root": {"k": "href", "h": list(kw)}, "consumption": "streaming"}}
                if done:
                    inp["pin_edits"] = [list(x) for x in done]
                res.spec_failure("get_hpins.hwire.streaming-consumption.not-the-attached-pins", inp,
                                 "attached %d, streamed %d distinct %d, counted %d" % (len(nets.pins_of[kw]), len(got), len(set(got)), cnt))

    def _all(kind):
        # start references are built from the independent enumeration (not from the code under test)
        out = []
        for k in elab.by_kind[kind]:
            out.append(_H.from_sequence([ids.keep[i] for i in reversed(k)]))
        return out
    starts = {"hwire": _all("hwire"), "hpin": _all("hpin"), "hcable": _all("hcable"), "hport": _all("hport")}
    cap = tier_scale[0]
    work = []   # (start kind, root object, root json, occurrence keys of the start item)
    for kind, lst in starts.items():
        if len(lst) > cap:
            lst = [lst[i] for i in sorted(rng.sample(range(len(lst)), cap))]
        for h in lst:
            k = tuple(path_of(h, ids))
            work.append((kind, h, {"k": "href", "h": list(k)}, [k]))
    # element roots: the query runs from every occurrence of the element
    elems = []
    for d in b.defs:
        for p in d.ports:
            elems.append(("hport", p))
            elems.extend(("hpin", q) for q in p.pins)
        for c in d.cables:
            elems.append(("hcable", c))
            elems.extend(("hwire", w) for w in c.wires)
        for kid in d.children:
            elems.extend(("hpin", o) for o in list(kid.pins)[:2])
    if len(elems) > cap:
        elems = [elems[i] for i in sorted(rng.sample(range(len(elems)), cap))]
    from spydrnet.ir.outerpin import OuterPin as _OP
    for kind, e in elems:
        if isinstance(e, _OP):
            occ = [k for k in elab.ends.get(ids.of(e.inner_pin), []) if len(k) > 2 and k[2] == ids.of(e.instance)]
        else:
            occ = list(elab.ends.get(ids.of(e), []))
        work.append((kind, e, root_json(e, ids, dpos), sorted(occ)))
    queries, meta = [], []
    for kind, h, rj, occ in work:
        for f in ("hwire", "hcable"):
            for sel in ("A", "I", "O", "B"):
                queries.append({"f": f, "root": rj, "rec": False, "sel": sel})
                meta.append((kind, h, rj, occ, f, sel))
        if kind in ("hwire", "hcable"):
            for f in ("hpin", "hport"):
                queries.append({"f": f, "root": rj, "rec": False, "sel": "I"})
                meta.append((kind, h, rj, occ, f, "I"))
    answers = sess.ask(queries)
    count_reach(res, sess, queries)
    inp_base = {"recipe": recipe, "pin_edits": [list(x) for x in done]} if done else {"recipe": recipe}
    from spydrnet.util.hierarchical_reference import HRef as _HRef
    last_hw = {}
    for (kind, h, rj, occ, f, sel), q, a in zip(meta, queries, answers):
        if only and (f, sel) != only:
            continue
        impl, _ = impl_query(sdn, f, h, False, sel, ids)
        model = sorted(a["v"])
        inp = dict(inp_base, query={"f": f, "root": rj, "sel": sel, "start": kind})
        if f == "hwire":
            last_hw[(id(h), sel)] = impl
        elif f == "hcable" and isinstance(impl, list) and not (kind == "hcable" and sel == "I"):
            hw_ = last_hw.get((id(h), sel))
            if isinstance(hw_, list) and sorted(set(tuple(x[1:]) for x in hw_)) != sorted(set(map(tuple, impl))):
                res.spec_failure("get_hcables.%s.from-%s.not-the-cables-of-get_hwires" % (SELS[sel], kind), inp,
                                 "cables of get_hwires: %d, get_hcables: %d" % (len(set(tuple(x[1:]) for x in hw_)), len(impl)))
        res["evaluations"] += 1
        res.dist("c12.%s.%s.from-%s%s" % (f, SELS[sel], kind, "" if rj["k"] == "href" else "-element"))
        if not a["fin"]:
            res["obligations"].append(("hier: model closure finished within its fuel", False, json.dumps(inp)[:800]))
        # ---- the property's demand, from the union-find elaboration ----
        item = h.item if isinstance(h, _HRef) else (h.inner_pin if isinstance(h, _OP) else h)
        sw, sp = [], []
        for k in occ:
            if kind == "hwire":
                sw.append(k)
            elif kind == "hcable":
                sw.extend((ids.of(w),) + k for w in item.wires)
            elif kind == "hpin":
                sp.append(k)
            else:
                sp.extend((ids.of(q),) + k for q in item.pins)
        exp = None
        if f in ("hwire", "hcable"):
            if sel == "A":
                s = set()
                for w in sw:
                    s.update(nets.net_of_wire(w))
                for p in sp:
                    s.update(nets.net_of_pin(p))
                exp = s
            elif sel == "I":
                exp = set(sw) | set(nets.inner_of[p] for p in sp if p in nets.inner_of)
            elif sel == "O":
                s = set(nets.outer_of[p] for p in sp if p in nets.outer_of)
                for w in sw:
                    for p in nets.pins_of[w]:
                        o = nets.outer_of.get(p) if nets.inner_of.get(p) == w else nets.inner_of.get(p)
                        if o is not None:
                            s.add(o)
                exp = s
            if exp is not None and f == "hcable":
                exp = set(x[1:] for x in exp)
        else:
            s = set()
            for w in sw:
                s.update(nets.pins_of[w])
            exp = s if f == "hpin" else set(x[1:] for x in s)
        known_sig = None
        if isinstance(impl, dict):
            res.spec_failure("get_%ss.%s.from-%s.raises-%s" % (f, SELS[sel], kind, impl["exc"]), inp, "query raised")
        else:
            tups = [tuple(x) for x in impl]
            if len(set(tups)) != len(tups):
                res.spec_failure("get_%ss.%s.from-%s.duplicate-reference" % (f, SELS[sel], kind), inp, "")
            if exp is not None and set(tups) != exp:
                miss = sorted(exp - set(tups))
                extra = sorted(set(tups) - exp)
                sig = "get_%ss.%s.from-%s.%s" % (f, SELS[sel], kind,
                                                "omission" if miss and not extra else ("extra" if extra and not miss else "differs"))
                # --- open finding: pins of a removed child / port left on a wire are followed ---
                moved_any = any(op[0] in ("mv_child", "mv_port") for op in done)
                if (nets.dangling or moved_any) and extra and not miss and any(x not in elab.all_valid for x in extra):
                    sig = SIG_DANGLING
                    known_sig = sig
                    cut = 2 if f in ("hwire", "hpin") else 1
                    moved = any(op[0] in ("mv_child", "mv_port") for op in done)
                    if moved:
                        # open finding: the moved element's own outer-wire lookup (both get_hwires and get_hcables
                        # share it; a deviation of get_hcables alone is caught by the image check below)
                        sig = SIG_MOVED
                        known_sig = sig
                # --- classification of the two (fixed) findings of the BOTH/ALL branch (exact failure classes) ---
                if sel == "A" and kind in ("hwire", "hcable") and miss and not extra:
                    # get_hwires: the BOTH/ALL branch drops every outer pin of the start wire, so the closure
                    # only starts when the wire has a port pin; get_hcables additionally clobbers its
                    # `href_inst` at the first outer pin, so only port pins listed before it count
                    reach, blind = set(), False
                    for kw in sw:
                        if wire_is_seen(ids.keep[kw[0]], f):
                            reach.update(nets.net_of_wire(kw))
                        else:
                            blind = True
                            reach.add(kw)
                    want = reach if f == "hwire" else set(x[1:] for x in reach)
                    if blind and set(tups) == want:
                        sig = SIG_ALL_WIRE if f == "hwire" else SIG_ALL_CABLE
                        known_sig = sig
                if f == "hcable" and sel in ("I", "O") and kind in ("hpin", "hport") and extra and not miss:
                    net = set()
                    for p in sp:
                        net.update(x[1:] for x in nets.net_of_pin(p))
                    if set(tups) <= net:
                        sig = SIG_NARROW
                        known_sig = sig
                res.spec_failure(sig, inp, "missing %r extra %r" % (miss[:3], extra[:3]))
        if impl != model:
            if known_sig is None and (nets.dangling or any(op[0] in ("mv_child", "mv_port") for op in done)) \
                    and not isinstance(impl, dict) and \
                    set(map(tuple, model)) <= set(map(tuple, impl)) and any(tuple(x) not in elab.all_valid for x in impl):
                known_sig = SIG_DANGLING
                cut = 2 if f in ("hwire", "hpin") else 1
                if any(op[0] in ("mv_child", "mv_port") for op in done):
                    known_sig = SIG_MOVED
            if known_sig is None and sel == "B" and not isinstance(impl, dict):
                # BOTH is outside the property's statement, but it runs through the same two code paths:
                # the shared BOTH/ALL branch for a wire start (outer pins are dropped) and, in get_hcables,
                # the closure that walks on for every selection
                si, sm = set(map(tuple, impl)), set(map(tuple, model))
                has_outer = any(not all_port_pins(ids.keep[kw[0]]) for kw in sw)
                net = set()
                for p in sp:
                    net.update(nets.net_of_pin(p))
                for w in sw:
                    net.update(nets.net_of_wire(w))
                if f == "hcable":
                    net = set(x[1:] for x in net)
                if f == "hwire" and has_outer and si <= sm:
                    known_sig = SIG_ALL_WIRE
                elif f == "hcable" and si <= net:
                    known_sig = SIG_ALL_CABLE if (has_outer and not sm <= si) else SIG_NARROW
            res.corr_mismatch("Spydr.Hier.%s(sel=%s) vs spydrnet.get_%ss" % (f, SELS[sel], f), inp, impl, model,
                              signature=known_sig)
    # roots handed over as a one-shot generator, and the result of one query fed directly into the next
    cwork = [w_ for w_ in work if w_[2]["k"] == "href" and w_[0] in ("hpin", "hwire")]
    rng.shuffle(cwork)
    for kind, h, rj, occ in cwork[: (tier_scale[2] if len(tier_scale) > 2 else 6)]:
        try:
            ws = list(sdn.get_hwires(h, selection="ALL"))
            for f, fn in (("hpin", sdn.get_hpins), ("hport", sdn.get_hports), ("hcable", sdn.get_hcables),
                          ("hwire", sdn.get_hwires), ("hinst", sdn.get_hinstances)):
                a_list = sorted(path_of(x, ids) for x in fn(list(ws)))
                a_gen = sorted(path_of(x, ids) for x in fn(x for x in ws))
                a_chain = sorted(path_of(x, ids) for x in fn(sdn.get_hwires(h, selection="ALL")))
                res["evaluations"] += 1
                res.dist("c12.chained-query.%s" % f)
                res.dist("theorem_fragment:no-theorem/collection-of-roots:out:no-theorem")
                if a_gen != a_list or a_chain != a_list:
                    inp = dict(inp_base, query={"f": f, "roots": "get_hwires(%r, ALL) as generator" % (rj["h"],), "start": kind})
                    res.spec_failure("get_%ss.roots-as-generator.differs-from-roots-as-list" % f, inp,
                                     "list %d, generator %d, chained %d" % (len(a_list), len(a_gen), len(a_chain)))
        except Exception as e:  # noqa
            res.spec_failure("get_h.chained-query.raises-" + exc_family(e), dict(inp_base, start=rj), "")
    # filter=: the callback only selects among the answer, it never changes what is reached
    fwork = [w_ for w_ in work if w_[2]["k"] == "href"]
    rng.shuffle(fwork)
    for kind, h, rj, occ in fwork[: (tier_scale[2] if len(tier_scale) > 2 else 10)]:
        salt = rng.randrange(1000)
        mod = rng.choice([2, 3])

        def pred(x, salt=salt, mod=mod):
            return (sum(path_of(x, ids)) * 31 + salt) % mod != 0
        for f in ("hwire", "hcable"):
            for sel in ("A", "I", "O", "B"):
                plain, plain_h = impl_query(sdn, f, h, False, sel, ids)
                filt, _ = impl_query(sdn, f, h, False, sel, ids, flt=pred)
                res["evaluations"] += 1
                res.dist("c12.filter.%s.%s" % (f, SELS[sel]))
                res.dist("theorem_fragment:no-theorem/filter-argument:out:no-theorem")
                if isinstance(plain, dict) or isinstance(filt, dict):
                    continue
                want = sorted(path_of(x, ids) for x in plain_h if pred(x))
                if filt != want:
                    inp = dict(inp_base, query={"f": f, "root": rj, "sel": sel, "start": kind, "filter": [salt, mod]})
                    res.spec_failure("get_%ss.%s.filter.not-the-filtered-unfiltered-answer" % (f, SELS[sel]), inp,
                                     "missing %r extra %r" % (sorted(set(map(tuple, want)) - set(map(tuple, filt)))[:3],
                                                              sorted(set(map(tuple, filt)) - set(map(tuple, want)))[:3]))
    # trace_same_answer, observed directly: members of one net give the same ALL answer
    by_cls = {}
    for (kind, h, rj, occ, f, sel), a in zip(meta, answers):
        if kind == "hwire" and f == "hwire" and sel == "A" and rj["k"] == "href":
            by_cls.setdefault(nets.find(occ[0]), []).append((occ[0], h))
    for root, members in by_cls.items():
        outs = []
        for k, h in members[:6]:
            r, _ = impl_query(sdn, "hwire", h, False, "A", ids)
            outs.append((k, r))
        ref = outs[0][1]
        for k, r in outs[1:]:
            if r != ref:
                blind = [x for x, hh in members if not wire_has_port_pin(hh.item)]
                sig = SIG_ALL_WIRE if blind else "get_hwires.ALL.members-of-one-net-answer-differently"
                res.spec_failure(sig, dict(inp_base, starts=[list(outs[0][0]), list(k)]), "answers differ inside one net")
                break
    return True


# --------------------------------------------------------------------------------------------
# shrinking (delta debugging on recipes)
# --------------------------------------------------------------------------------------------
def recipe_reductions(r):
    """smaller recipes (each still referentially consistent)"""
    nd = len(r["defs"])
    # drop a cable / a wire group member / a child (with the pins that mention it) / a port
    for di in range(nd):
        D = r["defs"][di]
        for ci in range(len(D["cables"])):
            r2 = json.loads(json.dumps(r))
            del r2["defs"][di]["cables"][ci]
            yield r2
        for ci, C in enumerate(D["cables"]):
            for wi, grp in enumerate(C["wires"]):
                for gi in range(len(grp)):
                    r2 = json.loads(json.dumps(r))
                    del r2["defs"][di]["cables"][ci]["wires"][wi][gi]
                    yield r2
                if len(C["wires"]) > 1:
                    r2 = json.loads(json.dumps(r))
                    del r2["defs"][di]["cables"][ci]["wires"][wi]
                    yield r2
        for ki in range(len(D["children"])):
            r2 = json.loads(json.dumps(r))
            D2 = r2["defs"][di]
            del D2["children"][ki]
            for C in D2["cables"]:
                for wi, grp in enumerate(C["wires"]):
                    ng = []
                    for q in grp:
                        if q[0] == "c":
                            if q[1] == ki:
                                continue
                            if q[1] > ki:
                                q = ["c", q[1] - 1, q[2], q[3]]
                        ng.append(q)
                    C["wires"][wi] = ng
            yield r2
    # drop an unreferenced, non-top definition
    used = set(c["ref"] for D in r["defs"] for c in D["children"] if c["ref"] is not None)
    for di in range(nd):
        if di != r["top"] and di not in used:
            r2 = json.loads(json.dumps(r))
            del r2["defs"][di]
            for D in r2["defs"]:
                for c in D["children"]:
                    if c["ref"] is not None and c["ref"] > di:
                        c["ref"] -= 1
            if r2["top"] > di:
                r2["top"] -= 1
            if r2.get("detached"):
                r2["detached"] = [x - 1 if x > di else x for x in r2["detached"] if x != di]
            yield r2
    if r.get("detached"):
        yield dict(r, detached=[])
    if r.get("top_mode", "setter") != "setter":
        yield dict(r, top_mode="setter")
    if r.get("orphans"):
        yield dict(r, orphans=0)
    if r.get("nlibs", 1) > 1:
        yield dict(r, nlibs=1)


def shrink(recipe, fails, budget_s=20.0):
    t0 = time.time()
    cur = recipe
    improved = True
    while improved and time.time() - t0 < budget_s:
        improved = False
        for r2 in recipe_reductions(cur):
            if time.time() - t0 > budget_s:
                break
            try:
                if fails(r2):
                    cur = r2
                    improved = True
                    break
            except Exception:  # noqa
                pass
    return cur


# --------------------------------------------------------------------------------------------
# shard workers
# --------------------------------------------------------------------------------------------
def _run_one(pid, res, sess, item, rng, tier):
    scale = (40, 30, 6) if tier == "quick" else (120, 80, 16)
    if pid == "C11":
        check_c11(res, sess, item["recipe"], rng, scale, edits=item.get("edits"), tag=item.get("tag", "gen"))
    else:
        check_c12(res, sess, item["recipe"], rng, scale, tag=item.get("tag", "gen"),
                  pin_edits=item.get("pin_edits"), n_gen_edits=item.get("n_pin_edits", 0))


def _shrink_failures(pid, res, sess, rng, tier, t_end):
    """replace the input of each new failure signature by a shrunk recipe that still shows it"""
    by_sig = {}
    for s in res["spec"]:
        by_sig.setdefault(s["signature"], s)
    try:
        from common import findings
        known = set(k["signature"] for k in findings.load() if k.get("status") == "open")
    except Exception:  # noqa
        known = set()
    out = [s for sig, s in by_sig.items() if sig in known]      # pinned in the corpus already: no shrinking
    by_sig = {sig: s for sig, s in by_sig.items() if sig not in known}
    n_shrunk = 0
    for sig, s in sorted(by_sig.items(), key=lambda kv: len(json.dumps(kv[1]["input"], default=str))):
        rec0 = s["input"].get("recipe")
        if rec0 is None or time.time() > t_end or n_shrunk >= 6:
            out.append(s)
            continue
        n_shrunk += 1
        edits = s["input"].get("edits")
        pe = s["input"].get("pin_edits")

        def fails(r2, sig=sig, edits=edits, pe=pe):
            tmp = shard.ShardResult()
            e2 = [e[:-1] if isinstance(e[-1], str) else e for e in edits] if edits else None
            if pid == "C11":
                check_c11(tmp, sess, r2, rng, (25, 10), edits=e2)
            else:
                check_c12(tmp, sess, r2, rng, (25, 10), pin_edits=pe)
            return any(x["signature"] == sig for x in tmp["spec"])
        small = shrink(rec0, fails, budget_s=min(12.0, max(1.0, t_end - time.time())))
        tmp = shard.ShardResult()
        e2 = [e[:-1] if isinstance(e[-1], str) else e for e in edits] if edits else None
        if pid == "C11":
            check_c11(tmp, sess, small, rng, (25, 10), edits=e2)
        else:
            check_c12(tmp, sess, small, rng, (25, 10), pin_edits=pe)
        hit = [x for x in tmp["spec"] if x["signature"] == sig]
        out.append(min(hit, key=lambda x: len(json.dumps(x["input"]))) if hit else s)
    # keep the occurrences for counting, but lead with the shrunk representatives
    res["spec"] = out + res["spec"][:150]


def _shard(pid, seed, idx, n_cases, tier, t_budget, items=None):
    import random
    res = shard.ShardResult()
    rng = random.Random(stable_hash([seed, pid, "shard", idx]))
    t_end = time.time() + t_budget
    arm_watchdog()
    sess = Session()
    try:
        if items is not None:
            for it in items:
                _run_one(pid, res, sess, it, rng, tier)
        else:
            for n in range(n_cases):
                if time.time() > t_end:
                    res.dist("budget-cut")
                    break
                size = "big" if rng.random() < (0.2 if tier == "quick" else 0.4) else "small"
                r = gen_recipe(rng, size)
                it = {"recipe": r}
                if pid == "C11" and rng.random() < 0.7:
                    it["edits"] = gen_edits(rng, r, rng.randint(1, 4))
                if pid == "C12" and rng.random() < 0.6:
                    it["n_pin_edits"] = rng.randint(1, 3)
                _run_one(pid, res, sess, it, rng, tier)
        if res["spec"]:
            _shrink_failures(pid, res, sess, rng, tier, time.time() + 40)
    except TooManyTimeouts:
        # three calls into the implementation did not return: they are reported as spec failures
        # (`…raises-timeout`); the rest of this shard is skipped rather than waited for
        res.dist("shard-cut-after-3-query-timeouts")
    finally:
        sess.close()
    gc.collect()
    return res


# --------------------------------------------------------------------------------------------
# entry point
# --------------------------------------------------------------------------------------------
def _corpus_items(pid):
    out = []
    for p in sorted(glob.glob(os.path.join(ROOT, "corpus", pid, "*.json"))):
        try:
            with open(p) as f:
                j = json.load(f)
        except Exception:  # noqa
            continue
        inp = j.get("input", j)
        if "recipe" in inp:
            out.append({"recipe": inp["recipe"], "edits": [e[:-1] if e and isinstance(e[-1], str) else e
                                                           for e in inp.get("edits", [])] or None,
                        "pin_edits": inp.get("pin_edits"),
                        "tag": "corpus:" + os.path.basename(p)})
    return out


def run(ctx):
    pid = ctx.pid
    meta = _meta()["properties"][pid]
    lean.check_obligations(ctx, ENGINE_DIR, ["Spydr.Hier.Props." + pid], EXES, AUDIT, meta["theorems"])
    if ctx.tier == "thorough":
        lean.leanchecker(ctx, ["Spydr.Hier.Props." + pid])
    built_ok = all(ok for (n, ok, d) in ctx.obligations if n.startswith("lake build"))
    ctx.rule = ("netlist recipes (leaf / wire-only / module definitions in a DAG, children referencing earlier "
                "definitions so that definitions are shared at several depths; scalar and array bundles with "
                "non-zero lower index; unnamed and same-named items; nets of only child pins, only port pins, "
                "nothing) built through the public API; " +
                ("every element and every returned reference as root x 5 queries x recursive on/off; then 1-4 "
                 "edits (remove child/port/cable/wire, re-point, remove definition, MOVE a wire/pin/child/port/cable to "
                 "another parent) re-checking is_valid/is_unique of all references held and using them as roots again" if pid == "C11" else
                 "every hierarchical wire/pin/cable/port as start x {ALL,INSIDE,OUTSIDE,BOTH} for get_hwires/"
                 "get_hcables, get_hpins/get_hports of every hierarchical wire/cable; then 1-3 connectivity edits "
                 "(connect / disconnect / move a pin) each followed by the same queries in the same process") +
                "; a case is one recipe, distinct by content, non-trivial when elaborated depth >= 3 or a "
                "definition is reached by two paths" + ("" if pid == "C11" else " and a net joins >= 2 hierarchical wires"))
    ctx.assumptions = [
        "hierarchy is acyclic (the model's `Sorted`: the harness dumps definitions in a topological order and the driver re-checks it); cyclic hierarchies make the Python code loop and are outside the generated space",
        "the dumped value is well-formed (`WF`, decided by the driver on every input): unique identities, each pin on at most one wire, wires touch only pins of their own definition's ports and children — i.e. the C01/C02 invariants, which engine `ir` establishes",
        "single query root per call; default patterns (wildcard) and no filter function: pattern matching is C13's",
        "one netlist per process state; the top instance is not wired from outside",
    ]
    ctx.partial_notes = [
        "runtime clause observed, not proved: eviction of the weak flyweight table by the garbage collector (identity `is` and hash equality are checked on references that are simultaneously alive)",
        "completeness halves of the closure theorems carry the decidable hypothesis `finished = true` (work-list emptied within its fuel); the driver reports the flag on every query and the harness turns a false flag into a broken obligation",
    ]
    if not built_ok:
        return
    if ctx.replay:
        with open(os.path.join(ROOT, ctx.replay) if not os.path.isabs(ctx.replay) else ctx.replay) as f:
            j = json.load(f)
        inp = j.get("input", j)
        items = []
        if "recipe" in inp:
            items = [{"recipe": inp["recipe"], "edits": [e[:-1] if e and isinstance(e[-1], str) else e
                                                         for e in inp.get("edits", [])] or None,
                      "pin_edits": inp.get("pin_edits"), "tag": "replay"}]
        shard.run_shards(ctx, _shard, [(pid, ctx.seed, 0, 0, ctx.tier, 120, items), (pid, ctx.seed, 1, 0, ctx.tier, 120, [])])
        return
    corpus = _corpus_items(pid)
    if corpus:
        half = (len(corpus) + 1) // 2
        parts = [corpus[:half], corpus[half:]] if len(corpus) > 1 else [corpus, []]
        shard.run_shards(ctx, _shard, [(pid, ctx.seed, 999 + i, 0, ctx.tier, 120, part) for i, part in enumerate(parts)])
    nshards = 16
    per = ctx.scale(6, 240) if pid == "C11" else ctx.scale(8, 300)
    budget = ctx.scale(45, 800)
    shard.run_shards(ctx, _shard, [(pid, ctx.seed, i, per, ctx.tier, budget, None) for i in range(nshards)])
    # step 3 of the contract: a divergence without a failing input -> search the neighbourhood
    known = set()
    try:
        from common import findings
        known = set(k["signature"] for k in findings.load() if k["property"] == pid and k.get("status") == "open")
    except Exception:  # noqa
        pass
    live_corr = [c for c in ctx.corr if not (c.get("signature") and c["signature"] in known)]
    broken = [o for o in ctx.obligations if not o[1]]
    new_spec = [s for s in ctx.spec if s["signature"] not in known]
    if (live_corr or broken) and not new_spec and ctx.time_left() > 30:
        extra_budget = min(ctx.time_left() - 20, ctx.scale(40, 400))
        shard.run_shards(ctx, _shard, [(pid, ctx.seed + 7919, 100 + i, per * 3, ctx.tier, extra_budget, None)
                                       for i in range(nshards)])
