"""io engine: C15 (rejected input fails cleanly, no process-wide residue) and C16 (writing does not
change the netlist and is repeatable).  Lean side: lean/Spydr/IO/*, driver drv_io.  See docs/io.md."""
import json
import os

from common import lean
from common.ctx import ROOT

ENGINE_DIR = "Spydr/IO"
AUDIT = {"C15": "Spydr/IO/Audit.lean", "C16": "Spydr/IO/AuditC16.lean"}
EXES = ["drv_io"]

MODULES = {
    "C15": ["Spydr.IO.Props.C15", "Spydr.IO.Props.C15Resolve", "Spydr.IO.Props.C15Readers"],
    "C16": ["Spydr.IO.Props.C16"],
}
THEOREMS = {
    "C15": ["Spydr.IO.read_policy_restored_switching", "Spydr.IO.read_policy_restored", "Spydr.IO.read_outcome", "Spydr.IO.unrepaired_leaks",
            "Spydr.IO.run_policy_invariant", "Spydr.IO.trajectory_constant", "Spydr.IO.fresh_process",
            "Spydr.IO.parses_invisible",
            "Spydr.IO.resolved_declared", "Spydr.IO.resolve_complete", "Spydr.IO.out_of_scope_rejected",
            "Spydr.IO.wellScoped_accepted", "Spydr.IO.resolve_iff_wellScoped", "Spydr.IO.resolution_unique",
            "Spydr.IO.dangling_rejected",
            "Spydr.IO.c15_edif_accepts_wellformed", "Spydr.IO.c15_edif_all_instances_referenced",
            "Spydr.IO.c15_edif_names_everything", "Spydr.IO.c15_verilog_accepts_wellformed",
            "Spydr.IO.c15_eblif_pin_mirror", "Spydr.IO.c15_eblif_self_contained"],
    "C16": ["Spydr.IO.toposort_ok", "Spydr.IO.toposort_finishes", "Spydr.IO.toposort_total", "Spydr.IO.toposort_fixpoint", "Spydr.IO.toposort_idem",
            "Spydr.IO.toposort_fuel_irrelevant", "Spydr.IO.topoOrderB_iff",
            "Spydr.IO.edifify_documented_only", "Spydr.IO.edifify_keeps_existing", "Spydr.IO.edifify_finishes", "Spydr.IO.edifify_idem",
            "Spydr.IO.compose_repeatable", "Spydr.IO.pure_writer_unchanged", "Spydr.IO.docEqB_sound"],
}


def load_corpus(pid):
    d = os.path.join(ROOT, "corpus", pid)
    out = []
    if os.path.isdir(d):
        for fn in sorted(os.listdir(d)):
            if fn.endswith(".json"):
                with open(os.path.join(d, fn)) as f:
                    o = json.load(f)
                out.append((fn, o.get("input", o)))
    return out


def run(ctx):
    pid = ctx.pid
    ok = lean.check_obligations(ctx, ENGINE_DIR, MODULES[pid] + (["Spydr.IO.Props.C16"] if pid == "C15" else []), EXES, AUDIT[pid], THEOREMS[pid])
    if ok and ctx.tier == "thorough" and not ctx.replay:
        # the restatements in C15Readers are re-checked by the format engines' own thorough runs
        lean.leanchecker(ctx, [m for m in MODULES[pid] if m != "Spydr.IO.Props.C15Readers"])
    if pid == "C15":
        from engines import io_engine_c15 as eng
    else:
        from engines import io_engine_c16 as eng
    eng.run(ctx)
    # contract step 3: something no longer checks (theorem / build / unexplained correspondence
    # mismatch) but P was not seen to fail: search the neighbourhood of the diverging inputs
    if not ctx.replay and not unexplained_spec(ctx) and (unexplained_corr(ctx) or any(not o[1] for o in ctx.obligations)):
        eng.search(ctx, [c["input"] for c in unexplained_corr(ctx) if c.get("input")][:10])


def _open_sigs(ctx):
    from common import findings
    return {k["signature"] for k in findings.load() if k["property"] == ctx.pid and k.get("status") == "open"}


def unexplained_corr(ctx):
    sigs = _open_sigs(ctx)
    return [c for c in ctx.corr if not (c.get("signature") and c["signature"] in sigs)]


def unexplained_spec(ctx):
    sigs = _open_sigs(ctx)
    return [s for s in ctx.spec if s["signature"] not in sigs]
