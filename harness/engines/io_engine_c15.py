"""C15 — rejected input fails cleanly and leaves no process-wide residue.

Every attempt (one text, one initial policy) runs in its own forked child of a pristine shard
process, with a wall-clock limit; the child reports outcome class, well-formedness of what was
returned, the policy afterwards and the diff of a fixed probe transcript against the fresh-process
transcript.  Correspondence: (a) the policy trajectory of a random history of good and bad parses,
edits and policy assignments in ONE process against the Lean model `trajectory read`; (b) the EDIF
reference-resolution outcome against the Lean model `resolve` on an independently extracted
declaration/reference event stream."""
from common.proc import really_hung
import gc
import json
import os
import random
import select
import shutil
import signal
import sys
import tempfile
import time
import traceback
import warnings

from common import canon, lean, shard
from common.ctx import stable_hash
from engines import io_engine_texts as T
from engines.io_engine import load_corpus

ATTEMPT_TIMEOUT = 20.0
POLICIES = ["DEFAULT", "EDIF"]

SIG_POLICY = {"edif": "edif.parse.policy_not_restored_on_error",
              "verilog": "verilog.parse.policy_not_restored_on_error"}
SIG_DESIGN = "edif.design.undeclared_target_accepted"
SIG_EBLIF_BB = "eblif.parse.blackbox_pins_left_on_removed_cables"


def n_fds():
    try:
        return len(os.listdir("/proc/self/fd"))
    except OSError:
        return -1


def input_fds(path):
    """open descriptors of this process that name `path`"""
    n = 0
    try:
        real = os.path.realpath(path)
        for fd in os.listdir("/proc/self/fd"):
            try:
                if os.path.realpath(os.readlink("/proc/self/fd/" + fd)) == real:
                    n += 1
            except OSError:
                pass
    except OSError:
        return 0
    return n


def family(e):
    if isinstance(e, AssertionError):
        return "assert"
    if isinstance(e, NotImplementedError):
        return "notimplemented"
    if isinstance(e, KeyError):
        return "key"
    if isinstance(e, IndexError):
        return "index"
    if isinstance(e, ValueError):
        return "value"
    if isinstance(e, TypeError):
        return "type"
    if isinstance(e, AttributeError):
        return "attribute"
    if isinstance(e, StopIteration):
        return "stopiteration"
    if isinstance(e, RecursionError):
        return "recursion"
    if isinstance(e, RuntimeError):
        return "runtime"
    if isinstance(e, MemoryError):
        return "memory"
    return "other"


# ------------------------------------------------------------------------------------------------
# fixed good files and the probe script
# ------------------------------------------------------------------------------------------------

def good_texts():
    rng = random.Random(20240515)
    ds = T.abstract_design(rng, n_leaf=(2, 2), n_mid=(2, 2))
    return {fmt: T.RENDER[fmt](ds, random.Random(7)) for fmt in ("edif", "verilog", "eblif")}


def write_good(tmpdir):
    paths = {}
    for fmt, txt in good_texts().items():
        p = os.path.join(tmpdir, "good" + T.EXT[fmt])
        with open(p, "w") as f:
            f.write(txt)
        paths[fmt] = p
    return paths


def probe(good):
    """Fixed script: create elements, name them, provoke collisions, parse a good file of each format,
    run edits.  Returns a transcript (JSON-able list)."""
    import spydrnet as sdn
    from spydrnet.plugins import namespace_manager as nm
    tr = []

    def rec(tag, fn):
        try:
            v = fn()
        except Exception as e:  # noqa
            v = "raise:" + family(e)
        tr.append([tag, v])
        return v
    rec("default", lambda: nm.default)
    gc.collect()
    fd_start = n_fds()
    nl = sdn.Netlist(name="probe")
    rec("netlist.NS", lambda: nl[".NS"])
    lib = nl.create_library(name="lib")
    rec("lib.NS", lambda: lib[".NS"])
    d = lib.create_definition(name="defA")
    leaf = lib.create_definition(name="leaf")
    rec("def.NS", lambda: d[".NS"])
    rec("collide.same", lambda: (lib.create_definition(name="defA"), "accepted")[1])
    rec("collide.case", lambda: (lib.create_definition(name="DEFA"), "accepted")[1])
    rec("ident.odd", lambda: (leaf.__setitem__("EDIF.identifier", "1 odd id"), "accepted")[1])
    rec("ident.case", lambda: (lib.create_definition(name="q1", properties={"EDIF.identifier": "LEAFID"}),
                               lib.create_definition(name="q2", properties={"EDIF.identifier": "leafid"}), "accepted")[2])
    p = leaf.create_port(name="P")
    p.create_pins(2)
    rec("port.NS", lambda: p[".NS"])
    c = d.create_cable(name="c")
    c.create_wires(2)
    i1 = d.create_child(name="i1", reference=leaf)
    rec("inst.NS", lambda: i1[".NS"])
    rec("child.collide", lambda: (d.create_child(name="i1", reference=leaf), "accepted")[1])
    rec("rename.collide", lambda: (d.create_child(name="i2", reference=leaf).__setattr__("name", "i1"), "accepted")[1])
    rec("lookup.name", lambda: [x.name for x in lib.get_definitions("defA")])
    rec("lookup.ident", lambda: sorted(x.name for x in lib.get_definitions("LeafId", key="EDIF.identifier")))
    rec("connect", lambda: (c.wires[0].connect_pin(i1.pins[p.pins[0]]), len(c.wires[0].pins))[1])
    for fmt in ("edif", "verilog", "eblif"):
        def parse_good(fmt=fmt):
            n2 = sdn.parse(good[fmt])
            return [digest(n2), sorted(set(canon.wf_problems(n2)))]
        rec("parse." + fmt, parse_good)
        rec("default.after." + fmt, lambda: nm.default)

    def edit():
        n2 = sdn.parse(good["verilog"])
        top = n2.top_instance.reference
        k = top.children[0]
        other = top.create_child(name="probe_new", reference=k.reference)
        out = [other[".NS"]]
        try:
            other.name = k.name
            out.append("accepted")
        except ValueError:
            out.append("raise:value")
        top.remove_child(other)
        out.append(len(top.children))
        return out
    rec("edit", edit)

    def fds():
        gc.collect()
        return n_fds() - fd_start
    rec("open_files.after_parses", fds)
    rec("orphan.NS", lambda: sdn.Instance()[".NS"])
    rec("default.end", lambda: nm.default)
    return tr


def first_diff(a, b):
    for i, (x, y) in enumerate(zip(a, b)):
        if x != y:
            return {"step": i, "tag": x[0], "got": x[1], "fresh": y[1]}
    if len(a) != len(b):
        return {"step": min(len(a), len(b)), "tag": "length", "got": len(a), "fresh": len(b)}
    return None


# ------------------------------------------------------------------------------------------------
# forked execution with a wall-clock limit
# ------------------------------------------------------------------------------------------------

def forked(fn, timeout):
    """Run fn() in a forked child; returns ("ok", value) | ("hang", None) | ("died", info)."""
    r, w = os.pipe()
    pid = os.fork()
    if pid == 0:
        code = 0
        try:
            os.close(r)
            try:
                import resource
                resource.setrlimit(resource.RLIMIT_AS, (4 << 30, 4 << 30))
            except Exception:
                pass
            sys.setrecursionlimit(3000)
            try:
                val = fn()
                data = json.dumps({"v": val}, default=str).encode()
            except BaseException:
                data = json.dumps({"x": traceback.format_exc()[-1500:]}).encode()
            with os.fdopen(w, "wb") as f:
                f.write(data)
        except BaseException:
            code = 3
        finally:
            os._exit(code)
    os.close(w)
    chunks = []
    t0 = time.time()
    deadline = t0 + timeout
    status = "ok"
    try:
        while True:
            left = deadline - time.time()
            if left <= 0:
                # a loaded machine is not a hang: give up only when the child has really used its CPU budget
                if really_hung(pid, 0.8 * timeout, time.time() - t0, 15 * timeout):
                    status = "hang"
                    break
                deadline = time.time() + timeout / 2.0
                continue
            rl, _, _ = select.select([r], [], [], left)
            if not rl:
                continue
            b = os.read(r, 65536)
            if not b:
                break
            chunks.append(b)
    finally:
        os.close(r)
        if status == "hang":
            try:
                os.kill(pid, signal.SIGKILL)
            except OSError:
                pass
        try:
            os.waitpid(pid, 0)
        except OSError:
            pass
    if status == "hang":
        return "hang", None
    try:
        o = json.loads(b"".join(chunks).decode())
    except Exception:
        return "died", "no result from child"
    if "x" in o:
        return "died", o["x"]
    return "ok", o["v"]


BB_PROBLEMS = {"inner pin wired outside its definition", "outer pin wired outside the instance's parent"}


def wf_report(nl, fmt):
    """(n_bb, other): number of problems that are the pattern of the pinned EBLIF finding (`.blackbox`
    removes the model's cables but leaves pins on their wires) and the sorted set of all other
    problem strings."""
    pr = canon.wf_problems(nl, limit=100000)
    if not pr:
        return 0, []
    n = 0
    if fmt == "eblif":
        for lib in nl.libraries:
            for d in lib.definitions:
                pins = [q for p in d.ports for q in p.pins] + [o for k in d.children for o in k.pins.values()]
                for q in pins:
                    w = q.wire
                    if w is not None and w.cable is not None and w.cable.definition is None:
                        n += 1
    n_cls = sum(1 for x in pr if x in BB_PROBLEMS)
    other = sorted(set(x for x in pr if x not in BB_PROBLEMS))
    if n_cls != n:
        other = sorted(set(pr))
        n = 0
    return n, other


def digest(nl):
    """order-insensitive where the readers iterate Python sets (black-box definitions are added in
    set order): definitions sorted by name inside each library."""
    out = {"name": nl.name, "top": None if nl.top_instance is None else [nl.top_instance.name, nl.top_instance.reference.name if nl.top_instance.reference else None,
                                                                        nl.top_instance[".NS"] if ".NS" in nl.top_instance else None],
           "ns": nl[".NS"] if ".NS" in nl else None, "libs": []}
    for lib in nl.libraries:
        ds = []
        for d in lib.definitions:
            ds.append([d.name, d[".NS"] if ".NS" in d else None,
                       [[p.name, str(p.direction), len(p.pins), p[".NS"] if ".NS" in p else None] for p in d.ports],
                       [[c.name, len(c.wires), [len(w.pins) for w in c.wires]] for c in d.cables],
                       [[k.name, k.reference.name if k.reference else None, k[".NS"] if ".NS" in k else None] for k in d.children]])
        ds.sort(key=lambda x: json.dumps(x))
        out["libs"].append([lib.name, lib[".NS"] if ".NS" in lib else None, ds])
    return stable_hash(out)


def attempt_body(fmt, path, policy0, good, fresh):
    """Runs in the child."""
    import spydrnet as sdn
    from spydrnet.plugins import namespace_manager as nm
    nm.default = policy0
    t0 = time.time()
    res = {}
    gc.freeze()  # child of a fork: everything inherited is permanent, later collections only scan what the call made
    fd0 = n_fds()
    kept = []
    with warnings.catch_warnings(record=True) as wl:
        warnings.simplefilter("always")
        try:
            nl = sdn.parse(path)
            res["outcome"] = "ok"
            res["wf_bb"], res["wf"] = wf_report(nl, fmt)
            res["has_top"] = nl.top_instance is not None
            if fmt == "edif":
                try:
                    from engines import io_engine_resolve
                    res["refs"] = io_engine_resolve.impl_refs(nl)
                except Exception:  # noqa
                    res["refs"] = None
            res["size"] = sum(len(l.definitions) for l in nl.libraries)
        except Exception as e:  # noqa
            res["outcome"] = "raise"
            res["family"] = family(e)
            kept.append(e)   # a caller may keep what was raised: log it, re-raise it later, show the traceback
        # while the raised exception (and with it the frames of the reader) is still alive: the reader
        # must have closed its input by the time it raises
        res["input_open"] = input_fds(path)
        kept.clear()
        nl = None
        gc.collect()
    # open streams the call left behind once nothing refers to its objects any more
    res["fd_delta"] = n_fds() - fd0
    res["resource_warnings"] = sum(1 for w in wl if issubclass(w.category, ResourceWarning))
    res["ms"] = int((time.time() - t0) * 1000)
    res["policy_after"] = nm.default
    if fresh is not None:
        raw = first_diff(probe(good), fresh)
        res["probe_raw"] = raw
        if res["policy_after"] != policy0:
            nm.default = policy0
            res["probe_reset"] = first_diff(probe(good), fresh)
    return res


def run_attempt(inp, tmpdir, good, fresh_by_policy, timeout=ATTEMPT_TIMEOUT):
    fmt = inp["fmt"]
    path = os.path.join(tmpdir, "attempt" + T.EXT[fmt])
    with open(path, "w") as f:
        f.write(inp["text"])
    fresh = fresh_by_policy.get(inp["policy0"]) if inp.get("probe", True) else None  # None: probe unavailable
    st, val = forked(lambda: attempt_body(fmt, path, inp["policy0"], good, fresh), timeout)
    if st == "hang":
        st, val = forked(lambda: attempt_body(fmt, path, inp["policy0"], good, fresh), timeout * 2)
        if st == "hang":
            return {"outcome": "hang"}
    if st == "died":
        return {"outcome": "died", "info": val}
    return val


def judge_attempt(sr, inp, res):
    """Evaluate P on the implementation's observed behaviour; report failures to `sr`."""
    fmt = inp["fmt"]
    c = inp.get("corruption", {"kind": "none"})
    kind = c["kind"]
    brief = {k: inp[k] for k in ("fmt", "policy0", "corruption", "origin") if k in inp}
    brief["kind"] = "attempt"
    brief["text"] = inp["text"]
    out = res["outcome"]
    sr.dist("%s.%s.%s" % (fmt, kind, out if out != "raise" else "raise." + res.get("family", "?")))
    # scope of the cited reader theorems (readX text = ok n -> well-formed n), counters only
    scope = "theorem_scope:c15_%s_accepts_wellformed:" % fmt
    if out == "raise":
        sr.dist(scope + "rejected")
    elif out == "ok":
        sr.dist(scope + ("observed" if not res.get("wf") and not res.get("wf_bb") else "accepted_conclusion_not_observed"))
    if out == "died":
        sr["obligations"].append(("attempt child ran without internal error", False, str(res.get("info"))[-800:]))
        return
    if out == "hang":
        sr.spec_failure("%s.parse.hang" % fmt, brief,
                        "the input neither fails nor is accepted: no return within %d s, and again none within %d s (the unchanged readers answer in milliseconds)"
                        % (int(ATTEMPT_TIMEOUT), int(ATTEMPT_TIMEOUT * 2)))
        return
    if out == "ok":
        if res.get("wf_bb"):
            sr.spec_failure(SIG_EBLIF_BB, brief, "returned structure is not well-formed: %d pin(s) still connected to wires of cables that were removed from their definition" % res["wf_bb"])
        if res["wf"]:
            sig = "%s.parse.returns_malformed.%s" % (fmt, res["wf"][0].replace(" ", "_"))
            sr.spec_failure(sig, brief, "returned structure is not well-formed: %s" % res["wf"])
        if kind == "retarget":
            ref = c.get("ref", "ref")
            sig = SIG_DESIGN if ref.startswith("design.") else "edif.%s.undeclared_target_accepted" % ref
            sr.spec_failure(sig, brief, "reference %s retargeted to an undeclared name was accepted" % ref)
        if kind == "rescope" and c.get("expect") == "raise":
            sr.spec_failure("edif.%s.out_of_scope_target_accepted" % c.get("ref", "ref"), brief,
                            "reference %s retargeted to %r, which is declared in the file but not in the scope the reference is resolved in, was accepted"
                            % (c.get("ref"), c.get("with")))
        if kind == "unsupported":
            sr.spec_failure("edif.unsupported_construct_accepted.%s" % c["with"].strip("()").split()[0], brief,
                            "unsupported construct %s was accepted" % c["with"])
        if kind == "none" and not res.get("has_top", True) and fmt != "eblif":
            pass
    if res.get("input_open", 0) > 0:
        sr.spec_failure("%s.parse.input_left_open_on_%s" % (fmt, "rejection" if out == "raise" else "return"), brief,
                        "%d descriptor(s) on the input file still open when sdn.parse %s (the raised exception kept alive by the caller)"
                        % (res["input_open"], "raised" if out == "raise" else "returned"))
    if res.get("fd_delta", 0) > 0:
        sr.spec_failure("%s.parse.leaves_file_open" % fmt, brief,
                        "%d more open file descriptor(s) after the call than before it (after gc.collect())" % res["fd_delta"])
    if res.get("resource_warnings"):
        sr.dist("%s.observation.unclosed_stream_until_gc" % fmt)
    if res["policy_after"] != inp["policy0"]:
        if out == "raise" and fmt in SIG_POLICY:
            sig = SIG_POLICY[fmt]
        else:
            sig = "%s.parse.policy_not_restored_on_%s" % (fmt, "error" if out == "raise" else "success")
        sr.spec_failure(sig, brief, "namespace_manager.default was %s before the call and %s after it (%s); probe transcript first differs at %s"
                        % (inp["policy0"], res["policy_after"], out, json.dumps(res.get("probe_raw"))))
        if res.get("probe_reset") is not None:
            sr.spec_failure("%s.parse.residue_beyond_policy" % fmt, brief,
                            "after resetting the policy by hand the probe still differs from a fresh process: %s" % json.dumps(res["probe_reset"]))
    elif res.get("probe_raw") is not None:
        sr.spec_failure("%s.parse.residue_beyond_policy" % fmt, brief,
                        "policy restored, but the probe transcript differs from a fresh process: %s" % json.dumps(res["probe_raw"]))


# ------------------------------------------------------------------------------------------------
# correspondence (a): policy trajectory of a history in ONE process
# ------------------------------------------------------------------------------------------------

def history_body(ops, policy0, tmpdir):
    import spydrnet as sdn
    from spydrnet.plugins import namespace_manager as nm
    nm.default = policy0
    out = []
    for k, op in enumerate(ops):
        o = {}
        if op["op"] == "parse":
            p = os.path.join(tmpdir, "h%d%s" % (k, T.EXT[op["fmt"]]))
            with open(p, "w") as f:
                f.write(op["text"])
            try:
                nl = sdn.parse(p)
                o["fails"] = False
                o["ns"] = nl[".NS"] if ".NS" in nl else None
            except Exception as e:  # noqa
                o["fails"] = True
                o["family"] = family(e)
        elif op["op"] == "create":
            o["created"] = sdn.Definition()[".NS"]
        elif op["op"] == "set":
            nm.default = op["policy"]
        o["policy"] = nm.default
        out.append(o)
    return out


def model_ops(ops, obs):
    m = []
    for op, o in zip(ops, obs):
        if op["op"] == "parse":
            m.append({"op": "parse", "fmt": op["fmt"], "fails": bool(o["fails"])})
        elif op["op"] == "create":
            m.append({"op": "create"})
        else:
            m.append({"op": "set", "policy": op["policy"]})
    return m


def judge_history(sr, drv, inp, obs):
    ops = inp["ops"]
    mops = model_ops(ops, obs)
    impl = [o["policy"] for o in obs]
    brief = {"kind": "history", "policy0": inp["policy0"], "ops": ops}
    # P on the implementation: the driver's Spec predicate on the observed trajectory
    r = drv.ask({"fn": "clean", "policy0": inp["policy0"], "ops": mops, "traj": impl})
    if "error" in r:
        sr["obligations"].append(("driver answered clean", False, str(r)))
        return
    if not r["clean"]:
        k = r["first_bad"]
        op = mops[k]
        if op["op"] == "parse" and op["fails"] and op["fmt"] in SIG_POLICY:
            sig = SIG_POLICY[op["fmt"]]
        elif op["op"] == "parse":
            sig = "%s.parse.policy_not_restored_on_%s" % (op["fmt"], "error" if op["fails"] else "success")
        else:
            sig = "history.%s.changes_policy" % op["op"]
        small = {"kind": "history", "policy0": (impl[k - 1] if k else inp["policy0"]), "ops": [ops[k]]}
        sr.spec_failure(sig, small, "in a history of %d calls, call %d (%s) changed the policy from %s to %s"
                        % (len(ops), k, json.dumps(mops[k]), small["policy0"], impl[k]))
    # correspondence with resynchronisation after each divergence
    start, p0 = 0, inp["policy0"]
    created_impl = [o["created"] for o in obs if "created" in o]
    n_created = 0
    while start < len(ops):
        seg = mops[start:]
        m = drv.ask({"fn": "traj", "policy0": p0, "ops": seg})
        if "error" in m:
            sr["obligations"].append(("driver answered traj", False, str(m)))
            return
        mt = m["traj"]
        it = impl[start:]
        div = next((i for i in range(len(seg)) if mt[i] != it[i]), None)
        upto = len(seg) if div is None else div + 1
        # created observations of the agreeing part
        ci = [o["created"] for o in obs[start:start + upto] if "created" in o]
        cm = m["created"][:len(ci)]
        if ci != cm:
            sr.corr_mismatch("trajectory read: what create() observes", brief, ci, cm)
        if div is None:
            break
        op = seg[div]
        u = drv.ask({"fn": "traj", "policy0": (it[div - 1] if div else p0), "ops": [op], "unrepaired": True})
        sig = None
        if op["op"] == "parse" and op["fails"] and op["fmt"] in SIG_POLICY and u.get("traj") == [it[div]]:
            sig = SIG_POLICY[op["fmt"]]
        sr.corr_mismatch("trajectory read = policy after each call", {"kind": "history", "policy0": (it[div - 1] if div else p0), "ops": [ops[start + div]]},
                         it[div], mt[div], signature=sig)
        p0 = it[div]
        start = start + div + 1
    sr.case(stable_hash(mops), nontrivial=sum(1 for o in mops if o["op"] == "parse") >= 2)
    sr.dist("history.len%d" % (len(ops) // 10 * 10))
    for o in mops:
        if o["op"] == "parse":
            sr.dist("history.parse.%s.%s" % (o["fmt"], "fails" if o["fails"] else "ok"))


# ------------------------------------------------------------------------------------------------
# input generation
# ------------------------------------------------------------------------------------------------

def base_texts(rng, n_gen, repo, sizes):
    recs = []
    for k in range(n_gen):
        ds = T.abstract_design(rng, **sizes)
        for fmt in ("edif", "verilog", "eblif"):
            recs.append({"fmt": fmt, "origin": "gen%d" % k, "text": T.RENDER[fmt](ds, rng)})
    return recs


def composed_texts(rng, n, tmpdir):
    """EDIF texts written by the real composer from API-built netlists (in a forked child: composing
    is not our subject here and must not touch the shard's process state)."""
    def body():
        import spydrnet as sdn
        from common import gen
        out = []
        for k in range(n):
            nl = gen.gen_netlist(rng, n_leaf=(1, 2), n_mid=(1, 2), max_children=2, max_ports=2, data=False)
            p = os.path.join(tmpdir, "c%d.edf" % k)
            sdn.compose(nl, p)
            with open(p) as f:
                out.append(f.read())
        return out
    st, val = forked(body, 60)
    if st != "ok":
        return []
    return [{"fmt": "edif", "origin": "composed%d" % k, "text": t} for k, t in enumerate(val)]


def policy_for(fmt, rng):
    # the policy a failing EDIF parse leaks is EDIF, a failing Verilog parse leaks DEFAULT: start
    # mostly from the other one so that a leak is visible
    if fmt == "edif":
        return "DEFAULT" if rng.random() < 0.8 else "EDIF"
    return "EDIF" if rng.random() < 0.7 else "DEFAULT"


def make_attempts(rec, rng, sample, probe_frac, n_replace):
    cs = T.corruptions(rec, rng=rng, sample=sample, n_replace=n_replace)
    out = [{"kind": "attempt", "fmt": rec["fmt"], "origin": rec["origin"], "text": rec["text"],
            "corruption": {"kind": "none", "pos": 0}, "policy0": p, "probe": True} for p in POLICIES]
    for c in cs:
        text = T.apply(rec, c)
        if c.get("must"):
            # never sampled away, both initial policies (one for the lexical stress), always with the fresh-process probe
            for p in ([policy_for(rec["fmt"], rng)] if c.get("one_policy") else POLICIES):
                out.append({"kind": "attempt", "fmt": rec["fmt"], "origin": rec["origin"], "text": text,
                            "corruption": c, "policy0": p, "probe": True})
        else:
            out.append({"kind": "attempt", "fmt": rec["fmt"], "origin": rec["origin"], "text": text,
                        "corruption": c, "policy0": policy_for(rec["fmt"], rng), "probe": rng.random() < probe_frac})
    return out


def edge_attempts():
    """nothing, blanks, only a comment: every format, both policies, every tier"""
    out = []
    for fmt in ("edif", "verilog", "eblif"):
        for name, text in T.EDGE_TEXTS[fmt]:
            for p in POLICIES:
                out.append({"kind": "attempt", "fmt": fmt, "origin": "edge", "text": text,
                            "corruption": {"kind": "edge", "pos": 0, "name": name, "text": text}, "policy0": p, "probe": True})
    return out


def make_history(rng, recs, n_ops):
    ops = []
    for _ in range(n_ops):
        x = rng.random()
        if x < 0.6:
            rec = rng.choice(recs)
            y = rng.random()
            if y < 0.45:
                txt = rec["text"]
            elif y < 0.6:
                txt = rng.choice(T.EDGE_TEXTS[rec["fmt"]])[1]
            elif y < 0.7:
                cs = [c for c in T.corruptions(rec, rng=rng, sample=0, n_replace=1) if c.get("must")]
                txt = T.apply(rec, rng.choice(cs)) if cs else rec["text"]
            else:
                cs = T.corruptions(rec, rng=rng, sample=8, n_replace=1)
                txt = T.apply(rec, rng.choice(cs))
            ops.append({"op": "parse", "fmt": rec["fmt"], "text": txt})
        elif x < 0.85:
            ops.append({"op": "create"})
        else:
            ops.append({"op": "set", "policy": rng.choice(POLICIES)})
    return {"kind": "history", "policy0": rng.choice(POLICIES), "ops": ops}


# ------------------------------------------------------------------------------------------------
# shard worker
# ------------------------------------------------------------------------------------------------

def shard_worker(jobs, deadline, shard_id):
    sr = shard.ShardResult()
    tmpdir = tempfile.mkdtemp(prefix="verif_io_c15_")
    drv = None
    try:
        good = write_good(tmpdir)
        fresh = {}
        for p in POLICIES:
            def fresh_body(p=p):
                from spydrnet.plugins import namespace_manager as nm
                nm.default = p
                return probe(good)
            st, val = forked(fresh_body, 90)
            if st == "hang":
                # the probe parses a good file of each format: a hang here is a hang on valid input
                sr.spec_failure("probe.fresh_process_hangs", {"kind": "probe", "policy0": p},
                                "the probe script (valid files only) did not finish in a fresh process")
                fresh[p] = None
                continue
            if st != "ok":
                sr["obligations"].append(("fresh-process probe transcript computed", False, str(val)[-500:]))
                return sr
            # JSON round trip so that the comparison in the child sees the same types
            fresh[p] = json.loads(json.dumps(val))
        drv = lean.Driver("drv_io")
        hangs = 0
        for inp in jobs:
            if time.time() > deadline:
                sr.dist("budget.cut")
                continue
            if inp["kind"] == "attempt":
                if hangs >= 2 and inp.get("corruption", {}).get("kind") == "longid":
                    sr.dist("skipped.longid_after_two_hangs")   # each hang costs a minute; two replays are enough
                    continue
                res = run_attempt(inp, tmpdir, good, fresh)
                if res.get("outcome") == "hang":
                    hangs += 1
                judge_attempt(sr, inp, res)
                c = inp.get("corruption", {"kind": "none"})
                sr.case(stable_hash([inp["fmt"], inp["text"], inp["policy0"]]), nontrivial=len(inp["text"]) > 200)
                if c["kind"] != "none":
                    sr.sample({"fmt": inp["fmt"], "corruption": c, "origin": inp.get("origin"), "outcome": res.get("outcome"),
                               "family": res.get("family")}, cap=2)
                if inp["fmt"] == "edif" and inp.get("resolve", True) and res.get("outcome") in ("ok", "raise"):
                    from engines import io_engine_resolve
                    io_engine_resolve.check(sr, drv, inp, res)
            elif inp["kind"] == "history":
                hd = tempfile.mkdtemp(prefix="h_", dir=tmpdir)
                st, obs = forked(lambda: history_body(inp["ops"], inp["policy0"], hd), ATTEMPT_TIMEOUT * 3)
                shutil.rmtree(hd, ignore_errors=True)
                if st == "hang":
                    sr.spec_failure("history.hang", inp, "history of %d calls did not finish" % len(inp["ops"]))
                elif st == "died":
                    sr["obligations"].append(("history child ran without internal error", False, str(obs)[-800:]))
                else:
                    judge_history(sr, drv, inp, obs)
    finally:
        if drv is not None:
            drv.close()
        shutil.rmtree(tmpdir, ignore_errors=True)
    return sr


def check_readonly_assumption(ctx, repo):
    """the model types the EBLIF parse body as policy-read-only (ModelRead.ROBody): re-check the
    syntactic fact it rests on"""
    bad = []
    for fn in ("eblif_parser.py", "eblif_tokenizer.py", "eblif_tokens.py"):
        p = os.path.join(repo, "spydrnet", "parsers", "eblif", fn)
        try:
            with open(p) as f:
                src = f.read()
        except OSError:
            continue
        if "namespace_manager" in src or "NamespaceManager" in src:
            bad.append(fn)
    ctx.obligation("modelling assumption ReadOnly: the EBLIF reader's source never names namespace_manager", not bad, ", ".join(bad))


def run(ctx):
    from common.ctx import REPO
    check_readonly_assumption(ctx, REPO)
    rng = ctx.rng("c15")
    jobs = []
    # 1. corpus / replay
    if ctx.replay:
        with open(ctx.replay if os.path.isabs(ctx.replay) else os.path.join(os.environ.get("VERIF_ROOT", "."), ctx.replay)) as f:
            o = json.load(f)
        jobs = [o.get("input", o)]
        if jobs[0].get("kind") == "attempt":
            jobs[0]["probe"] = True
    else:
        corpus = [inp for _, inp in load_corpus("C15")]
        for inp in corpus:
            if inp.get("kind") == "attempt":
                inp["probe"] = True
        jobs.extend(corpus)
        tmp = tempfile.mkdtemp(prefix="verif_io_c15_gen_")
        try:
            n_gen = ctx.scale(3, 8)
            sizes = dict(n_leaf=(1, 2), n_mid=(1, 2), max_ports=2, max_children=2) if ctx.tier == "quick" else \
                dict(n_leaf=(1, 3), n_mid=(1, 3), max_ports=3, max_children=3)
            recs = base_texts(rng, n_gen, REPO, sizes)
            recs.append({"fmt": "edif", "origin": "fixed:scopes", "text": T.EDIF_SCOPES, "full_refs": True})
            recs.append({"fmt": "verilog", "origin": "fixed:verilog", "text": T.VERILOG_FIXED, "full_truncate": True})
            recs.append({"fmt": "eblif", "origin": "fixed:eblif", "text": T.EBLIF_FIXED, "full_truncate": True})
            recs += composed_texts(rng, ctx.scale(2, 5), tmp)
            for fmt in ("edif", "verilog", "eblif"):
                b = T.bundled_texts(REPO, fmt)
                if ctx.tier == "quick":
                    b = b[:2]
                recs += b
        finally:
            shutil.rmtree(tmp, ignore_errors=True)
        jobs.extend(edge_attempts())
        sample = ctx.scale(120, None)
        for rec in recs:
            ntok = len(T.SPANS[rec["fmt"]](rec["text"]))
            ctx.dist("text.%s.tokens%d" % (rec["fmt"], min(ntok // 200 * 200, 1000)))
            jobs.extend(make_attempts(rec, rng, sample, ctx.scale(0.5, 0.35), ctx.scale(2, 3)))
        small = [r for r in recs if len(r["text"]) < 5000]
        for _ in range(ctx.scale(24, 160)):
            jobs.append(make_history(rng, small, rng.randint(6, 40)))
    ctx.rule = ("attempt = (format, text, initial policy): every valid text from independent generators of the three formats, "
                "EDIF written by the real composer and small bundled examples x single corruptions (truncate at / delete / duplicate / "
                "replace each token, retarget each EDIF reference to an undeclared name, insert each unsupported EDIF construct); "
                "all positions in thorough, a seeded class-balanced sample in quick; each in its own forked child with a wall-clock limit. "
                "history = random sequence of good/bad parses, create() and policy assignments in one process. "
                "distinct = distinct (format,text,policy) / distinct model-level histories; non-trivial = text > 200 chars / >= 2 parses")
    ctx.assumptions += [
        "parse bodies are abstract in the model: the theorems hold for every body (any failure point); that the real bodies do not assign the policy themselves (needed for EBLIF, which does not switch) is observed by the trajectory correspondence, not proved",
        "'never hangs' is observed with a per-input wall-clock limit (%ds, retried once with 2x) on CPython; the model is total by construction" % int(ATTEMPT_TIMEOUT),
        "process-wide residue other than the policy is searched for by a fixed probe script compared with a fresh-process transcript; it is not enumerated from the source",
    ]
    ctx.partial_notes += ["partial: termination of the real interpreter is observed (timeout), not proved"]
    if not ctx.replay:
        rng.shuffle(jobs)

        def prio(j):
            c = j.get("corruption", {})
            if j.get("origin") == "pinned" or c.get("kind") in ("edge", "none"):
                return 0
            if c.get("must"):
                # the cheap deterministic detectors first: lexical states, long identifiers, text edges
                if c.get("kind") in ("lexstate", "longid", "retarget", "rescope", "dupname", "dupid"):
                    return 1
                if c.get("kind") == "truncate" and c.get("one_policy"):
                    return 1.1   # a failure at every point of the fixed texts: the general residue detector
                return 1.2 if not c.get("one_policy") else 1.5
            if j.get("kind") == "history":
                return 2
            return 3
        jobs.sort(key=prio)  # stable: what must always run comes first in every shard
    nshards = 1 if len(jobs) <= 4 else min(48, max(16, len(jobs) // 400))
    chunks = [jobs[i::nshards] for i in range(nshards)]
    # quick: stop generating after ~65 s whatever the machine load (the cut is recorded as budget.cut)
    deadline = time.time() + (max(30.0, min(ctx.time_left() - 25, 65.0 - (time.time() - ctx.t0))) if ctx.tier == "quick"
                              else max(30.0, ctx.time_left() - 120))
    shard.run_shards(ctx, shard_worker, [(c, deadline, i) for i, c in enumerate(chunks) if c])


def search(ctx, diverging):
    """neighbourhood search: every corruption class around the diverging inputs' texts, both initial
    policies, plus a fresh batch of random texts (10x a quick batch, within the remaining budget)."""
    from common.ctx import REPO
    rng = ctx.rng("c15-search")
    recs = []
    for inp in diverging:
        if inp.get("kind") == "attempt":
            recs.append({"fmt": inp["fmt"], "origin": "search", "text": inp["text"]})
        elif inp.get("kind") == "history":
            for op in inp.get("ops", []):
                if op.get("op") == "parse":
                    recs.append({"fmt": op["fmt"], "origin": "search", "text": op["text"]})
    recs += base_texts(rng, 10, REPO, dict(n_leaf=(1, 2), n_mid=(1, 2), max_ports=2, max_children=2))
    jobs = []
    for rec in recs[:40]:
        for a in make_attempts(rec, rng, 300, 1.0, 3):
            jobs.append(a)
            b = dict(a)
            b["policy0"] = "EDIF" if a["policy0"] == "DEFAULT" else "DEFAULT"
            jobs.append(b)
    small = [r for r in recs if len(r["text"]) < 5000]
    for _ in range(100):
        jobs.append(make_history(rng, small, rng.randint(6, 40)))
    ctx.dist("search.jobs", len(jobs))
    nshards = 32
    deadline = time.time() + max(20.0, ctx.time_left() - 20)
    shard.run_shards(ctx, shard_worker, [(jobs[i::nshards], deadline, 1000 + i) for i in range(nshards) if jobs[i::nshards]])
