"""C16 — writing a netlist does not change it (beyond the documented EDIF effects) and is repeatable.

One case = (netlist source, target format, options).  It runs in a forked child with a wall-clock
limit: build the netlist, take an identity-level snapshot, compose, snapshot, compose again at once,
run read-only queries, compose a third time; observe warnings, open file descriptors and the files.
The parent evaluates the Lean Spec (`docEqB`, `topoOrderB`) on the implementation's own snapshots and
compares the after-snapshot with the Lean model `edifify` run on the before-snapshot under the same
set-iteration oracle and the identifiers the implementation chose."""
import gc
import json
import os
import random
import re
import shutil
import tempfile
import time
import warnings

from common import canon, lean, shard
from common.ctx import stable_hash
from engines import io_engine_texts as T
from engines.io_engine import load_corpus
from engines.io_engine_c15 import forked, family

CASE_TIMEOUT = 40.0
EXT = {"edif": ".edf", "verilog": ".v", "eblif": ".eblif"}
SIG_EBLIF_TYPE = "eblif.compose.stores_EBLIF_type_on_instances"
SIG_VERILOG_OPEN = "verilog.compose.output_file_left_open"


# ------------------------------------------------------------------------------------------------
# snapshot: the ENet value of Spydr/IO/ModelEdifify.lean, identity-level through labels
# ------------------------------------------------------------------------------------------------

class Labels:
    def __init__(self):
        self.by_id = {}
        self.keep = []

    def of(self, obj):
        if obj is None:
            return None
        k = id(obj)
        if k not in self.by_id:
            self.by_id[k] = len(self.keep)
            self.keep.append(obj)
        return self.by_id[k]


def _data(e):
    return [[str(k), json.dumps(canon.jval(v), sort_keys=True)] for k, v in e._data.items() if k != ".NAME"]


def _nm(e):
    n = e._data.get(".NAME")
    # names are carried as JSON text, like data values, so that the model's `rename != name` test
    # compares like with like
    return json.dumps(n) if isinstance(n, str) else "\u0000" + repr(n)


def _elem(L, e, rest):
    return {"name": _nm(e), "data": _data(e), "extra": "%d|%s" % (L.of(e), json.dumps(rest))}


def snapshot(nl, L):
    libs = []
    for lib in nl._libraries:
        defs = []
        for d in lib._definitions:
            ports = [_elem(L, p, [canon.dir_name(p), len(p._pins), bool(p.is_scalar), p._lower_index, bool(p._is_downto),
                                  [L.of(q) for q in p._pins], [L.of(q._port) for q in p._pins], [L.of(q._wire) for q in p._pins],
                                  L.of(p._definition)]) for p in d._ports]
            cables = [_elem(L, c, [bool(c.is_scalar), c._lower_index, bool(c._is_downto), L.of(c._definition),
                                   [[L.of(w), L.of(w._cable), [L.of(x) for x in w._pins]] for w in c._wires]]) for c in d._cables]
            insts = [_elem(L, k, [L.of(k._reference), L.of(k._parent),
                                  [[L.of(q), L.of(o), L.of(o._wire), L.of(o._instance), L.of(o._inner_pin)] for q, o in k._pins.items()]])
                     for k in d._children]
            defs.append({"id": L.of(d), "self": _elem(L, d, [L.of(d._library), sorted(L.of(i) for i in d._references)]),
                         "ports": ports, "cables": cables, "insts": insts})
        libs.append({"id": L.of(lib), "self": _elem(L, lib, [L.of(lib._netlist)]), "defs": defs})
    t = nl._top_instance
    if t is None:
        top = {"name": "\u0000notop", "data": [], "extra": "-1|null"}
    else:
        top = _elem(L, t, [L.of(t._reference), L.of(t._parent)])
    name = nl._data.get(".NAME")
    return {"name": json.dumps(name) if isinstance(name, str) else None, "data": _data(nl), "top": top, "libs": libs}


def data_shapes(nl, L):
    """identity and order of every container stored as a data value (the same list / dict objects must
    still be there, with their elements and keys in the same order), per element and key"""
    def shape(v):
        if isinstance(v, list):
            return ["L", L.of(v), [shape(x) for x in v]]
        if isinstance(v, tuple):
            return ["T", [shape(x) for x in v]]
        if isinstance(v, dict):
            return ["D", L.of(v), [[str(k), shape(x)] for k, x in v.items()]]
        if isinstance(v, (set, frozenset)):
            return ["S", L.of(v), sorted(repr(x) for x in v)]
        return repr(v)
    out = []

    def visit(e):
        for k, v in e._data.items():
            if isinstance(v, (list, dict, set, tuple)):
                out.append([L.of(e), str(k), shape(v)])
    visit(nl)
    if nl._top_instance is not None:
        visit(nl._top_instance)
    for lib in nl._libraries:
        visit(lib)
        for d in lib._definitions:
            visit(d)
            for x in list(d._ports) + list(d._cables) + list(d._children):
                visit(x)
    out.sort(key=lambda r: (r[0], r[1]))
    return out


def snap_diff(a, b, path=""):
    """first difference of two snapshots, as a short string"""
    if type(a) is not type(b):
        return "%s: %r vs %r" % (path, a, b)
    if isinstance(a, dict):
        for k in a:
            if k not in b:
                return "%s.%s missing" % (path, k)
            d = snap_diff(a[k], b[k], path + "." + k)
            if d:
                return d
        for k in b:
            if k not in a:
                return "%s.%s added" % (path, k)
        return None
    if isinstance(a, list):
        if len(a) != len(b):
            return "%s: length %d vs %d" % (path, len(a), len(b))
        for i, (x, y) in enumerate(zip(a, b)):
            d = snap_diff(x, y, "%s[%d]" % (path, i))
            if d:
                return d
        return None
    return None if a == b else "%s: %r vs %r" % (path, a, b)


def classify_diff(s0, s1):
    """Which elements' data changed and how: {(kind, key, change)}; structure change -> 'structure'."""
    out = set()

    def cmp_elem(kind, x, y):
        if x["name"] != y["name"] or x["extra"] != y["extra"]:
            out.add((kind, "", "structure"))
        dx, dy = dict(x["data"]), dict(y["data"])
        for k in dy:
            if k not in dx:
                out.add((kind, k, "added"))
            elif dx[k] != dy[k]:
                out.add((kind, k, "changed"))
        for k in dx:
            if k not in dy:
                out.add((kind, k, "removed"))
        if [k for k, _ in x["data"] if k in dy] != [k for k, _ in y["data"] if k in dx]:
            out.add((kind, "", "data-order"))
    if s0["name"] != s1["name"]:
        out.add(("netlist", ".NAME", "changed"))
    cmp_elem("netlist", {"name": "", "extra": "", "data": s0["data"]}, {"name": "", "extra": "", "data": s1["data"]})
    cmp_elem("top", s0["top"], s1["top"])
    if [l["id"] for l in s0["libs"]] != [l["id"] for l in s1["libs"]]:
        out.add(("netlist", "", "library-order" if sorted(l["id"] for l in s0["libs"]) == sorted(l["id"] for l in s1["libs"]) else "structure"))
    b1 = {l["id"]: l for l in s1["libs"]}
    for l0 in s0["libs"]:
        l1 = b1.get(l0["id"])
        if l1 is None:
            continue
        cmp_elem("library", l0["self"], l1["self"])
        if [d["id"] for d in l0["defs"]] != [d["id"] for d in l1["defs"]]:
            out.add(("library", "", "definition-order" if sorted(d["id"] for d in l0["defs"]) == sorted(d["id"] for d in l1["defs"]) else "structure"))
        d1s = {d["id"]: d for d in l1["defs"]}
        for d0 in l0["defs"]:
            d1 = d1s.get(d0["id"])
            if d1 is None:
                continue
            cmp_elem("definition", d0["self"], d1["self"])
            for kind in ("ports", "cables", "insts"):
                if len(d0[kind]) != len(d1[kind]):
                    out.add((kind, "", "structure"))
                    continue
                for x, y in zip(d0[kind], d1[kind]):
                    cmp_elem(kind[:-1], x, y)
    return out


# ------------------------------------------------------------------------------------------------
# netlist sources
# ------------------------------------------------------------------------------------------------

def lib_graph_acyclic(nl):
    """the writer's two dependency graphs must be acyclic for the netlist to be EDIF-composable"""
    def acyclic(nodes, succ):
        state = {}
        for n0 in nodes:
            if id(n0) in state:
                continue
            stack = [(n0, iter(succ(n0)))]
            state[id(n0)] = 1
            while stack:
                n, it = stack[-1]
                nxt = next(it, None)
                if nxt is None:
                    state[id(n)] = 2
                    stack.pop()
                elif state.get(id(nxt)) == 1:
                    return False
                elif id(nxt) not in state:
                    state[id(nxt)] = 1
                    stack.append((nxt, iter(succ(nxt))))
        return True

    def lib_succ(lib):
        return [c.reference.library for d in lib.definitions for c in d.children
                if c.reference is not None and c.reference.library is not lib and c.reference.library is not None]

    def def_succ(d):
        return [c.reference for c in d.children if c.reference is not None and c.reference.library is d.library]
    if not acyclic(list(nl.libraries), lib_succ):
        return False
    return all(acyclic(list(lib.definitions), def_succ) for lib in nl.libraries)


def decorate(nl, rng):
    """format-specific user data the writers look at (parameters, constraints, EBLIF extras)"""
    for lib in nl.libraries:
        for d in lib.definitions:
            if rng.random() < 0.3:
                d["VERILOG.Parameters"] = {"WIDTH": "4", "INIT": None}
            if rng.random() < 0.2:
                d["VERILOG.InlineConstraints"] = {"keep": '"true"'}
            if rng.random() < 0.15:
                d["EBLIF.clock"] = ["clk"]
            for k in d.children:
                if rng.random() < 0.4:
                    k["VERILOG.Parameters"] = {"INIT": "4'h8"}
                if rng.random() < 0.2:
                    k["VERILOG.InlineConstraints"] = {"dont_touch": None}
                if rng.random() < 0.3:
                    k["EBLIF.param"] = {"INIT": "1010"}
                if rng.random() < 0.3:
                    k["EBLIF.attr"] = {"src": "x.v:1"}
                if rng.random() < 0.3:
                    k["EBLIF.type"] = rng.choice(["EBLIF.subckt", "EBLIF.gate", "EBLIF.other"])
            for c in d.cables:
                if rng.random() < 0.15:
                    c["VERILOG.CableType"] = rng.choice(["wire", "tri"])
    if rng.random() < 0.3:
        nl["EBLIF.comment"] = ["a comment "]
    # user data that is a LIST of records, deliberately not in alphabetical order of their identifiers,
    # with nested containers: a writer must not re-order, rebuild or replace it
    def props():
        ids = rng.sample(["ZETA", "init", "Beta", "alpha", "MID", "gamma", "Omega"], rng.randint(2, 4))
        if ids == sorted(ids, key=str.lower):
            ids.reverse()
        out = []
        for k, i in enumerate(ids):
            pr = {"identifier": i, "value": rng.choice(["4'h8", 7, True, "x"])}
            if rng.random() < 0.3:
                pr = {"value": pr["value"], "identifier": i, "original_identifier": i + "[0]"}   # another key order
            out.append(pr)
        return out
    for lib in nl.libraries:
        for d in lib.definitions:
            if rng.random() < 0.3:
                d["EDIF.properties"] = props()
            for k in d.children:
                if rng.random() < 0.6:
                    k["EDIF.properties"] = props()
                if rng.random() < 0.15:
                    k["user.nested"] = {"b": [3, 1, 2], "a": {"z": [], "y": [["q"], 0]}}
            for x in list(d.ports) + list(d.cables):
                if rng.random() < 0.2:
                    x["EDIF.properties"] = props()
    if nl.top_instance is not None and rng.random() < 0.3:
        nl.top_instance["EDIF.properties"] = props()


def build(src, tmpdir):
    import spydrnet as sdn
    from common import gen
    t = src["type"]
    if t == "gen":
        rng = random.Random(src["seed"])
        nl = gen.gen_netlist(rng, **src.get("params", {}))
        if src.get("prim_lib"):
            # EBLIF's write_blackbox looks the library up by this name
            libs = list(nl.libraries)
            leafy = [l for l in libs if all(len(d.children) == 0 for d in l.definitions)]
            (leafy[0] if leafy else libs[0]).name = "hdi_primitives"
        if src.get("decorate"):
            decorate(nl, random.Random(src["seed"] + 1))
        return nl
    if t == "text":
        p = os.path.join(tmpdir, "src" + EXT[src["fmt"]])
        with open(p, "w") as f:
            f.write(src["text"])
        nl = sdn.parse(p)
        if src.get("decorate"):
            decorate(nl, random.Random(src.get("seed", 0)))
        return nl
    if t == "design":
        rng = random.Random(src["seed"])
        ds = T.abstract_design(rng, **src.get("params", {}))
        p = os.path.join(tmpdir, "src" + EXT[src["fmt"]])
        with open(p, "w") as f:
            f.write(T.RENDER[src["fmt"]](ds, rng))
        nl = sdn.parse(p)
        if src.get("decorate"):
            decorate(nl, random.Random(src["seed"] + 1))
        return nl
    if t == "bundled":
        from common.ctx import REPO
        recs = [r for r in T.bundled_texts(REPO, src["fmt"], max_bytes=60000) if r["origin"] == "bundled:" + src["stem"]]
        if not recs:
            return None
        p = os.path.join(tmpdir, "src" + EXT[src["fmt"]])
        with open(p, "w") as f:
            f.write(recs[0]["text"])
        return sdn.parse(p)
    raise ValueError(t)


# ------------------------------------------------------------------------------------------------
# the case, run in a child
# ------------------------------------------------------------------------------------------------

def edif_oracles(nl, L):
    """the iteration orders of the writer's dependency sets: the same insertions into a fresh set of the
    same objects iterate in the same order"""
    depL, depD = [], []
    for lib in nl.libraries:
        s = set()
        for d in lib.definitions:
            for c in d.children:
                if c.reference.library != lib:
                    s.add(c.reference.library)
        depL.append([L.of(lib), [L.of(x) for x in s]])
        dd = []
        for d in lib.definitions:
            s2 = set()
            for c in d.children:
                if c.reference.library == lib:
                    s2.add(c.reference)
            dd.append([L.of(d), [L.of(x) for x in s2]])
        depD.append([L.of(lib), dd])
    return depL, depD


def mask_ts(text):
    return re.sub(r"\(timeStamp[^)]*\)", "(timeStamp)", text)


def n_fds():
    try:
        return len(os.listdir("/proc/self/fd"))
    except OSError:
        return -1


def queries(nl, rng):
    """a random program of read-only API calls (which calls, on which elements, with which arguments,
    in which order) — "after arbitrary queries" """
    import spydrnet as sdn
    from spydrnet.util.selection import Selection
    defs = [d for lib in nl.libraries for d in lib.definitions]
    insts = [k for d in defs for k in d.children]
    cables = [c for d in defs for c in d.cables]
    ports = [p for d in defs for p in d.ports]
    wires = [w for c in cables for w in c.wires]
    pins = [q for p in ports for q in p.pins]
    roots = [nl] + list(nl.libraries) + defs + insts + cables + ports + wires[:20] + pins[:20]
    names = ["*"] + [x.name for x in (defs + insts + cables + ports)[:30] if x.name]
    fns = ["get_hinstances", "get_hcables", "get_hwires", "get_hports", "get_hpins", "get_instances", "get_cables",
           "get_definitions", "get_libraries", "get_ports", "get_wires", "get_pins", "get_netlists"]
    sels = [Selection.INSIDE, Selection.OUTSIDE, Selection.BOTH, Selection.ALL]
    n = 0
    log = []
    for _ in range(rng.randint(2, 14)):
        x = rng.random()
        try:
            if x < 0.75:
                root = rng.choice(roots)
                fn = rng.choice(fns)
                kw = {}
                if rng.random() < 0.5:
                    kw["recursive"] = rng.random() < 0.5
                if rng.random() < 0.3:
                    kw["selection"] = rng.choice(sels)
                if rng.random() < 0.3:
                    kw["patterns"] = rng.choice(names)
                if rng.random() < 0.15:
                    kw["key"] = rng.choice([".NAME", "EDIF.identifier"])
                if rng.random() < 0.15:
                    kw["is_case"] = rng.random() < 0.5
                log.append(fn)
                f = getattr(root, fn, None) or getattr(sdn, fn)
                it = f(**kw) if getattr(root, fn, None) else f(root, **kw)
                n += sum(1 for _ in it)
            elif x < 0.85 and insts:
                k = rng.choice(insts)
                n += int(bool(k.is_leaf())) + len(k.pins) + len(list(k.get_ports()))
            elif x < 0.95:
                n += len(canon.cnetlist(nl)["libraries"]) + len(canon.wf_problems(nl))
            else:
                n += len(str(nl.top_instance)) + len(repr(rng.choice(roots)))
        except Exception:  # noqa
            pass
    return n, log


def sabotage(nl, kind, rng):
    """make the netlist one the writers must refuse"""
    defs = [d for lib in nl.libraries for d in lib.definitions]
    if kind == "child_ref_none":
        kids = [k for d in defs for k in d.children]
        if not kids:
            return False
        rng.choice(kids).reference = None
    elif kind == "no_top":
        nl.top_instance = None
    elif kind == "top_ref_none":
        if nl.top_instance is None or nl.top_instance.reference is None:
            return False
        nl.top_instance.reference = None
    elif kind == "unnamed_top":
        if nl.top_instance is None or ".NAME" not in nl.top_instance:
            return False
        del nl.top_instance[".NAME"]
    else:
        pool = {"unnamed_port": [p for d in defs for p in d.ports], "unnamed_instance": [k for d in defs for k in d.children],
                "unnamed_cable": [c for d in defs for c in d.cables], "unnamed_definition": defs,
                "unnamed_library": list(nl.libraries)}[kind]
        pool = [x for x in pool if ".NAME" in x]
        if not pool:
            return False
        del rng.choice(pool)[".NAME"]
    return True


SABOTAGE = ["child_ref_none", "no_top", "top_ref_none", "unnamed_top", "unnamed_port", "unnamed_instance", "unnamed_cable", "unnamed_definition", "unnamed_library"]


def do_compose(nl, path, inp):
    """every public entry point: sdn.compose, Netlist.compose, the composer classes"""
    import spydrnet as sdn
    api = inp.get("api", "sdn.compose")
    opt = inp.get("options", {})
    fmt = inp["fmt"]
    if api in ("class", "ComposeEdif.run"):
        if fmt == "edif":
            from spydrnet.composers.edif.composer import ComposeEdif
            ComposeEdif().run(nl, path)
        elif fmt == "verilog":
            from spydrnet.composers.verilog.composer import Composer
            Composer(opt.get("definition_list", []), opt.get("write_blackbox", True), opt.get("defparam", False)).run(nl, file_out=path)
        else:
            from spydrnet.composers.eblif.eblif_composer import EBLIFComposer
            EBLIFComposer(opt.get("write_blackbox", True), opt.get("write_eblif_cname", True)).run(nl, path)
    elif api == "Netlist.compose":
        nl.compose(path, **opt)
    else:
        sdn.compose(nl, path, **opt)


def other_composes(hist, tag, tmpdir, fmt_good):
    """history in ONE process: composes of OTHER netlists — most of them not composable, refused at
    several points (before any output, in the middle of the output) — between the composes of the good
    netlist.  Their outcome is not judged here; what they may not do is change what happens to the
    good netlist afterwards."""
    from common import gen
    if not hist:
        return []
    rng = random.Random(stable_hash([hist.get("seed", 0), tag]))
    log = []
    for i in range(hist.get("n", 1)):
        kind = rng.choice(["top_ref_none", "top_ref_none", "child_ref_none", "no_top", "unnamed_port", "unnamed_instance",
                           "unnamed_cable", "unnamed_definition", "unnamed_top", "none"])
        fmt = fmt_good if rng.random() < 0.6 else rng.choice(["edif", "verilog", "eblif"])
        api = rng.choice(["sdn.compose", "sdn.compose", "Netlist.compose", "class"])
        try:
            junk = gen.gen_netlist(random.Random(rng.randrange(1 << 30)), n_libs=(1, 1), n_leaf=(1, 2), n_mid=(1, 2), max_children=2)
            if fmt == "eblif":
                list(junk.libraries)[0].name = "hdi_primitives"
            if kind != "none":
                sabotage(junk, kind, rng)
        except Exception:  # noqa
            continue
        path = os.path.join(tmpdir, "other_%s_%d%s" % (tag, i, EXT[fmt]))
        try:
            do_compose(junk, path, {"fmt": fmt, "api": api, "options": {}})
            log.append("%s.%s.composed" % (fmt, kind))
        except Exception:  # noqa
            log.append("%s.%s.refused" % (fmt, kind))
        junk = None
    return log


def case_body(inp, tmpdir):
    warnings.simplefilter("ignore")
    gc.freeze()
    res = {"status": "ok"}
    try:
        nl = build(inp["source"], tmpdir)
    except Exception as e:  # noqa
        return {"status": "build-failed", "family": family(e)}
    if nl is None:
        return {"status": "build-failed", "family": "missing"}
    fmt = inp["fmt"]
    qrng = random.Random(stable_hash([inp.get("source"), fmt, inp.get("options"), "queries", inp.get("qseed", 0)]))
    sab = inp.get("sabotage")
    if sab:
        try:
            if not sabotage(nl, sab, qrng):
                return {"status": "build-failed", "family": "nothing-to-sabotage"}
        except Exception as e:  # noqa
            return {"status": "build-failed", "family": "sabotage:" + family(e)}
    if inp.get("name_none"):
        try:
            del nl[".NAME"]
        except Exception:  # noqa
            pass
    if fmt == "edif" and not sab:
        if any(c.reference is None for lib in nl.libraries for d in lib.definitions for c in d.children) or nl.top_instance is None:
            return {"status": "not-composable", "why": "unreferenced-instance-or-no-top"}
    if fmt == "edif" and not lib_graph_acyclic(nl):
        return {"status": "not-composable", "why": "cyclic-dependencies"}
    L = Labels()
    res["wf0"] = canon.wf_problems(nl)
    s0 = snapshot(nl, L)
    sh0 = data_shapes(nl, L)
    hist = inp.get("history")
    if fmt == "edif":
        try:
            res["depL"], res["depD"] = edif_oracles(nl, L)
        except Exception:  # noqa  (sabotaged netlists: an instance without reference)
            res["depL"], res["depD"] = [], []
    paths = [os.path.join(tmpdir, "out%d%s" % (i, EXT[fmt])) for i in range(3)]
    texts = []
    fd0 = n_fds()
    with warnings.catch_warnings(record=True) as wlist:
        warnings.simplefilter("always")
        try:
            do_compose(nl, paths[0], inp)
        except Exception as e:  # noqa
            res["status"] = "not-composable"
            res["why"] = "compose-raised:" + family(e)
        if res["status"] == "ok":
            with open(paths[0]) as f:
                t_now = f.read()
    if res["status"] != "ok":
        # (outside the except block: the traceback, and with it the composer, is gone)
        res["s0"] = s0
        res["s_after_raise"] = snapshot(nl, L)
        res["wf_after_raise"] = canon.wf_problems(nl)
        gc.collect()
        res["fd_leak"] = n_fds() - fd0
        return res
    res["warnings1"] = sorted(set(type(w.message).__name__ for w in wlist))
    gc.collect()
    with open(paths[0]) as f:
        t_later = f.read()
    res["complete_on_return"] = (t_now == t_later)
    res["fd_leak"] = n_fds() - fd0
    texts.append(t_later)
    s1 = snapshot(nl, L)
    sh1 = data_shapes(nl, L)
    res["wf1"] = canon.wf_problems(nl)
    res["hlog"] = other_composes(hist, "a", tmpdir, fmt)
    with warnings.catch_warnings(record=True) as wlist:
        warnings.simplefilter("always")
        try:
            do_compose(nl, paths[1], inp)
            with open(paths[1]) as f:
                texts.append(f.read())
        except Exception as e:  # noqa
            res["second_raised"] = family(e)
    s2 = snapshot(nl, L)
    res["nq"], res["qlog"] = queries(nl, qrng)
    s2q = snapshot(nl, L)
    res["hlog"] += other_composes(hist, "b", tmpdir, fmt)
    with warnings.catch_warnings(record=True) as wlist:
        warnings.simplefilter("always")
        try:
            do_compose(nl, paths[2], inp)
            with open(paths[2]) as f:
                texts.append(f.read())
        except Exception as e:  # noqa
            res["third_raised"] = family(e)
    s3 = snapshot(nl, L)
    sh3 = data_shapes(nl, L)
    wlist = None
    gc.collect()
    res["fd_end"] = n_fds() - fd0
    res["s0"], res["s1"] = s0, s1
    res["shape1"] = next(([a, b] for a, b in zip(sh0, sh1) if a != b), None) if sh0 != sh1 else None
    if sh0 != sh1 and res["shape1"] is None:
        res["shape1"] = ["length", len(sh0), len(sh1)]
    res["shape3"] = next(([a, b] for a, b in zip(sh1, sh3) if a != b), ["length", len(sh1), len(sh3)]) if sh1 != sh3 else None
    res["d12"] = snap_diff(s1, s2)
    res["d2q"] = snap_diff(s2, s2q)
    res["d23"] = snap_diff(s2q, s3)
    m = [mask_ts(t) for t in texts]
    res["text_len"] = len(texts[0])
    res["same12"] = len(m) > 1 and m[0] == m[1]
    res["same13"] = len(m) > 2 and m[0] == m[2]
    if len(m) > 1 and m[0] != m[1]:
        a, b = m[0].split("\n"), m[1].split("\n")
        k = next((i for i, (x, y) in enumerate(zip(a, b)) if x != y), min(len(a), len(b)))
        res["textdiff"] = [a[k:k + 1], b[k:k + 1]]
    elif len(m) > 2 and m[0] != m[2]:
        a, b = m[0].split("\n"), m[2].split("\n")
        k = next((i for i, (x, y) in enumerate(zip(a, b)) if x != y), min(len(a), len(b)))
        res["textdiff"] = [a[k:k + 1], b[k:k + 1]]
    res["sizes"] = [len(s0["libs"]), sum(len(l["defs"]) for l in s0["libs"]),
                    sum(len(d["insts"]) for l in s0["libs"] for d in l["defs"])]
    return res


# ------------------------------------------------------------------------------------------------
# judging (parent: talks to the Lean driver)
# ------------------------------------------------------------------------------------------------

DOCUMENTED = {"EDIF.identifier", "EDIF.rename"}


def judge(sr, drv, inp, res):
    fmt = inp["fmt"]
    brief = dict(inp)
    st = res.get("status")
    sr.dist("%s.%s" % (fmt, st if st != "not-composable" else "not-composable." + res.get("why", "?")))
    if fmt == "edif" and st == "not-composable":
        # netlists outside the theorems' hypotheses never reach the model: count them as such
        why = res.get("why", "?")
        reason = "hfin:cyclic_dependencies" if why == "cyclic-dependencies" else "outside_quantifier:refused_compose"
        for t in ("edifify_documented_only", "edifify_idem", "compose_repeatable"):
            sr.dist("theorem_fragment:%s:out:%s" % (t, reason))
    if st == "hang":
        sr.dist("%s.case-timeout" % fmt)
        return
    if st == "not-composable" and "s0" in res:
        # A refused compose is outside C16's quantifier ("composable netlists").  What it may leave
        # behind is still bounded: only effects of the DOCUMENTED kinds (EDIF: partial re-ordering,
        # identifiers already recorded, defaulted name); nothing at all for Verilog / EBLIF.
        s0, sa = res["s0"], res["s_after_raise"]
        diffs = sorted(classify_diff(s0, sa))
        sr.case(stable_hash([inp["source"], fmt, inp.get("sabotage"), "refused"]), nontrivial=True)
        sr.dist("%s.refused.%s" % (fmt, inp.get("sabotage", "as-built")))
        if fmt == "edif":
            r = drv.ask({"fn": "docEq", "a": sa, "b": s0})
            if "error" in r:
                sr["obligations"].append(("driver answered docEq", False, str(r)[:500]))
            elif not r["ok"]:
                bad = [d for d in diffs if not (d[1] in DOCUMENTED or d[2] in ("library-order", "definition-order") or
                                                (d[0] == "netlist" and d[1] == ".NAME" and s0["name"] is None))]
                sr.spec_failure("edif.compose.refused_compose_changes_netlist." + ("%s.%s.%s" % bad[0] if bad else "other"), brief,
                                "compose raised (%s) and left an undocumented change: %s" % (res.get("why"), snap_diff(s0, sa)))
            if diffs:
                sr.dist("edif.refused.partial_documented_effects")
        elif sa != s0:
            sr.spec_failure("%s.compose.refused_compose_changes_netlist.%s" % (fmt, "%s.%s.%s" % diffs[0] if diffs else "other"), brief,
                            "compose raised (%s) and changed the netlist: %s" % (res.get("why"), snap_diff(s0, sa)))
        if res.get("wf0") == [] and res.get("wf_after_raise"):
            sr.spec_failure("%s.compose.refused_compose_breaks_wellformedness" % fmt, brief, str(res["wf_after_raise"][:3]))
        if res.get("fd_leak", 0) > 0:
            sr.spec_failure("%s.compose.refused_compose_leaves_file_open" % fmt, brief,
                            "+%d open descriptors after the failed call (after gc.collect())" % res["fd_leak"])
        return
    if st != "ok":
        return
    s0, s1 = res["s0"], res["s1"]
    sizes = res["sizes"]
    for q in set(res.get("qlog", [])):
        sr.dist("query.%s" % q)
    sr.case(stable_hash([inp["source"], fmt, inp.get("options"), inp.get("api"), inp.get("name_none"), inp.get("qseed"), inp.get("history")]),
            nontrivial=sizes[1] >= 2 and sizes[2] >= 1)
    sr.dist("%s.libs%d.defs%d" % (fmt, min(sizes[0], 3), min(sizes[1] // 3 * 3, 9)))
    sr.dist("%s.api.%s%s" % (fmt, inp.get("api", "sdn.compose"), ".unnamed_netlist" if inp.get("name_none") else ""))
    opt = inp.get("options", {})
    for k, v in sorted(opt.items()):
        sr.dist("%s.opt.%s=%s" % (fmt, k, "list" if isinstance(v, list) and v else v))
    if not opt and fmt != "edif":
        sr.dist("%s.opt.defaults" % fmt)
    # ---- P on the implementation: unchanged (up to the documented EDIF effects) ----
    diffs = classify_diff(s0, s1)
    if fmt == "edif":
        r = drv.ask({"fn": "docEq", "a": s1, "b": s0})
        if "error" in r:
            sr["obligations"].append(("driver answered docEq", False, str(r)[:500]))
        elif not r["ok"]:
            bad = sorted(d for d in diffs if not (d[1] in DOCUMENTED or d[2] in ("library-order", "definition-order") or
                                                  (d[0] == "netlist" and d[1] == ".NAME" and s0["name"] is None)))
            sr.spec_failure("edif.compose.changes_netlist." + ("%s.%s.%s" % bad[0] if bad else "other"), brief,
                            "Spec DocEq(after, before) is false; first difference %s" % snap_diff(s0, s1))
        for d in diffs:
            sr.dist("edif.effect.%s.%s" % (d[1] or d[0], d[2]))
    else:
        if s1 != s0:
            kinds = sorted(diffs)
            if fmt == "eblif" and kinds and all(d == ("inst", "EBLIF.type", "added") for d in kinds):
                sig = SIG_EBLIF_TYPE
            else:
                sig = "%s.compose.changes_netlist.%s" % (fmt, ("%s.%s.%s" % kinds[0] if kinds else "other"))
            sr.spec_failure(sig, brief, "netlist differs after compose: %s" % snap_diff(s0, s1))
            if sig == SIG_EBLIF_TYPE:
                sr.corr_mismatch("composePure: netlist after = netlist before", brief, "EBLIF.type added", "unchanged", signature=sig)
            else:
                sr.corr_mismatch("composePure: netlist after = netlist before", brief, snap_diff(s0, s1), "unchanged")
    if res.get("shape1") or res.get("shape3"):
        sh = res.get("shape1") or res.get("shape3")
        key = sh[0][1] if isinstance(sh[0], list) else "count"
        sr.spec_failure("%s.compose.rearranges_or_replaces_data_container.%s" % (fmt, key), brief,
                        "a list / dict stored as a data value is no longer the same object with the same order: %s" % json.dumps(sh)[:400])
    if res.get("wf0") == [] and res.get("wf1"):
        sr.spec_failure("%s.compose.breaks_wellformedness" % fmt, brief, str(res["wf1"][:3]))
    # ---- repeatable ----
    for tag in ("d12", "d2q", "d23"):
        if res.get(tag):
            what = {"d12": "second compose", "d2q": "read-only queries", "d23": "third compose (after queries)"}[tag]
            sr.spec_failure("%s.compose.%s_changes_netlist" % (fmt, tag), brief, "%s changed the netlist: %s" % (what, res[tag]))
    if res.get("second_raised") or res.get("third_raised"):
        sr.spec_failure("%s.compose.repeat_raises" % fmt, brief, "a repeated compose raised %s" % (res.get("second_raised") or res.get("third_raised")))
    elif not res.get("same12"):
        sr.spec_failure("%s.compose.second_text_differs" % fmt, brief, "composing twice in a row gives different text: %s" % res.get("textdiff"))
    elif not res.get("same13"):
        sr.spec_failure("%s.compose.text_differs_after_queries" % fmt, brief, "composing again after queries gives different text: %s" % res.get("textdiff"))
    for h in res.get("hlog", []):
        sr.dist("history.other." + h)
    if res.get("fd_end", 0) > 0:
        sr.spec_failure("%s.compose.history_leaves_file_open" % fmt, brief,
                        "+%d open descriptors at the end of the case (three composes of the good netlist%s), after gc.collect()"
                        % (res["fd_end"], ", other netlists' composes in between" if inp.get("history") else ""))
    # ---- file complete and closed on return ----
    if not res.get("complete_on_return"):
        sr.spec_failure("%s.compose.file_incomplete_on_return" % fmt, brief, "file content read on return differs from the content after gc")
    if "ResourceWarning" in res.get("warnings1", []) or res.get("fd_leak", 0) > 0:
        sig = SIG_VERILOG_OPEN if fmt == "verilog" else "%s.compose.output_file_left_open" % fmt
        sr.spec_failure(sig, brief, "the writer never closes its output file: ResourceWarning=%s, open descriptors +%d after return"
                        % ("ResourceWarning" in res.get("warnings1", []), res.get("fd_leak", 0)))
    other_w = [w for w in res.get("warnings1", []) if w != "ResourceWarning"]
    for w in other_w:
        sr.dist("%s.warning.%s" % (fmt, w))
    # ---- correspondence with the Lean model ----
    if fmt != "edif":
        sr.dist("theorem_fragment:pure_writer_unchanged:in")           # rfl in the model; the snapshot oracle decides
    if fmt == "edif":
        ids = []

        def collect(e):
            d = dict(e["data"])
            if "EDIF.identifier" in d:
                ids.append([e["extra"].split("|")[0], d["EDIF.identifier"]])
        nd = dict(s1["data"])
        if "EDIF.identifier" in nd:
            ids.append(["", nd["EDIF.identifier"]])
        collect(s1["top"])
        for l in s1["libs"]:
            collect(l["self"])
            for d in l["defs"]:
                collect(d["self"])
                for kind in ("ports", "cables", "insts"):
                    for e in d[kind]:
                        collect(e)
        ids = [[a, b] for a, b in ids if isinstance(b, str)]
        m = drv.ask({"fn": "edifify", "net": s0, "depL": res["depL"], "depD": res["depD"], "ids": ids})
        if "error" in m:
            sr["obligations"].append(("driver answered edifify", False, str(m)[:500]))
        else:
            if not m["finished"]:
                sr.corr_mismatch("toposort_finishes: model sort ends within fuelFor", brief, "implementation returned", "model out of fuel")
            elif m["net"] != s1:
                sr.corr_mismatch("edifify (same set-iteration oracle, same identifiers) = netlist after compose", brief,
                                 snap_diff(m["net"], s1), "model")
            if not m["second_identity"]:
                sr.corr_mismatch("edifify_idem in the driver", brief, None, None)
            sr.dist("edif.model.%s" % ("agrees" if m["net"] == s1 else "differs"))
            # reach of the headline theorems on this very netlist (counters only; no verdict uses them)
            hyp = m.get("hyp", "unknown")
            tag = "in" if hyp == "in" else "out:" + hyp
            core = tag if hyp not in ("hfuelL", "hfuelD") else "in"   # the fuel bounds are only needed for repeatability
            sr.dist("theorem_fragment:edifify_documented_only:" + core)
            sr.dist("theorem_fragment:edifify_idem:" + tag)
            sr.dist("theorem_fragment:compose_repeatable:" + tag)
            sr.dist("theorem_fragment:edifify_keeps_existing:in")      # no hypothesis
        # the order the implementation chose satisfies the Spec
        order = [l["id"] for l in s1["libs"]]
        r = drv.ask({"fn": "topoOrder", "input": [l["id"] for l in s0["libs"]], "deps": res["depL"], "order": order})
        if not r.get("ok"):
            sr.spec_failure("edif.compose.library_order_not_dependency_first", brief, json.dumps(r))
        b0 = {l["id"]: l for l in s0["libs"]}
        for l1 in s1["libs"]:
            l0 = b0.get(l1["id"])
            dd = next((x[1] for x in res["depD"] if x[0] == l1["id"]), [])
            if l0 is None:
                continue
            r = drv.ask({"fn": "topoOrder", "input": [d["id"] for d in l0["defs"]], "deps": dd, "order": [d["id"] for d in l1["defs"]]})
            if not r.get("ok"):
                sr.spec_failure("edif.compose.cell_order_not_dependency_first", brief, json.dumps(r))
            if [d["id"] for d in l0["defs"]] != [d["id"] for d in l1["defs"]]:
                sr.dist("edif.reordered.cells")
        if order != [l["id"] for l in s0["libs"]]:
            sr.dist("edif.reordered.libraries")
    sr.sample({"fmt": fmt, "source": inp["source"].get("type"), "options": opt, "sizes": sizes, "text_len": res.get("text_len")}, cap=2)


# ------------------------------------------------------------------------------------------------
# inputs
# ------------------------------------------------------------------------------------------------

def options_for(fmt, rng, names):
    if fmt != "edif" and rng.random() < 0.25:
        return {}  # the call's own defaults (a mutable default argument would accumulate here)
    if fmt == "verilog":
        return {"definition_list": ([] if rng.random() < 0.6 else rng.sample(names, min(len(names), rng.randint(1, 2)))),
                "write_blackbox": rng.random() < 0.6, "defparam": rng.random() < 0.5}
    if fmt == "eblif":
        return {"write_blackbox": rng.random() < 0.5, "write_eblif_cname": rng.random() < 0.6}
    return {}


def make_cases(rng, n, tier):
    out = []
    for _ in range(n):
        fmt = rng.choice(["edif", "edif", "verilog", "eblif"])
        x = rng.random()
        seed = rng.randrange(1 << 30)
        if x < 0.55:
            params = {"n_libs": [1, rng.choice([1, 2, 3])], "n_leaf": [1, 3], "n_mid": [1, rng.choice([2, 4])],
                      "max_children": rng.choice([2, 4]), "max_width": 3}
            src = {"type": "gen", "seed": seed, "params": {k: (tuple(v) if isinstance(v, list) else v) for k, v in params.items()},
                   "decorate": rng.random() < 0.7, "prim_lib": fmt == "eblif"}
            src["params"] = params
        elif x < 0.9:
            src = {"type": "design", "seed": seed, "fmt": rng.choice(["edif", "verilog", "eblif"]), "params": {},
                   "decorate": rng.random() < 0.5}
        else:
            f2 = rng.choice(["edif", "verilog", "eblif"])
            src = {"type": "bundled", "fmt": f2, "stem": rng.choice(T.BUNDLED[f2])}
        inp = {"kind": "c16", "source": src, "fmt": fmt, "options": options_for(fmt, rng, ["leaf_a", "mod_a", "mod_b", "leaf_b"])}
        inp["api"] = rng.choice(["sdn.compose", "sdn.compose", "Netlist.compose", "class"])
        # an ABSENT netlist name: documented defaulting for the EDIF writer class only; the dispatcher
        # refuses it for EDIF, the Verilog writer refuses it, the EBLIF writer does not look at it
        if rng.random() < 0.2:
            inp["name_none"] = True
        if rng.random() < 0.12:
            inp["sabotage"] = rng.choice(SABOTAGE)
        inp["qseed"] = rng.randrange(1000)
        if rng.random() < 0.4:
            inp["history"] = {"seed": rng.randrange(1 << 30), "n": rng.randint(1, 3)}
        out.append(inp)
    return out


def fix_params(src):
    if src.get("type") == "gen" and "params" in src:
        src = dict(src)
        src["params"] = {k: (tuple(v) if isinstance(v, list) else v) for k, v in src["params"].items()}
    return src


def shard_worker(jobs, deadline, shard_id):
    sr = shard.ShardResult()
    tmpdir = tempfile.mkdtemp(prefix="verif_io_c16_")
    drv = None
    try:
        drv = lean.Driver("drv_io")
        for inp in jobs:
            if time.time() > deadline:
                sr.dist("budget.cut")
                continue
            cd = tempfile.mkdtemp(prefix="case_", dir=tmpdir)
            run_inp = dict(inp)
            run_inp["source"] = fix_params(inp["source"])
            st, res = forked(lambda: case_body(run_inp, cd), CASE_TIMEOUT)
            if st == "hang":
                # machine load, not a verdict: one patient retry, then the case is skipped (counted)
                shutil.rmtree(cd, ignore_errors=True)
                os.makedirs(cd, exist_ok=True)
                st, res = forked(lambda: case_body(run_inp, cd), CASE_TIMEOUT * 5)
            shutil.rmtree(cd, ignore_errors=True)
            if st == "hang":
                res = {"status": "hang"}
            elif st == "died":
                sr["obligations"].append(("case child ran without internal error", False, str(res)[-800:]))
                continue
            judge(sr, drv, inp, res)
    finally:
        if drv is not None:
            drv.close()
        shutil.rmtree(tmpdir, ignore_errors=True)
    return sr


def run(ctx):
    rng = ctx.rng("c16")
    if ctx.replay:
        with open(ctx.replay if os.path.isabs(ctx.replay) else os.path.join(os.environ.get("VERIF_ROOT", "."), ctx.replay)) as f:
            o = json.load(f)
        chunks = [[o.get("input", o)]]
    else:
        corpus = [inp for _, inp in load_corpus("C16")]
        jobs = make_cases(rng, ctx.scale(1500, 9000), ctx.tier)
        nshards = min(48, max(16, len(jobs) // 150))
        chunks = ([corpus] if corpus else []) + [jobs[i::nshards] for i in range(nshards)]
    ctx.rule = ("case = (netlist source, target format, composer options): API-built hierarchical netlists (gen.gen_netlist, 1-3 libraries, "
                "format-specific data), netlists parsed from independently generated EDIF/Verilog/EBLIF texts and from small bundled examples "
                "x options (definition_list, write_blackbox, defparam, write_eblif_cname; sdn.compose and ComposeEdif.run with an absent netlist name); "
                "each in a forked child; netlists whose first compose raises or whose dependency graphs are cyclic are outside the quantifier (counted). "
                "distinct = distinct (source, format, options); non-trivial = >= 2 definitions and >= 1 instance")
    ctx.assumptions += [
        "'complete and closed when the call returns' is OS/GC behaviour: observed (file re-read after gc.collect, ResourceWarning recorded, open descriptor count), not proved",
        "the EDIF timestamp comes from datetime.now() and is masked before texts are compared",
        "identifier generation (make_valid) is an abstract parameter of the pre-pass model (C17's subject); the correspondence feeds the identifiers the implementation chose",
        "set iteration order is an oracle parameter of the model; the harness reproduces it by inserting the same objects in the same order into a fresh set",
        "for Verilog/EBLIF the model writer is a pure function, so non-interference holds by construction in the model and rests on the before/after snapshot comparison on the implementation",
    ]
    ctx.partial_notes += ["partial: file completeness/closing is observed, not proved"]
    deadline = time.time() + (max(30.0, min(ctx.time_left() - 25, 65.0 - (time.time() - ctx.t0))) if ctx.tier == "quick"
                              else max(30.0, ctx.time_left() - 120))
    shard.run_shards(ctx, shard_worker, [(c, deadline, i) for i, c in enumerate(chunks) if c])


def search(ctx, diverging):
    """neighbourhood search: the diverging sources under every target format and option combination,
    plus a fresh batch of random cases (within the remaining budget)."""
    rng = ctx.rng("c16-search")
    jobs = []
    for inp in diverging:
        src = inp.get("source")
        if not src:
            continue
        for fmt in ("edif", "verilog", "eblif"):
            if fmt == "verilog":
                opts = [{"definition_list": dl, "write_blackbox": wb, "defparam": dp}
                        for dl in ([], ["mod_a"]) for wb in (True, False) for dp in (True, False)]
            elif fmt == "eblif":
                opts = [{"write_blackbox": wb, "write_eblif_cname": cn} for wb in (True, False) for cn in (True, False)]
            else:
                opts = [{}]
            for o in opts:
                jobs.append({"kind": "c16", "source": src, "fmt": fmt, "options": o})
            if fmt == "edif":
                jobs.append({"kind": "c16", "source": src, "fmt": fmt, "options": {}, "api": "ComposeEdif.run", "name_none": True})
    jobs += make_cases(rng, 7000, ctx.tier)
    ctx.dist("search.jobs", len(jobs))
    nshards = 32
    deadline = time.time() + max(20.0, ctx.time_left() - 20)
    shard.run_shards(ctx, shard_worker, [(jobs[i::nshards], deadline, 1000 + i) for i in range(nshards) if jobs[i::nshards]])
