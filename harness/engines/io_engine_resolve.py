"""C15 correspondence (b): EDIF reference resolution, implementation vs the Lean model `resolve`.

The declaration/reference event stream is extracted from the TEXT by a small s-expression scan written
here (nothing of the reader is used).  Compared: accepted/rejected, and — when both accept — what every
instance, every joined pin and the design resolve to."""
import json

from engines import io_engine_texts as T

SIG_DESIGN = "edif.design.undeclared_target_accepted"


def sexp(text):
    sp = T.spans_edif(text)
    tok = [text[a:b] for a, b in sp]
    pos = 0

    def rd():
        nonlocal pos
        if pos >= len(tok):
            raise ValueError("eof")
        t = tok[pos]
        pos += 1
        if t == "(":
            out = []
            while True:
                if pos >= len(tok):
                    raise ValueError("eof")
                if tok[pos] == ")":
                    pos += 1
                    return out
                out.append(rd())
        if t == ")":
            raise ValueError("unbalanced")
        return t
    try:
        tree = rd()
    except (ValueError, RecursionError):
        return None
    if pos != len(tok) or not isinstance(tree, list):
        return None
    return tree


def head(x):
    return x[0].lower() if isinstance(x, list) and x and isinstance(x[0], str) else None


def name_of(x):
    """identifier of a nameDef: atom | (rename id "orig")"""
    if isinstance(x, str):
        return x
    if head(x) == "rename" and len(x) >= 2 and isinstance(x[1], str):
        return x[1]
    raise ValueError("namedef")


def events(tree):
    """-> (events, cellpos) or None when the shape is outside what is modelled.
    cellpos: event position of a cell -> (library index, cell index)"""
    try:
        if head(tree) != "edif":
            return None
        evs = []
        cellpos = {}
        li = -1
        for ch in tree[2:]:
            h = head(ch)
            if h in ("library", "external"):
                li += 1
                evs.append({"e": "lib", "id": name_of(ch[1])})
                ci = -1
                for c in ch[2:]:
                    if head(c) != "cell":
                        continue
                    ci += 1
                    views = [v for v in c[2:] if head(v) == "view"]
                    if len(views) != 1:
                        return None
                    v = views[0]
                    ports = []
                    contents = []
                    for part in v[2:]:
                        if head(part) == "interface":
                            for p in part[1:]:
                                if head(p) != "port":
                                    continue
                                nd = p[1]
                                if head(nd) == "array":
                                    w = 1
                                    for d in nd[2:]:
                                        w *= int(d)
                                    ports.append([name_of(nd[1]), w])
                                else:
                                    ports.append([name_of(nd), 1])
                        elif head(part) == "contents":
                            contents = part[1:]
                    cellpos[len(evs)] = (li, ci)
                    evs.append({"e": "cell", "id": name_of(c[1]), "view": name_of(v[1]), "ports": ports})
                    for it in contents:
                        if head(it) == "instance":
                            vr = [x for x in it[2:] if head(x) == "viewref"]
                            if len(vr) != 1:
                                return None
                            vr = vr[0]
                            cell = lib = None
                            cr = [x for x in vr[2:] if head(x) == "cellref"]
                            if cr:
                                cell = cr[0][1]
                                lr = [x for x in cr[0][2:] if head(x) == "libraryref"]
                                if lr:
                                    lib = lr[0][1]
                            if not all(isinstance(z, str) for z in (vr[1],)) or (cell is not None and not isinstance(cell, str)):
                                return None
                            evs.append({"e": "inst", "id": name_of(it[1]), "view": vr[1], "cell": cell, "lib": lib})
                        elif head(it) == "net":
                            for j in it[2:]:
                                if head(j) != "joined":
                                    continue
                                for pr in j[1:]:
                                    if head(pr) != "portref":
                                        return None
                                    tgt = pr[1]
                                    member = None
                                    if head(tgt) == "member":
                                        if len(tgt) != 3:
                                            return None
                                        port = name_of(tgt[1])
                                        member = int(tgt[2])
                                        if member < 0:
                                            return None
                                    elif isinstance(tgt, str):
                                        port = tgt
                                    else:
                                        return None
                                    ir = [x for x in pr[2:] if head(x) == "instanceref"]
                                    inst = ir[0][1] if ir else None
                                    if inst is not None and not isinstance(inst, str):
                                        return None
                                    evs.append({"e": "portRef", "port": port, "member": member, "inst": inst})
                    evs.append({"e": "endCell"})
                evs.append({"e": "endLib"})
            elif h == "design":
                cr = [x for x in ch[2:] if head(x) == "cellref"]
                if len(cr) != 1:
                    return None
                lr = [x for x in cr[0][2:] if head(x) == "libraryref"]
                if len(lr) != 1 or not isinstance(cr[0][1], str) or not isinstance(lr[0][1], str):
                    return None
                evs.append({"e": "design", "cell": cr[0][1], "lib": lr[0][1]})
        return evs, cellpos
    except (ValueError, IndexError, TypeError):
        return None


def impl_refs(nl):
    """what the implementation resolved, positionally (runs in the attempt's child)"""
    libs = list(nl.libraries)
    dpos = {}
    for li, lib in enumerate(libs):
        for di, d in enumerate(lib.definitions):
            dpos[id(d)] = [li, di]
    out = {"insts": [], "pins": [], "top": None}
    for li, lib in enumerate(libs):
        for di, d in enumerate(lib.definitions):
            kids = list(d.children)
            kpos = {id(k): i for i, k in enumerate(kids)}
            out["insts"].append([[li, di], [dpos.get(id(k.reference)) for k in kids]])
            pins = []
            for c in d.cables:
                for w in c.wires:
                    for x in w.pins:
                        if hasattr(x, "inner_pin") and x.instance is not None:
                            q = x.inner_pin
                            port = q.port
                            r = x.instance.reference
                            pins.append([kpos.get(id(x.instance), -2), dpos.get(id(r)), list(r.ports).index(port), list(port.pins).index(q)])
                        else:
                            port = x.port
                            pins.append([-1, [li, di], list(d.ports).index(port), list(port.pins).index(x)])
            out["pins"].append([[li, di], sorted(pins, key=json.dumps)])
    t = nl.top_instance
    if t is not None and t.reference is not None:
        out["top"] = dpos.get(id(t.reference))
    return out


def model_refs(evs, cellpos, refs):
    """the model's resolution, in the same positional form"""
    out = {"insts": [], "pins": [], "top": None}
    cur = None
    inst_idx = {}
    rmap = {k: r for k, r in refs}
    per_inst = {}
    per_pins = {}
    order = []
    for k, e in enumerate(evs):
        if e["e"] == "cell":
            cur = cellpos[k]
            order.append(cur)
            per_inst[cur] = []
            per_pins[cur] = []
            inst_idx = {}
        elif e["e"] == "inst":
            inst_idx[k] = len(per_inst[cur])
            per_inst[cur].append(list(cellpos[rmap[k]["at"]]))
        elif e["e"] == "portRef":
            r = rmap[k]
            per_pins[cur].append([inst_idx[r["inst"]] if r["inst"] is not None else -1, list(cellpos[r["cell"]]), r["port"], r["bit"]])
        elif e["e"] == "design":
            out["top"] = list(cellpos[rmap[k]["at"]])
    for c in order:
        out["insts"].append([list(c), per_inst[c]])
        out["pins"].append([list(c), sorted(per_pins[c], key=json.dumps)])
    return out


def check(sr, drv, inp, res):
    c = inp.get("corruption", {"kind": "none"})
    if c["kind"] not in ("none", "retarget", "recase", "rescope"):
        return
    tree = sexp(inp["text"])
    ex = events(tree) if tree is not None else None
    if ex is None:
        sr.dist("resolve.skip.shape")
        return
    evs, cellpos = ex
    m = drv.ask({"fn": "resolve", "events": evs})
    if "error" in m:
        sr["obligations"].append(("driver answered resolve", False, str(m)[:400]))
        return
    brief = {"kind": "attempt", "fmt": "edif", "policy0": inp["policy0"], "corruption": c, "origin": inp.get("origin"), "text": inp["text"]}
    is_design = c.get("ref", "").startswith("design.")
    impl_ok = res["outcome"] == "ok"
    sr.dist("resolve.%s.model_%s.impl_%s" % (c["kind"], "ok" if m["ok"] else m["err"].split(".")[-1], "ok" if impl_ok else "raise"))
    # the Spec's notion of "never declared" on the stream: must be rejected by the implementation
    if m["undeclared"] and impl_ok:
        sig = SIG_DESIGN if is_design else "edif.%s.undeclared_target_accepted" % c.get("ref", "ref")
        sr.spec_failure(sig, brief, "Spec hasUndeclared(stream) is true but the reader accepted the file")
    if m["ok"] and not impl_ok and c["kind"] == "rescope" and c.get("expect") != "raise":
        # the new target is in scope, so resolution succeeds; the file may still break another rule
        # (e.g. the same pin joined by two nets), which is not reference resolution
        sr.dist("resolve.rescope.in_scope_but_rejected_for_another_reason")
        return
    if m["ok"] != impl_ok:
        sr.corr_mismatch("resolve: accepted/rejected", brief, "ok" if impl_ok else "raise:" + res.get("family", "?"),
                         "ok" if m["ok"] else m["err"], signature=SIG_DESIGN if (is_design and impl_ok) else None)
        return
    if not m["ok"]:
        return
    mr = model_refs(evs, cellpos, m["refs"])
    ir = res.get("refs")
    if ir is None:
        return
    if mr != ir:
        what = "top" if mr["top"] != ir["top"] else ("insts" if mr["insts"] != ir["insts"] else "pins")
        sr.corr_mismatch("resolve: what each reference resolves to (%s)" % what, brief,
                         json.dumps(ir[what])[:300], json.dumps(mr[what])[:300],
                         signature=SIG_DESIGN if what == "top" else None)
