"""C15 correspondence (b): EDIF reference resolution, implementation vs the Lean model `resolve`."""


def check(sr, drv, inp, res):
    return
