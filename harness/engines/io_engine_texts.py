"""Valid-text sources, independent token splitters and single-token corruptions for the io engine
(C15).  Nothing here imports the readers: the splitters are written from the file formats, so that a
corruption is defined on the *text*, not on what a reader thinks a token is.

A text record is  {"fmt": "edif"|"verilog"|"eblif", "origin": str, "text": str}.
A corruption record is  {"kind": ..., "pos": int, ...}  and  apply(text_record, corruption) -> str.
"""
import io
import os
import re
import zipfile

EXT = {"edif": ".edf", "verilog": ".v", "eblif": ".eblif"}

# --------------------------------------------------------------------------------------------
# independent generators (abstract design -> text).  Small on purpose: every token of every text
# gets corrupted in the thorough tier.
# --------------------------------------------------------------------------------------------

_ID = ["a", "b", "c", "d", "e", "f", "g", "h", "k", "m", "n", "p", "q", "r", "s", "t", "u", "v", "w", "x", "y", "z"]


def _fresh(rng, used, stem):
    while True:
        n = stem + rng.choice(_ID) + (str(rng.randrange(10)) if rng.random() < 0.5 else "")
        if n.lower() not in used:
            used.add(n.lower())
            return n


def abstract_design(rng, n_leaf=(1, 3), n_mid=(1, 3), max_ports=3, max_width=3, max_children=3):
    """leaf cells (ports only) and a DAG of modules instantiating earlier cells.  Every net is a
    whole bus or a scalar so that all three formats can express the design."""
    used = set()
    cells = []
    for _ in range(rng.randint(*n_leaf)):
        ports = []
        pu = set()
        for _ in range(rng.randint(1, max_ports)):
            ports.append({"name": _fresh(rng, pu, "P"), "dir": rng.choice(["input", "output"]),
                          "width": 1 if rng.random() < 0.6 else rng.randint(2, max_width)})
        cells.append({"name": _fresh(rng, used, "leaf_"), "ports": ports, "leaf": True, "insts": [], "nets": []})
    nm = rng.randint(*n_mid)
    for mi in range(nm):
        pu = set()
        ports = []
        for _ in range(rng.randint(1, max_ports)):
            ports.append({"name": _fresh(rng, pu, "P"), "dir": rng.choice(["input", "output"]),
                          "width": 1 if rng.random() < 0.6 else rng.randint(2, max_width)})
        insts = []
        iu = set()
        for _ in range(rng.randint(1, max_children)):
            insts.append({"name": _fresh(rng, iu, "I"), "cell": rng.randrange(len(cells)), "conn": {}})
        # nets: one per module port (same name, so that Verilog/EBLIF bind them), plus internal ones
        nets = [{"name": p["name"], "width": p["width"], "port": True} for p in ports]
        for _ in range(rng.randint(0, 3)):
            nets.append({"name": _fresh(rng, pu, "N"), "width": 1 if rng.random() < 0.6 else rng.randint(2, max_width), "port": False})
        for it in insts:
            for p in cells[it["cell"]]["ports"]:
                cands = [n for n in nets if n["width"] == p["width"]]
                if cands and rng.random() < 0.8:
                    it["conn"][p["name"]] = rng.choice(cands)["name"]
        cells.append({"name": _fresh(rng, used, "mod_"), "ports": ports, "leaf": False, "insts": insts, "nets": nets})
    return {"cells": cells, "top": len(cells) - 1}


def render_verilog(ds, rng):
    out = ["// generated\n"]
    order = list(range(len(ds["cells"])))
    order.reverse()  # top first, like the writer; the reader accepts use-before-declaration
    for ci in order:
        c = ds["cells"][ci]
        if c["leaf"]:
            out.append("`celldefine\n")
        if not c["leaf"] and rng.random() < 0.3:
            out.append('(* keep = "yes" *)\n')
        out.append("module %s (%s);\n" % (c["name"], ", ".join(p["name"] for p in c["ports"])))
        for p in c["ports"]:
            rngs = "" if p["width"] == 1 else "[%d:0] " % (p["width"] - 1)
            out.append("  %s %s%s;\n" % (p["dir"], rngs, p["name"]))
        for n in c["nets"]:
            rngs = "" if n["width"] == 1 else "[%d:0] " % (n["width"] - 1)
            out.append("  wire %s%s;\n" % (rngs, n["name"]))
        for it in c["insts"]:
            ref = ds["cells"][it["cell"]]
            pm = []
            for p in ref["ports"]:
                tgt = it["conn"].get(p["name"])
                if tgt is None:
                    pm.append(".%s()" % p["name"])
                else:
                    pm.append(".%s(%s)" % (p["name"], tgt))
            out.append("  %s %s (%s);\n" % (ref["name"], it["name"], ", ".join(pm)))
        out.append("endmodule\n")
        if c["leaf"]:
            out.append("`endcelldefine\n")
        out.append("\n")
    return "".join(out)


def render_eblif(ds, rng):
    out = ["# generated\n"]
    order = list(range(len(ds["cells"])))
    order.reverse()

    def bits(name, w):
        return [name] if w == 1 else ["%s[%d]" % (name, i) for i in range(w)]
    for ci in order:
        c = ds["cells"][ci]
        out.append(".model %s\n" % c["name"])
        ins = [b for p in c["ports"] if p["dir"] == "input" for b in bits(p["name"], p["width"])]
        outs = [b for p in c["ports"] if p["dir"] == "output" for b in bits(p["name"], p["width"])]
        out.append(".inputs %s\n" % " ".join(ins))
        out.append(".outputs %s\n" % " ".join(outs))
        if c["leaf"]:
            out.append(".blackbox\n")
        for k, it in enumerate(c["insts"]):
            ref = ds["cells"][it["cell"]]
            pm = []
            for p in ref["ports"]:
                tgt = it["conn"].get(p["name"])
                fb = bits(p["name"], p["width"])
                ab = bits(tgt, p["width"]) if tgt is not None else ["unconn"] * p["width"]
                pm.extend("%s=%s" % (f, a) for f, a in zip(fb, ab))
            out.append(".subckt %s %s\n" % (ref["name"], " ".join(pm)))
            out.append(".cname %s\n" % it["name"])
            if rng.random() < 0.3:
                out.append(".attr src x%d\n" % k)
            if rng.random() < 0.3:
                out.append(".param INIT 1%d\n" % k)
        if not c["leaf"] and rng.random() < 0.4 and c["nets"]:
            n = rng.choice(c["nets"])
            b = bits(n["name"], n["width"])[0]
            out.append(".names %s lut_%s\n1 1\n" % (b, n["name"]))
        if not c["leaf"] and rng.random() < 0.3 and c["nets"]:
            n = rng.choice(c["nets"])
            b = bits(n["name"], n["width"])[0]
            out.append(".latch %s lq_%s re clk_%s 2\n" % (b, n["name"], n["name"]))
        out.append(".end\n\n")
    return "".join(out)


def render_edif(ds, rng):
    """hand-rolled EDIF 2 0 0 with renames, arrays/members, a primitive and a work library."""
    cells = ds["cells"]
    L = []
    L.append("(edif top_env\n  (edifVersion 2 0 0)\n  (edifLevel 0)\n  (keywordMap (keywordLevel 0))\n")
    L.append('  (status (written (timeStamp 2020 1 2 3 4 5) (program "gen" (version "1")) (comment "c one")))\n')

    def eid(name):
        return name

    def cell_text(c, lib_of):
        T = []
        T.append("    (cell %s (cellType GENERIC)\n      (view netlist (viewType NETLIST)\n        (interface\n" % eid(c["name"]))
        for p in c["ports"]:
            d = {"input": "INPUT", "output": "OUTPUT"}[p["dir"]]
            if p["width"] == 1:
                T.append("          (port %s (direction %s))\n" % (p["name"], d))
            else:
                T.append('          (port (array (rename %s "%s[%d:0]") %d) (direction %s))\n' % (p["name"], p["name"], p["width"] - 1, p["width"], d))
        T.append("        )\n")
        if not c["leaf"]:
            T.append("        (contents\n")
            for it in c["insts"]:
                ref = cells[it["cell"]]
                T.append("          (instance %s (viewRef netlist (cellRef %s (libraryRef %s)))" % (it["name"], ref["name"], lib_of(it["cell"])))
                if rng.random() < 0.3:
                    T.append(' (property INIT (string "4h8"))')
                T.append(")\n")
            for n in c["nets"]:
                for b in range(n["width"]):
                    joined = []
                    if n["port"]:
                        joined.append("(portRef %s)" % n["name"] if n["width"] == 1 else "(portRef (member %s %d))" % (n["name"], n["width"] - 1 - b))
                    for it in c["insts"]:
                        ref = cells[it["cell"]]
                        for p in ref["ports"]:
                            if it["conn"].get(p["name"]) == n["name"]:
                                if p["width"] == 1:
                                    joined.append("(portRef %s (instanceRef %s))" % (p["name"], it["name"]))
                                else:
                                    joined.append("(portRef (member %s %d) (instanceRef %s))" % (p["name"], p["width"] - 1 - b, it["name"]))
                    if n["width"] == 1:
                        T.append("          (net %s (joined %s))\n" % (n["name"] + ("_n" if n["port"] else ""), " ".join(joined)))
                    else:
                        T.append('          (net (rename %s_%d_ "%s[%d]") (joined %s))\n' % (n["name"] + ("_n" if n["port"] else ""), b, n["name"] + ("_n" if n["port"] else ""), b, " ".join(joined)))
            T.append("        )\n")
        T.append("      )\n    )\n")
        return "".join(T)

    def lib_of(ci):
        return "prims" if cells[ci]["leaf"] else "work"
    L.append("  (library prims (edifLevel 0) (technology (numberDefinition))\n")
    for c in cells:
        if c["leaf"]:
            L.append(cell_text(c, lib_of))
    L.append("  )\n  (library work (edifLevel 0) (technology (numberDefinition))\n")
    for c in cells:
        if not c["leaf"]:
            L.append(cell_text(c, lib_of))
    L.append("  )\n")
    top = cells[ds["top"]]
    L.append("  (design %s (cellRef %s (libraryRef work)))\n)\n" % (top["name"] + "_top", top["name"]))
    return "".join(L)


RENDER = {"edif": render_edif, "verilog": render_verilog, "eblif": render_eblif}

# --------------------------------------------------------------------------------------------
# bundled small examples
# --------------------------------------------------------------------------------------------

BUNDLED = {
    "edif": ["AND_gate", "inverter", "toggle", "TMR_hierarchy", "namespace", "multi_port", "unused_blackbox"],
    "verilog": ["namespace"],
    "eblif": ["toggle", "synchronouscounter_nocarry"],
}
_DIR = {"edif": "EDIF_netlists", "verilog": "verilog_netlists", "eblif": "eblif_netlists"}


def bundled_texts(repo, fmt, max_bytes=12000):
    out = []
    for stem in BUNDLED[fmt]:
        p = os.path.join(repo, "example_netlists", _DIR[fmt], stem + EXT[fmt] + ".zip")
        try:
            with zipfile.ZipFile(p) as z:
                data = z.read(z.namelist()[0]).decode("utf-8", "replace")
        except Exception:
            continue
        if 0 < len(data) <= max_bytes:
            out.append({"fmt": fmt, "origin": "bundled:" + stem, "text": data})
    return out


# --------------------------------------------------------------------------------------------
# independent token splitters: list of (start, end) spans
# --------------------------------------------------------------------------------------------

def spans_edif(t):
    sp = []
    i, n = 0, len(t)
    while i < n:
        ch = t[i]
        if ch in " \t\r\n":
            i += 1
        elif ch in "()":
            sp.append((i, i + 1)); i += 1
        elif ch == '"':
            j = t.find('"', i + 1)
            j = n - 1 if j < 0 else j
            sp.append((i, j + 1)); i = j + 1
        else:
            j = i
            while j < n and t[j] not in ' \t\r\n()"':
                j += 1
            sp.append((i, j)); i = j
    return sp


_V_TOK = re.compile(r"""
    //[^\n]*            |   # line comment
    /\*.*?\*/           |   # block comment
    \(\*|\*\)           |   # attribute brackets
    `[^\n]*             |   # directive (to end of line)
    "[^"\n]*"           |   # string
    \\[^ \t\r\n]+[ \t\r\n]  |   # escaped identifier with its terminating blank
    [0-9]*'[sS]?[bBhHdDoO][0-9a-fA-FxXzZ_?]+ |  # sized constant
    [A-Za-z_$][A-Za-z0-9_$]* |
    [0-9]+              |
    \S
""", re.X | re.S)


def spans_verilog(t):
    return [(m.start(), m.end()) for m in _V_TOK.finditer(t)]


def spans_eblif(t):
    """words, plus each line end as its own token (the format is line oriented)."""
    sp = []
    for m in re.finditer(r"[^ \t\r\n]+|\n", t):
        sp.append((m.start(), m.end()))
    return sp


SPANS = {"edif": spans_edif, "verilog": spans_verilog, "eblif": spans_eblif}

JUNK = {
    "edif": ["(", ")", "zz_undeclared", "42", '"str"', "cell", "net", "instance", "portRef"],
    "verilog": [";", "(", ")", ",", "zz_undeclared", "module", "endmodule", "[", "]", ".", "1'b0", "wire", "input"],
    "eblif": ["\n", "zz_undeclared", ".model", ".end", ".subckt", "a=b", ".names", "=", ".inputs", ".cname"],
}

# --------------------------------------------------------------------------------------------
# EDIF reference sites (for the retarget corruption) by a tiny independent s-expression scan
# --------------------------------------------------------------------------------------------

REF_KEYS = {"cellref": "cellRef", "libraryref": "libraryRef", "portref": "portRef", "instanceref": "instanceRef",
            "viewref": "viewRef"}


def edif_ref_sites(t, sp=None):
    """token indices whose text is the *name* operand of a cellRef/libraryRef/portRef/instanceRef/
    viewRef (directly, or inside a (member name ..)), and the two positional names of `design`.
    Returns list of (token index, kind)."""
    sp = sp or spans_edif(t)
    tok = [t[a:b] for a, b in sp]
    out = []
    for i in range(len(tok) - 2):
        if tok[i] != "(":
            continue
        k = tok[i + 1].lower()
        if k in REF_KEYS:
            if tok[i + 2] == "(" and i + 4 < len(tok) and tok[i + 3].lower() == "member":
                out.append((i + 4, REF_KEYS[k] + ".member"))
            elif tok[i + 2] not in "()":
                out.append((i + 2, REF_KEYS[k]))
    return out


def edif_design_sites(t, sp=None):
    """(token index, kind) for the cellRef / libraryRef operands that sit inside `(design ...)`."""
    sp = sp or spans_edif(t)
    tok = [t[a:b] for a, b in sp]
    out = []
    depth = 0
    in_design = None
    for i, x in enumerate(tok):
        if x == "(":
            depth += 1
            if i + 1 < len(tok) and tok[i + 1].lower() == "design" and in_design is None:
                in_design = depth
        elif x == ")":
            if in_design is not None and depth == in_design:
                in_design = None
            depth -= 1
        elif in_design is not None and i >= 2 and tok[i - 2] == "(" and tok[i - 1].lower() in ("cellref", "libraryref"):
            out.append((i, "design." + REF_KEYS[tok[i - 1].lower()]))
    return out



# texts that must be tried for every format in every tier: nothing, blanks, only a comment
EDGE_TEXTS = {
    "edif": [("empty", ""), ("blank", " \n\t \n"), ("comment_only", '(comment "nothing else")'), ("string_only", '"s"')],
    "verilog": [("empty", ""), ("blank", " \n\t \n"), ("comment_only", "// nothing else\n"), ("block_comment_only", "/* nothing else */"),
                # files that END inside a lexical state (the first one is a VALID file)
                ("valid_ends_in_line_comment", "module t (a);\n  input a;\nendmodule // tail"),
                ("line_comment_no_newline", "// nothing else"), ("open_block_comment", "module t (a); /* open"),
                ("open_string", 'module t (a); (* k = "abc'), ("open_escaped_identifier", "module \\esc"),
                ("open_directive", "`timescale 1ps/1ps"), ("error_before_string", 'endmodule"abc'),
                ("error_before_escaped", "endmodule\\x"), ("error_before_directive", "endmodule`define X"),
                ("error_before_line_comment", "endmodule//c"), ("error_before_block_comment", "endmodule/*c")],
    "eblif": [("empty", ""), ("blank", " \n\t \n"), ("comment_only", "# nothing else\n"), ("comment_no_newline", "# nothing else")],
}

# hand-written EDIF whose scopes overlap on purpose: instances of one cell are port-compatible with
# instances of another, two libraries declare different cells with the same interface
EDIF_SCOPES = """(edif scopes
  (edifVersion 2 0 0)
  (edifLevel 0)
  (keywordMap (keywordLevel 0))
  (library prims
    (edifLevel 0)
    (technology (numberDefinition))
    (cell INV (cellType GENERIC)
      (view netlist (viewType NETLIST)
        (interface (port I (direction INPUT)) (port O (direction OUTPUT)))))
    (cell BUF2 (cellType GENERIC)
      (view netlist (viewType NETLIST)
        (interface (port I (direction INPUT)) (port O (direction OUTPUT)) (port (array (rename D "D[1:0]") 2) (direction INPUT))))))
  (library work
    (edifLevel 0)
    (technology (numberDefinition))
    (cell sub (cellType GENERIC)
      (view netlist (viewType NETLIST)
        (interface (port a (direction INPUT)) (port y (direction OUTPUT)) (port s (direction INPUT)))
        (contents
          (instance u_inv (viewRef netlist (cellRef INV (libraryRef prims))))
          (instance u_spare (viewRef netlist (cellRef INV (libraryRef prims))))
          (net a (joined (portRef a) (portRef I (instanceRef u_inv)) (portRef I (instanceRef u_spare))))
          (net y (joined (portRef y) (portRef O (instanceRef u_inv)))))))
    (cell top (cellType GENERIC)
      (view netlist (viewType NETLIST)
        (interface (port a (direction INPUT)) (port y (direction OUTPUT)) (port t (direction INPUT)))
        (contents
          (instance u_sub (viewRef netlist (cellRef sub)))
          (instance u_buf (viewRef netlist (cellRef BUF2 (libraryRef prims))))
          (instance u_sub2 (viewRef netlist (cellRef sub (libraryRef work))))
          (net (rename n_a "sig a") (joined (portRef a) (portRef a (instanceRef u_sub))))
          (net (rename n_m "sig m") (joined (portRef y (instanceRef u_sub)) (portRef I (instanceRef u_buf))))
          (net (rename d_0_ "d[0]") (joined (portRef t) (portRef (member D 1) (instanceRef u_buf))))
          (net y (joined (portRef y) (portRef O (instanceRef u_buf))))))))
  (design top (cellRef top (libraryRef work))))
"""


# small fixed texts of the other two formats, with the constructs the generators above do not emit
# (positional port maps, assign, constants; .names/.latch/.conn): every truncation of these always runs
VERILOG_FIXED = """module top (a, b, y);
  input a;
  input [1:0] b;
  output y;
  wire w;
  wire [1:0] v;
  assign v = b;
  leaf u0 (a, w);
  leaf u1 (.i(w), .o(y));
  leaf u2 (.i(1'b0), .o());
endmodule
`celldefine
module leaf (i, o);
  input i;
  output o;
endmodule
`endcelldefine
"""

EBLIF_FIXED = """.model top
.inputs a b[0] b[1]
.outputs y
.subckt leaf i=a o=w
.cname u0
.param INIT 10
.names w b[0] n1
11 1
.latch n1 q re clk 2
.conn q y
.end

.model leaf
.inputs i
.outputs o
.blackbox
.end
"""


def _decl_name(tok, j):
    """identifier of the nameDef starting at token j: atom | ( rename id .. ) | ( array nameDef .. )"""
    if j >= len(tok):
        return None
    if tok[j] != "(":
        return tok[j] if tok[j] != ")" else None
    if j + 2 < len(tok) and tok[j + 1].lower() == "rename":
        return tok[j + 2]
    if j + 2 < len(tok) and tok[j + 1].lower() == "array":
        return _decl_name(tok, j + 2)
    return None


def edif_scopes(t, sp=None):
    """Independent token scan: which library / cell every token sits in, and what each declares.
    -> (where: list of (lib, cell) names per token, libs: {lib: {cell: {"ports": [...], "insts": {name: (cellref, libref)}}}})"""
    sp = sp or spans_edif(t)
    tok = [t[a:b] for a, b in sp]
    where = []
    libs = {}
    depth = 0
    lib = cell = None
    lib_d = cell_d = None
    for i, x in enumerate(tok):
        if x == "(":
            depth += 1
            k = tok[i + 1].lower() if i + 1 < len(tok) else ""
            if k in ("library", "external") and lib is None:
                lib, lib_d = _decl_name(tok, i + 2), depth
                libs.setdefault(lib.lower() if lib else lib, {})
            elif k == "cell" and lib is not None and cell is None:
                cell, cell_d = _decl_name(tok, i + 2), depth
                libs[lib.lower()].setdefault(cell.lower() if cell else cell, {"ports": [], "insts": {}})
            elif k == "port" and cell is not None:
                n = _decl_name(tok, i + 2)
                if n:
                    libs[lib.lower()][cell.lower()]["ports"].append(n.lower())
            elif k == "instance" and cell is not None:
                n = _decl_name(tok, i + 2)
                cr = lr = None
                for j in range(i + 2, min(i + 24, len(tok) - 1)):
                    if tok[j].lower() == "cellref" and cr is None:
                        cr = tok[j + 1]
                    if tok[j].lower() == "libraryref" and lr is None:
                        lr = tok[j + 1]
                    if tok[j].lower() in ("instance", "net") and j > i + 1:
                        break
                if n:
                    libs[lib.lower()][cell.lower()]["insts"][n.lower()] = ((cr or cell).lower(), (lr or lib).lower())
        where.append((lib, cell))
        if x == ")":
            if cell is not None and depth == cell_d:
                cell = None
            if lib is not None and depth == lib_d:
                lib = None
            depth -= 1
    return where, libs


def edif_rescope(t, sp, sites, rng=None):
    """For every reference site a name that IS declared in the file, but in another scope than the one
    the reference is resolved in: instance of another cell, port of another cell, cell of another library,
    the other library.  `expect` = "raise" when this scan finds the name undeclared in the applicable
    scope (the reader must then reject), else "any"."""
    tok = [t[a:b] for a, b in sp]
    where, libs = edif_scopes(t, sp)
    out = []
    all_insts = sorted({n for L in libs.values() for c in L.values() for n in c["insts"]})
    all_ports = sorted({n for L in libs.values() for c in L.values() for n in c["ports"]})
    all_cells = sorted({n for L in libs.values() for n in L})
    all_libs = sorted(n for n in libs if n)
    for i in sorted(sites):
        kind = sites[i]
        lib, cell = where[i]
        if lib is None:
            lib_l = None
        else:
            lib_l = lib.lower()
        cur = tok[i].lower()
        cands = []
        if kind == "instanceRef" and cell is not None:
            here = libs[lib_l][cell.lower()]["insts"]
            cands = [(n, "raise" if n not in here else "any") for n in all_insts if n != cur]
        elif kind in ("portRef", "portRef.member") and cell is not None:
            # owner: the instance named by the instanceRef that follows inside this portRef, else the cell
            owner = (cell.lower(), lib_l)
            d = 0
            for j in range(i, min(i + 12, len(tok) - 1)):
                if tok[j] == "(":
                    d += 1
                    if tok[j + 1].lower() == "instanceref":
                        owner = libs[lib_l][cell.lower()]["insts"].get(tok[j + 2].lower())
                        break
                elif tok[j] == ")":
                    d -= 1
                    if d < (0 if kind == "portRef" else -1):
                        break
            ports = None
            if owner is not None:
                ports = libs.get(owner[1], {}).get(owner[0], {}).get("ports")
            cands = [(n, "raise" if (ports is not None and n not in ports) else "any") for n in all_ports if n != cur]
        elif kind == "cellRef" and lib_l is not None:
            lr = lib_l
            if i + 3 < len(tok) and tok[i + 1] == "(" and tok[i + 2].lower() == "libraryref":
                lr = tok[i + 3].lower()
            inlib = libs.get(lr)
            cands = [(n, "raise" if (inlib is not None and n not in inlib) else "any") for n in all_cells if n != cur]
        elif kind == "libraryRef":
            cands = [(n, "any") for n in all_libs if n != cur]
        elif kind == "design.cellRef":
            lr = tok[i + 3].lower() if i + 3 < len(tok) and tok[i + 2].lower() == "libraryref" else None
            inlib = libs.get(lr) if lr else None
            cands = [(n, "raise" if (inlib is not None and n not in inlib) else "any") for n in all_cells if n != cur]
        elif kind == "design.libraryRef":
            cn = tok[i - 3].lower() if i >= 3 and tok[i - 4].lower() == "cellref" else None
            cands = [(n, "raise" if (cn and cn not in libs.get(n, {})) else "any") for n in all_libs if n != cur]
        # prefer the ones that must be rejected; one or two per site
        cands.sort(key=lambda x: (x[1] != "raise", x[0]))
        must = [c for c in cands if c[1] == "raise"]
        pick = must[:2] if must else cands[:1]
        if rng is not None and len(must) > 2:
            pick = rng.sample(must, 2)
        for n, ex in pick:
            out.append({"kind": "rescope", "pos": i, "ref": kind, "with": n, "expect": ex})
    return out


UNSUPPORTED_AT = {
    # keyword the insertion goes in front of  ->  constructs the reader documents as unsupported there
    "port": ["(portBundle pb)", "(symbol)", "(protectionFrame)", "(arrayRelatedInfo)", "(parameter p)", "(joined)",
             "(mustJoin)", "(weakJoined)", "(permutable)", "(timing)", "(simulate s)", "(userData u)"],
    "instance": ["(offPageConnector o)", "(figure f)", "(section s)", "(netBundle nb)", "(page p)", "(commentGraphics)",
                 "(portImplementation pi)", "(timing)", "(simulate s)", "(when)", "(follow)", "(logicPort lp)",
                 "(boundingBox)", "(userData u)"],
    "net": ["(netBundle nb)", "(page p)", "(userData u)"],
    "cell": ["(userData u)"],
    "view": ["(viewMap)", "(userData u)"],
    "portref": ["(portList)", "(globalPortRef g)"],
}


# constructs that put a tokenizer into a state (string, escaped identifier, directive, comments)
LEX_OPENERS = {
    "verilog": ['"abc', "\\esc", "`define X", "//c", "/*c"],
    "edif": ['"abc'],
    "eblif": ["\\", "# c"],
}
LEX_JUNK = {"verilog": ["9zz", "@@", "zz_bad"], "edif": ["zz_bad"], "eblif": [".zz_bad"]}
ILLEGAL = {"edif": ["!", "-", "%", "/"], "verilog": ["!", "-", "%", "~"], "eblif": ["!", "[", "=", "%"]}
_IDENT = re.compile(r"^[A-Za-z_&\\][A-Za-z0-9_$\[\]:.]*$")


def long_tokens(fmt, rng=None):
    """long, almost legal identifiers: 30-60 alphanumerics, with and without underscores, that contain
    or end in an illegal character (a backtracking pattern or a quadratic scan shows on these)"""
    r = rng or random_stub()
    n1, n2 = r.randint(30, 60), r.randint(30, 60)
    bad = ILLEGAL[fmt]
    a = ("Ab1c" * 20)[:n1] + r.choice(bad)
    b = ("ab_1_cd2__" * 8)[:n2]
    k = r.randint(n2 // 2, n2 - 2)
    b = b[:k] + r.choice(bad) + b[k:]
    return [a, b]


class random_stub:
    def randint(self, a, b):
        return (a + b) // 2

    def choice(self, l):
        return l[0]


def edif_dup_sites(t, sp):
    """declarations of nets / ports / instances / cells paired with the previous declaration of the same
    kind in the same scope: (first token, last token of this nameDef, kind, previous identifier, previous name)"""
    tok = [t[a:b] for a, b in sp]
    where, _ = edif_scopes(t, sp)
    last = {}
    out = []
    for j in range(2, len(tok)):
        if tok[j - 2] != "(" or tok[j - 1].lower() not in ("net", "port", "instance", "cell"):
            continue
        kind = tok[j - 1].lower()
        if tok[j] == "(" and j + 4 < len(tok) and tok[j + 1].lower() == "rename" and tok[j + 4] == ")":
            ident, name, end = tok[j + 2], tok[j + 3].strip('"'), j + 4
        elif tok[j] not in "()":
            ident, name, end = tok[j], tok[j], j
        else:
            continue
        scope = (kind, where[j][0], where[j][1] if kind != "cell" else None)
        if scope in last:
            pi, pn = last[scope]
            out.append((j, end, kind, pi, pn))
        last[scope] = (ident, name)
    return out


def corruptions(rec, rng=None, sample=None, n_replace=None):
    """All single corruptions of a text record.  `n_replace`: how many of the junk replacements per
    token (None = all); `sample`: keep a seeded, class-balanced sample of about that size.  Entries with
    "must" are never sampled away: everything at the FIRST and LAST token (all junk replacements),
    truncation at 0 and 1; for records flagged "full_refs" also every reference corruption."""
    t = rec["text"]
    fmt = rec["fmt"]
    sp = SPANS[fmt](t)
    n = len(sp)
    out = []
    for i in range(n):
        edge = i == 0 or i == n - 1
        out.append({"kind": "truncate", "pos": i, "must": edge or i == 1 or bool(rec.get("full_truncate")),
                    "one_policy": not (edge or i == 1)})
        out.append({"kind": "delete", "pos": i, "must": edge})
        out.append({"kind": "duplicate", "pos": i, "must": edge})
        cur = t[sp[i][0]:sp[i][1]]
        junk = [j for j in JUNK[fmt] if j != cur]
        if not edge and n_replace is not None and rng is not None and len(junk) > n_replace:
            junk = rng.sample(junk, n_replace)
        for j in junk:
            out.append({"kind": "replace", "pos": i, "with": j, "must": i == 0})
    if n:
        out.append({"kind": "truncate", "pos": n, "must": True})  # = the valid text without trailing blanks
    fixed = bool(rec.get("full_truncate") or rec.get("full_refs"))
    spread = set(range(0, n, max(1, n // 6))) if fixed else set()
    for i in range(n):
        cur = t[sp[i][0]:sp[i][1]]
        # the text ends INSIDE a lexical state / the error point sits directly in front of one
        for op in LEX_OPENERS[fmt]:
            out.append({"kind": "lexstate", "pos": i, "mode": "cut_inside", "with": op, "must": i in spread, "one_policy": True})
            for jk in LEX_JUNK[fmt]:
                out.append({"kind": "lexstate", "pos": i, "mode": "bad_before", "with": jk + op, "must": False})
        # a long, almost legal identifier in every identifier position
        if _IDENT.match(cur) and (i == 0 or t[sp[i - 1][0]:sp[i - 1][1]] != "(" or fmt != "edif"):
            for lt in long_tokens(fmt, rng):
                out.append({"kind": "longid", "pos": i, "with": lt, "must": fixed and i in spread, "one_policy": True})
    if fmt == "edif":
        full = bool(rec.get("full_refs"))
        sites = dict(edif_ref_sites(t, sp))
        sites.update(dict(edif_design_sites(t, sp)))
        for i in sorted(sites):
            out.append({"kind": "retarget", "pos": i, "ref": sites[i], "with": "zz_undeclared", "must": full, "one_policy": True})
            cur = t[sp[i][0]:sp[i][1]]
            if cur.swapcase() != cur:
                # EDIF identifiers are case-insensitive: still the same reference
                out.append({"kind": "recase", "pos": i, "ref": sites[i], "with": cur.swapcase(), "must": full, "one_policy": True})
        for (a, b, kind, pi, pn) in edif_dup_sites(t, sp):
            # the NAME of the previous sibling under a fresh identifier / its identifier under a fresh name
            out.append({"kind": "dupname", "pos": a, "end": b, "decl": kind, "with": '(rename zz_fresh_id "%s")' % pn,
                        "must": full, "one_policy": True})
            out.append({"kind": "dupid", "pos": a, "end": b, "decl": kind, "with": '(rename %s "zz fresh name")' % pi,
                        "must": full, "one_policy": True})
        for c in edif_rescope(t, sp, sites, rng):
            c["must"] = full
            c["one_policy"] = True
            out.append(c)
        tok = [t[a:b] for a, b in sp]
        for i in range(n - 1):
            if tok[i] == "(" and tok[i + 1].lower() in UNSUPPORTED_AT:
                for u in UNSUPPORTED_AT[tok[i + 1].lower()]:
                    out.append({"kind": "unsupported", "pos": i, "with": u})
    for c in out:
        if not c.get("must"):
            c.pop("must", None)
    if sample is not None and rng is not None and len(out) > sample:
        must = [c for c in out if c.get("must")]
        rest = [c for c in out if not c.get("must")]
        # keep every class represented
        byk = {}
        for c in rest:
            byk.setdefault(c["kind"], []).append(c)
        pick = []
        per = max(1, sample // max(1, len(byk)))
        for k in sorted(byk):
            lst = byk[k]
            pick.extend(rng.sample(lst, min(per, len(lst))))
        out = must + pick
    return out


def apply(rec, c):
    t = rec["text"]
    sp = SPANS[rec["fmt"]](t)
    k = c["kind"]
    i = c["pos"]
    if k == "none":
        return t
    if k == "edge":
        return c["text"]
    if k == "truncate":
        return t[:sp[i][0]] if i < len(sp) else t[:sp[-1][1]]
    a, b = sp[i]
    if k == "delete":
        return t[:a] + t[b:]
    if k == "duplicate":
        return t[:b] + " " + t[a:b] + t[b:]
    if k in ("dupname", "dupid"):
        return t[:a] + c["with"] + t[sp[c["end"]][1]:]
    if k == "lexstate":
        if c["mode"] == "cut_inside":
            return t[:a] + c["with"]
        return t[:a] + c["with"] + " " + t[a:]
    if k in ("replace", "retarget", "recase", "rescope", "longid"):
        return t[:a] + c["with"] + t[b:]
    if k == "unsupported":
        return t[:a] + c["with"] + " " + t[a:]
    raise ValueError(k)
