"""Engine IR: heap-level state machine of the spydrnet IR (C01, C02, C14 structural part)."""
import copy
import json
import os
import random

from common import lean
from common.ctx import ROOT, stable_hash
from common.shard import ShardResult, run_shards
from engines import irgen
from engines.irlib import World, execute, dump_impl, canon_model_dump, oracle, prepare, cleanup, model_apply, observe, bundle_expect

MODULES = {"C01": ["Spydr.IR.Props.C01"], "C02": ["Spydr.IR.Props.C02"], "C14": ["Spydr.IR.Props.C14", "Spydr.IR.Props.C14Names"]}
from registry import META
THEOREMS = {p: META[p]["theorems"] for p in ("C01", "C02", "C14") if p in META}
PROFILE = {"C01": "c01", "C02": "c02", "C14": "c14"}

# clauses of the oracle that belong to each property's statement
C01_CLAUSES = ("containment.", "wire.", "pin.", "outer_pin.reports")
C02_CLAUSES = ("refs.", "mirror.", "dropped_outer_pin.", "wire.lists_dropped", "wire.lists_outer_pin_not_stored")


def snapshot(world):
    d = dump_impl(world)
    data = {}
    for kind, objs in world.objs.items():
        if kind in ("pin", "wire"):
            continue
        for lab, o in objs.items():
            data["%s%d" % (kind, lab)] = sorted((k, repr(v)) for k, v in o._data.items())
            if kind in ("port", "cable"):
                # the stored shape flags (a refused is_scalar / is_array assignment must not leave its value behind)
                data["%s%d" % (kind, lab)].append(("<flags>", repr((o._is_scalar, o._is_downto, o._lower_index))))
            if kind == "instance":
                # the public flag 'is_top_instance' (a refused call must not touch it either)
                data["%s%d" % (kind, lab)].append(("<is_top_instance>", repr(getattr(o, "is_top_instance", None))))
    # what the naming layer holds and answers (a structural refusal must not disturb it either)
    from spydrnet.plugins import namespace_manager
    tables, answers = {}, {}
    for kind in ("netlist", "library", "definition"):
        for lab, o in world.objs[kind].items():
            ns = namespace_manager.namespaces.get(o)
            if ns is not None:
                t = {}
                for attr in ("namespaces", "edif_namespaces"):
                    for cls, tab in getattr(ns, attr, {}).items():
                        t["%s:%s" % (attr, cls.__name__)] = sorted((repr(k), world.label(v)) for k, v in tab.items())
                tables["%s%d" % (kind, lab)] = t
            kids = {"netlist": [("library", o.libraries, o.get_libraries)] if kind == "netlist" else [],
                    "library": [("definition", o.definitions, o.get_definitions)] if kind == "library" else [],
                    "definition": [("port", o.ports, o.get_ports), ("cable", o.cables, o.get_cables), ("instance", o.children, o.get_instances)] if kind == "definition" else []}[kind]
            for ck, lst, getter in kids:
                for nm in sorted(set(x.name for x in lst if isinstance(x.name, str) and not any(ch in x.name for ch in "*?["))):
                    answers["%s%d/%s/%s" % (kind, lab, ck, nm)] = sorted(world.label(x, ck) for x in getter(nm))
    return {"dump": d, "data": data, "tables": tables, "answers": answers}


def positional_wires(world, op, after=False):
    """for `instance.reference = other definition` on an already referenced instance: the wire of the outer
    pin at every (port position, bit position)"""
    if op["t"] != "setRef" or op.get("d") is None:
        return None
    inst = world.objs["instance"].get(op["i"])
    if inst is None or inst._reference is None:
        return None
    if not after and inst._reference is None:
        return None
    out = []
    for p in inst._reference._ports:
        row = []
        for q in p._pins:
            o = inst._pins.get(q)
            row.append(None if o is None else world.label(o._wire, "wire"))
        out.append(row)
    return out


def run_script(ops_or_len, rng, profile, drv, res, pid, record=None, check_every=True):
    """Run one history on the implementation and on the model in lockstep.
    `ops_or_len`: a list of ops (replay / shrinking) or an int (generate adaptively).
    Returns list of findings: dicts(kind='spec'|'corr', signature, step, detail)."""
    world = World()
    drv.ask({"cmd": "reset"})
    findings = []
    gen = isinstance(ops_or_len, int)
    n = ops_or_len if gen else len(ops_or_len)
    script = []
    cur = dump_impl(world)
    last = None
    for k in range(n):
        op = (irgen.followup(rng, cur, last) or irgen.gen_op(rng, cur, profile, compound=True, badpos=True, ident_veto=True)) if gen else ops_or_len[k]
        if gen and k == n - 1 and k >= 4 and rng.random() < 0.3:
            kinds = [kd for kd in ("netlist", "library", "definition", "instance", "port", "cable", "wire", "pin") if world.objs[kd]]
            if kinds:
                kd = rng.choice(kinds)
                op = {"t": "heapClone", "kind": kd, "x": rng.choice(sorted(world.objs[kd]))}
        script.append(op)
        if op["t"] == "heapClone":
            # last step of a history: clone() of any element of whatever heap the calls produced. A clone the library
            # refuses (assertion) is fine; one it returns must leave originals + copy consistent (C01/C02 oracle)
            from engines import irclone
            x = world.objs[op["kind"]].get(op["x"])
            if x is not None:
                try:
                    c = x.clone()
                except Exception:
                    c = None
                if c is not None:
                    world.keep.append(c)
                    irclone.label_elem_clone(world, op["kind"], x, c, max(world.counts().values()) + 1)
                    for clause, detail in oracle(world):
                        prop = "C02" if clause.startswith(C02_CLAUSES) else "C01"
                        findings.append({"kind": "spec", "prop": prop, "signature": "heapClone.%s" % clause, "step": k, "detail": detail})
                    res.dist("op:heapClone:" + op["kind"])
            break
        observe(world)
        tok = prepare(world, op)
        before = snapshot(world)
        repoint_before = positional_wires(world, op)
        oprng = random.Random(stable_hash(op))
        bexp = bundle_expect(world, op) if op["t"] == "bundleFlag" else None
        out = execute(world, op, oprng, tok)
        world.note_outer_pins()
        last = (op, out)
        mres = model_apply(drv, op) if bexp is None else {"res": bexp, "events": [], "prims": []}
        if "error" in mres:
            raise RuntimeError("driver rejected op %r: %s" % (op, mres["error"]))
        cur = dump_impl(world)
        res.dist("op:" + op["t"])
        res.dist("outcome:" + out)
        # --- P on the implementation: refused => nothing changed (C14)
        after = snapshot(world) if out != "ok" else None
        cleanup(world, op, tok)
        cur = dump_impl(world)
        if out != "ok":
            if after != before:
                what = [kk for kk in after["dump"] if after["dump"][kk] != before["dump"].get(kk)] + \
                       [part for part in ("data", "tables", "answers") if after.get(part) != before.get(part)]
                findings.append({"kind": "spec", "prop": "C14", "signature": "%s.refused_%s.state_changed" % (op["t"], out),
                                 "step": k, "detail": "refused call changed %s" % (what or "data")})
        # --- P: re-pointing to a shape-compatible definition keeps every connection on the corresponding pin (C02)
        if repoint_before is not None and out == "ok":
            now = positional_wires(world, op, after=True)
            if now != repoint_before:
                findings.append({"kind": "spec", "prop": "C02", "signature": "setRef.repoint.connection_moved", "step": k,
                                 "detail": "wires by (port position, bit) before %s after %s" % (repoint_before, now)})
        # --- P on the implementation: statement-level oracle (C01/C02)
        for clause, detail in oracle(world):
            prop = "C02" if clause.startswith(C02_CLAUSES) else "C01"
            findings.append({"kind": "spec", "prop": prop, "signature": "%s.%s" % (op["t"], clause), "step": k, "detail": detail})
        # --- correspondence: outcome class and full state
        if out != mres["res"]:
            findings.append({"kind": "corr", "prop": "*", "signature": "%s.outcome" % op["t"], "step": k,
                             "detail": "impl %s, model %s" % (out, mres["res"])})
        md = canon_model_dump(drv.ask({"cmd": "dump", "n": world.counts()}))
        if md != cur:
            diff = [kk for kk in cur if cur[kk] != md.get(kk)]
            findings.append({"kind": "corr", "prop": "*", "signature": "%s.state" % op["t"], "step": k,
                             "detail": "dumps differ in %s" % diff, "impl": {kk: cur[kk] for kk in diff}, "model": {kk: md.get(kk) for kk in diff}})
        if findings:
            break
    if record is not None:
        record.extend(script)
    return findings, script


def shrink(script, sig, profile, drv, pid):
    """Delta-debug: drop ops while the same signature is still reported."""
    res = ShardResult()

    def fails(s):
        try:
            f, _ = run_script(s, random.Random(0), profile, drv, res, pid)
        except Exception:
            return False
        return any(x["signature"] == sig for x in f)
    cur = list(script)
    chunk = max(1, len(cur) // 2)
    while chunk >= 1:
        i = 0
        changed = False
        while i < len(cur):
            cand = cur[:i] + cur[i + chunk:]
            if cand and fails(cand):
                cur = cand
                changed = True
            else:
                i += chunk
        if chunk == 1 and not changed:
            break
        chunk = max(1, chunk // 2) if chunk > 1 else (1 if changed else 0)
        if chunk == 0:
            break
    return cur


def shard(pid, tier, seed, idx, n_scripts, length):
    res = ShardResult()
    drv = lean.Driver("drv_ir")
    profile = PROFILE[pid]
    try:
        # corpus first
        cdir = os.path.join(ROOT, "corpus", pid)
        if idx == 0 and os.path.isdir(cdir):
            for fn in sorted(os.listdir(cdir)):
                if fn.endswith(".json"):
                    item = json.load(open(os.path.join(cdir, fn)))
                    if item.get("engine", "ir") == "ir":
                        handle(pid, item["script"], None, profile, drv, res, "corpus:" + fn)
        for j in range(n_scripts):
            rng = random.Random(stable_hash([seed, pid, idx, j]))
            L = rng.randint(max(5, length // 3), length)
            handle(pid, L, rng, profile, drv, res, "gen")
    finally:
        drv.close()
    return res


def handle(pid, ops_or_len, rng, profile, drv, res, origin):
    findings, script = run_script(ops_or_len, rng or random.Random(0), profile, drv, res, pid)
    accepted = sum(1 for _ in script)
    res.case(stable_hash(script), nontrivial=len(script) >= 3)
    res.sample({"origin": origin, "length": len(script), "first_ops": script[:6]})
    done = res.setdefault("_shrunk", set())
    for f in findings:
        if f["kind"] == "spec" and f["prop"] != pid:
            continue          # reported by the check of the property it belongs to
        if f["signature"] in done:
            # already minimised once in this shard: record the occurrence only
            if f["kind"] == "spec":
                res.spec_failure(f["signature"], {"script": script[:f["step"] + 1]}, f["detail"])
            continue
        done.add(f["signature"])
        if f["kind"] == "spec":
            small = shrink(script[:f["step"] + 1], f["signature"], profile, drv, pid)
            res.spec_failure(f["signature"], {"script": small}, f["detail"])
        else:
            small = shrink(script[:f["step"] + 1], f["signature"], profile, drv, pid)
            res.corr_mismatch("model step = implementation (%s)" % f["signature"], {"script": small},
                              f.get("impl"), f.get("model"), signature=KNOWN_CORR.get(f["signature"]))
            # search: does the property itself fail on the implementation near this input?
            # (the oracle / snapshot checks already ran on every prefix of this script: no P failure seen)


# correspondence divergences that are the direct effect of a listed open finding (model follows the repair)
KNOWN_CORR = {}


def run(ctx):
    pid = ctx.pid
    lean.check_obligations(ctx, "Spydr/IR", MODULES[pid], ["drv_ir"], "Spydr/IR/Audit.lean", THEOREMS[pid])
    ctx.rule = ("random public-API histories (adaptive generator, %s profile: create/add/remove/bulk-remove/reorder of every container, "
                "connect/disconnect through stored and proxy outer pins, reference changes, top instance) over 1-3 netlists sharing one heap; "
                "after EVERY call: outcome class + full state dump vs the Lean model, the statement-level oracle on all objects ever seen, "
                "and snapshot equality after every refused call. distinct = distinct op scripts; non-trivial = length >= 3" % PROFILE[pid])
    ctx.assumptions = ["element arguments are objects of the right class (a Port is never passed where a Cable is expected); INVALID VALUES of a parameter are generated: a non-integer position on every add_* / connect_pin, a non-instance assigned to top_instance (refused, nothing may change, nothing announced)",
                       "proxy outer pins' own _wire field is not part of the netlist state (DESIGN §5.1)"]
    if ctx.replay:
        item = json.load(open(ctx.replay if os.path.isabs(ctx.replay) else os.path.join(ROOT, ctx.replay)))
        res = ShardResult()
        drv = lean.Driver("drv_ir")
        handle(pid, item["input"]["script"], None, PROFILE[pid], drv, res, "replay")
        drv.close()
        ctx.merge_shard(res)
        return
    nshards = 16
    n_scripts = ctx.scale(200, 800)
    length = ctx.scale(80, 250)
    run_shards(ctx, shard, [(pid, ctx.tier, ctx.seed, i, n_scripts, length) for i in range(nshards)])
    if pid == "C14":
        # naming half: histories over colliding names / identifiers under both policies (shared with C10);
        # P = identity-level data + table-derived lookup answers unchanged around every refused call
        from engines import irnames
        run_shards(ctx, irnames.shard, [("C14", ctx.tier, ctx.seed, i, ctx.scale(40, 150), ctx.scale(50, 90), True) for i in range(nshards)])
    if ctx.tier == "thorough":
        lean.leanchecker(ctx, MODULES[pid])
