"""Engine IR, clone (C07): faithful, self-contained, independent copies."""
import json
import os
import random

import spydrnet as sdn
from spydrnet.ir.outerpin import OuterPin as _OuterPinBase

from common import lean, gen, canon
from common.ctx import ROOT, stable_hash
from common.shard import ShardResult, run_shards
from registry import META


def reach(nl):
    """identity set of every element reachable from a netlist (ids) + keepalive list"""
    ids = {}

    def add(o, what):
        if o is not None:
            ids[id(o)] = (what, o)
    add(nl, "netlist")
    for lib in nl._libraries:
        add(lib, "library")
        for d in lib._definitions:
            add(d, "definition")
            for p in d._ports:
                add(p, "port")
                for q in p._pins:
                    add(q, "pin")
            for c in d._cables:
                add(c, "cable")
                for w in c._wires:
                    add(w, "wire")
                    for x in w._pins:
                        add(x, "wirepin")
            for k in d._children:
                add(k, "instance")
                for q, o in k._pins.items():
                    add(o, "outerpin")
                    add(q, "pin-key")
                add(k._reference, "reference")
            for r in d._references:
                add(r, "ref-member")
    t = nl._top_instance
    if t is not None:
        add(t, "top")
        add(t._reference, "top-reference")
        for q, o in t._pins.items():
            add(o, "outerpin")
            add(q, "pin-key")
    return ids


def fingerprint(nl):
    return json.dumps(canon.cnetlist(nl), sort_keys=True, default=str)


def name_queries(nl):
    """answers of exact-name queries for every named child in every scope"""
    out = []
    for lib in nl._libraries:
        if lib.name is not None:
            out.append(("lib", lib.name, [x.name for x in sdn.get_libraries(nl, lib.name)]))
        for d in lib._definitions:
            if d.name is not None:
                out.append(("def", d.name, [x.name for x in sdn.get_definitions(lib, d.name)]))
            for kind, lst, fn in (("port", d._ports, sdn.get_ports), ("cable", d._cables, sdn.get_cables), ("inst", d._children, sdn.get_instances)):
                for x in lst:
                    if x.name is not None:
                        out.append((kind, x.name, [y.name for y in fn(d, x.name)]))
    return out


def mutate_nested(v):
    """in-place edit of a nested data value"""
    if isinstance(v, list):
        v.append("edited")
        for x in v:
            mutate_nested(x) if isinstance(x, (list, dict)) else None
    elif isinstance(v, dict):
        v["edited"] = True
        for x in list(v.values()):
            mutate_nested(x) if isinstance(x, (list, dict)) else None


def edit(nl, rng):
    """a burst of edits / transformations on one netlist"""
    ops = 0
    # in-place edits of nested user data on every kind of element (deep copies must not share them)
    els = [nl] + [l for l in nl._libraries] + [d for l in nl._libraries for d in l._definitions]
    for d in [d for l in nl._libraries for d in l._definitions]:
        els += list(d._ports) + list(d._cables) + list(d._children)
    if nl._top_instance is not None:
        els.append(nl._top_instance)
    for e in els:
        for k, v in list(e._data.items()):
            if isinstance(v, (list, dict)):
                mutate_nested(v)
    for lib in list(nl._libraries):
        for d in list(lib._definitions):
            r = rng.random()
            try:
                if r < 0.2 and d._children:
                    d.remove_child(rng.choice(d._children))
                elif r < 0.4:
                    p = d.create_port()
                    p.create_pins(rng.randint(1, 2))
                elif r < 0.55 and d._cables:
                    c = rng.choice(d._cables)
                    for w in c._wires:
                        if w._pins:
                            w.disconnect_pin(w._pins[0])
                elif r < 0.7 and d._ports:
                    d.remove_port(rng.choice(d._ports))
                elif r < 0.8:
                    d["edited"] = rng.randint(0, 9)
                elif r < 0.9 and d._cables:
                    d.remove_cable(rng.choice(d._cables))
                ops += 1
            except Exception:  # noqa: BLE001 - some edits are refused (names); irrelevant here
                pass
    try:
        if rng.random() < 0.5 and nl._top_instance is not None and nl._top_instance._reference is not None:
            sdn.uniquify(nl)
            if rng.random() < 0.5:
                sdn.flatten(nl)
    except Exception:  # noqa: BLE001
        pass
    return ops


def check_netlist_clone(nl, rng, res, inp):
    fails = []
    before = fingerprint(nl)
    wf_before = canon.wf_problems(nl)
    ids_orig = reach(nl)
    q_orig = name_queries(nl)
    c = nl.clone()
    # the source is not modified
    if fingerprint(nl) != before:
        fails.append(("netlist.clone.source_modified", "fingerprint of the original changed"))
    if canon.wf_problems(nl) != wf_before:
        fails.append(("netlist.clone.source_modified", "well-formedness of the original changed: %s" % canon.wf_problems(nl)[:2]))
    ids_orig2 = reach(nl)
    if set(ids_orig2) != set(ids_orig):
        extra = [v[0] for k, v in ids_orig2.items() if k not in ids_orig]
        fails.append(("netlist.clone.source_gained_elements", "original now reaches new objects: %s" % extra[:3]))
    # structurally identical
    if fingerprint(c) != before:
        a, b = json.loads(before), json.loads(fingerprint(c))
        diff = [k for k in a if a[k] != b.get(k)]
        fails.append(("netlist.clone.not_identical", "differs in %s" % diff))
    # shares no element
    ids_c = reach(c)
    shared = [ids_c[k][0] for k in ids_c if k in ids_orig]
    if shared:
        for what in sorted(set(shared)):
            fails.append(("netlist.clone.shares.%s" % what, "%d shared objects of this role" % shared.count(what)))
    # every link resolves inside the copy (well-formed, self-contained)
    for prob in sorted(set(canon.wf_problems(c))):
        fails.append(("netlist.clone.wf.%s" % prob.replace(" ", "_"), prob))
    # answers queries like the original
    q_c = name_queries(c)
    if q_c != q_orig:
        bad = [(a, b) for a, b in zip(q_orig, q_c) if a != b][:2]
        fails.append(("netlist.clone.name_lookup_differs", str(bad)))
    # independence: edit one side, the other does not move
    if not fails:
        fc = fingerprint(c)
        edit(c, rng)
        if fingerprint(nl) != before or canon.wf_problems(nl) != wf_before:
            fails.append(("netlist.clone.edit_of_clone_shows_in_original", ""))
        fc2 = fingerprint(c)
        wfc2 = canon.wf_problems(c)
        edit(nl, rng)
        if fingerprint(c) != fc2 or canon.wf_problems(c) != wfc2:
            fails.append(("netlist.clone.edit_of_original_shows_in_clone", ""))
    return fails


def defs_of(nl):
    return [d for lib in nl._libraries for d in lib._definitions]


def check_element_clones(nl, rng, res, inp):
    """library / definition / instance / port / cable / wire / pin clones: detached, same inner structure,
    side connections cut, reference sets of shared definitions updated as documented, source untouched."""
    fails = []
    before = fingerprint(nl)
    wf0 = canon.wf_problems(nl)
    refs0 = {id(d): set(map(id, d._references)) for d in defs_of(nl)}
    keep = []

    def source_check(tag, allowed_new_refs=()):
        if fingerprint(nl) != before:
            fails.append(("%s.clone.source_modified" % tag, "structure of the source changed"))
        for d in defs_of(nl):
            now = set(map(id, d._references))
            extra = now - refs0[id(d)] - set(map(id, allowed_new_refs))
            missing = refs0[id(d)] - now
            if extra or missing:
                fails.append(("%s.clone.reference_set_bookkeeping" % tag, "definition %s: %d unexpected, %d missing members" % (d.name, len(extra), len(missing))))
        # documented additions stay from now on
        for d in defs_of(nl):
            refs0[id(d)] = set(map(id, d._references))

    ds = defs_of(nl)
    # ---- port
    ports = [p for d in ds for p in d._ports]
    if ports:
        p = rng.choice(ports)
        c = p.clone()
        keep.append(c)
        if c._definition is not None:
            fails.append(("port.clone.not_orphaned", ""))
        if (len(c._pins), c.name, c.direction, c._is_scalar, c._lower_index, c._is_downto, canon.jdata(c)) != (len(p._pins), p.name, p.direction, p._is_scalar, p._lower_index, p._is_downto, canon.jdata(p)):
            fails.append(("port.clone.not_identical", ""))
        if any(q._wire is not None or q._port is not c for q in c._pins) or any(x is y for x in c._pins for y in p._pins):
            fails.append(("port.clone.pins_not_detached", ""))
        source_check("port")
    # ---- cable
    cables = [c for d in ds for c in d._cables]
    if cables:
        cb = rng.choice(cables)
        c = cb.clone()
        keep.append(c)
        if c._definition is not None:
            fails.append(("cable.clone.not_orphaned", ""))
        if (len(c._wires), c.name, c._is_scalar, c._lower_index, c._is_downto, canon.jdata(c)) != (len(cb._wires), cb.name, cb._is_scalar, cb._lower_index, cb._is_downto, canon.jdata(cb)):
            fails.append(("cable.clone.not_identical", ""))
        if any(w._pins or w._cable is not c for w in c._wires) or any(x is y for x in c._wires for y in cb._wires):
            fails.append(("cable.clone.wires_not_detached", ""))
        source_check("cable")
        if cb._wires:
            w = rng.choice(cb._wires)
            wc = w.clone()
            if wc._cable is not None or wc._pins:
                fails.append(("wire.clone.not_detached", ""))
            source_check("wire")
    # ---- pins
    if ports:
        p = rng.choice(ports)
        if p._pins:
            q = rng.choice(p._pins)
            qc = q.clone()
            if qc._port is not None or qc._wire is not None:
                fails.append(("innerpin.clone.not_detached", ""))
            source_check("innerpin")
    insts = [k for d in ds for k in d._children]
    if insts:
        k = rng.choice(insts)
        if len(k._pins):
            o = rng.choice(list(k._pins.values()))
            oc = o.clone()
            if oc._instance is not None or oc._inner_pin is not None or oc._wire is not None:
                fails.append(("outerpin.clone.not_detached", ""))
            source_check("outerpin")
        # ---- instance: keeps its reference (joins that reference set), no parent, no wires, outer pins keep inner pins
        kc = k.clone()
        keep.append(kc)
        if kc._parent is not None:
            fails.append(("instance.clone.not_orphaned", ""))
        if kc._reference is not k._reference:
            fails.append(("instance.clone.reference_not_kept", ""))
        elif k._reference is not None and kc not in k._reference._references:
            fails.append(("instance.clone.not_in_reference_set", ""))
        if (kc.name, canon.jdata(kc)) != (k.name, canon.jdata(k)):
            fails.append(("instance.clone.not_identical", ""))
        if [id(q) for q in kc._pins.keys()] != [id(q) for q in k._pins.keys()]:
            fails.append(("instance.clone.outer_pins_lost_inner_pins", ""))
        for q, o in kc._pins.items():
            if o._wire is not None:
                fails.append(("instance.clone.outer_pin_still_wired", ""))
            if o._instance is not kc or o._inner_pin is not q:
                fails.append(("instance.clone.outer_pin_names_wrong_pair", ""))
            if any(o is o2 for o2 in k._pins.values()):
                fails.append(("instance.clone.shares_outer_pin", ""))
        source_check("instance", allowed_new_refs=[kc])
    # ---- definition
    if ds:
        d = rng.choice(ds)
        dc = d.clone()
        keep.append(dc)
        fails += check_def_clone(d, dc, "definition")
        source_check("definition", allowed_new_refs=list(dc._children))
    # ---- library
    libs = list(nl._libraries)
    if libs:
        lib = rng.choice(libs)
        lc = lib.clone()
        keep.append(lc)
        if lc._netlist is not None:
            fails.append(("library.clone.not_orphaned", ""))
        if len(lc._definitions) != len(lib._definitions) or (lc.name, canon.jdata(lc)) != (lib.name, canon.jdata(lib)):
            fails.append(("library.clone.not_identical", ""))
        else:
            dmap = {id(a): b for a, b in zip(lib._definitions, lc._definitions)}
            for a, b in zip(lib._definitions, lc._definitions):
                fails += check_def_clone(a, b, "library", dmap=dmap, lib=lc)
        source_check("library", allowed_new_refs=[k for b in lc._definitions for k in b._children])
    return fails


def check_def_clone(d, dc, tag, dmap=None, lib=None):
    """dc is the copy of d (inside a cloned library when dmap is given)"""
    fails = []
    if dmap is None and dc._library is not None:
        fails.append(("definition.clone.not_orphaned", ""))
    if dmap is not None and dc._library is not lib:
        fails.append(("library.clone.definition_parent", ""))

    def shape(x):
        return (x.name, canon.jdata(x), [(p.name, canon.dir_name(p), len(p._pins), p._is_scalar, p._lower_index, p._is_downto, canon.jdata(p)) for p in x._ports],
                [(c.name, len(c._wires), c._is_scalar, c._lower_index, c._is_downto, canon.jdata(c)) for c in x._cables],
                [(k.name, canon.jdata(k)) for k in x._children])
    if shape(d) != shape(dc):
        fails.append(("%s.clone.not_identical" % tag, "names/data/shapes differ"))
        return fails
    # references of children: inside the cloned library -> the copies; otherwise kept, and registered there
    for k, kc in zip(d._children, dc._children):
        want = k._reference
        if dmap is not None and want is not None and id(want) in dmap:
            want = dmap[id(want)]
        if kc._reference is not want:
            fails.append(("%s.clone.child_reference" % tag, "child %s references %s" % (kc.name, "the original's definition" if kc._reference is k._reference else "something else")))
        elif want is not None and kc not in want._references:
            fails.append(("%s.clone.child_not_in_reference_set" % tag, ""))
        if kc._parent is not dc:
            fails.append(("%s.clone.child_parent" % tag, ""))
        if kc._reference is not None:
            inner = [q for p in kc._reference._ports for q in p._pins]
            if [id(q) for q in kc._pins.keys()] != [id(q) for q in inner] and set(map(id, kc._pins.keys())) != set(map(id, inner)):
                fails.append(("%s.clone.child_outer_pins_do_not_mirror_reference" % tag, ""))
            for q, o in kc._pins.items():
                if o._instance is not kc or o._inner_pin is not q:
                    fails.append(("%s.clone.child_outer_pin_names_wrong_pair" % tag, ""))
    if dmap is None and len(dc._references):
        fails.append(("definition.clone.references_not_cleared", ""))
    if dmap is not None:
        # reference set of a cloned definition: exactly the cloned instances that reference it
        want = set(id(kc) for b in lib._definitions for kc in b._children if kc._reference is dc)
        if set(map(id, dc._references)) != want:
            fails.append(("library.clone.reference_set_inside", "has %d members, expected %d" % (len(dc._references), len(want))))
    # connectivity: same wires, each pin replaced by its copy; nothing of the original is touched
    ppos = {id(q): (pi, bi) for pi, p in enumerate(d._ports) for bi, q in enumerate(p._pins)}
    kpos = {id(k): ki for ki, k in enumerate(d._children)}

    def conn(x, ports, kids):
        out = []
        pp = {id(q): ("p", pi, bi) for pi, p in enumerate(ports) for bi, q in enumerate(p._pins)}
        kk = {id(k): ki for ki, k in enumerate(kids)}
        for c in x._cables:
            for w in c._wires:
                row = []
                for pin in w._pins:
                    if isinstance(pin, _OuterPinBase):
                        inst = pin._instance
                        if inst is None or id(inst) not in kk:
                            row.append(("foreign-outer",))
                        else:
                            keys = list(inst._pins.keys())
                            idx = next((i for i, q in enumerate(keys) if inst._pins[q] is pin), -1)
                            row.append(("i", kk[id(inst)], idx))
                    else:
                        row.append(pp.get(id(pin), ("foreign-inner",)))
                    if pin._wire is not w:
                        row.append(("pin-reports-other-wire",))
                out.append(row)
        return out
    if conn(d, d._ports, d._children) != conn(dc, dc._ports, dc._children):
        fails.append(("%s.clone.connectivity" % tag, "wires of the copy do not join the copies of the same pins"))
    for p in dc._ports:
        for q in p._pins:
            if q._wire is not None and (q._wire._cable is None or q._wire._cable._definition is not dc):
                fails.append(("%s.clone.inner_pin_wired_outside" % tag, ""))
    return fails


# ---------------------------------------------------------------- correspondence with the Lean model (S.double)
def self_contained(n):
    ds = set(id(d) for lib in n._libraries for d in lib._definitions)
    for lib in n._libraries:
        for d in lib._definitions:
            for k in d._children:
                if k._reference is not None and id(k._reference) not in ds:
                    return False
            for r in d._references:
                if r._parent is None and r is not n._top_instance:
                    pass
    t = n._top_instance
    if t is not None:
        if t._reference is None or id(t._reference) not in ds:
            return False
        if t._parent is not None and id(t._parent) not in ds:
            return False
    return True


def label_clone(W, n, c, off):
    """register the objects of the copy under label(original) + off, by parallel traversal"""
    def reg(kind, orig, copy):
        lab = W.lab.get(id(orig))
        if lab is not None and copy is not None and id(copy) not in W.lab:
            W.reg(kind, lab[1] + off, copy)
            if not hasattr(W, "clone_pairs"):
                W.clone_pairs = []
            W.clone_pairs.append((kind, orig, copy))
    reg("netlist", n, c)
    if len(n._libraries) != len(c._libraries):
        return False
    for l0, l1 in zip(n._libraries, c._libraries):
        reg("library", l0, l1)
        if len(l0._definitions) != len(l1._definitions):
            return False
        for d0, d1 in zip(l0._definitions, l1._definitions):
            reg("definition", d0, d1)
            if (len(d0._ports), len(d0._cables), len(d0._children)) != (len(d1._ports), len(d1._cables), len(d1._children)):
                return False
            for p0, p1 in zip(d0._ports, d1._ports):
                reg("port", p0, p1)
                if len(p0._pins) != len(p1._pins):
                    return False
                for q0, q1 in zip(p0._pins, p1._pins):
                    reg("pin", q0, q1)
            for c0, c1 in zip(d0._cables, d1._cables):
                reg("cable", c0, c1)
                if len(c0._wires) != len(c1._wires):
                    return False
                for w0, w1 in zip(c0._wires, c1._wires):
                    reg("wire", w0, w1)
            for k0, k1 in zip(d0._children, d1._children):
                reg("instance", k0, k1)
    if (n._top_instance is None) != (c._top_instance is None):
        return False          # "same top": a netlist with a top instance clones into one with a top instance (and none into none)
    if n._top_instance is not None and c._top_instance is not None:
        reg("instance", n._top_instance, c._top_instance)
    return True


def corr_case(seed, drv, res):
    """random heap built by an IR op script; clone one self-contained netlist; compare with S.double"""
    from engines import irgen
    from engines.irlib import World, execute, dump_impl, canon_model_dump
    rng = random.Random(seed)
    W = World()
    drv.ask({"cmd": "reset"})
    cur = dump_impl(W)
    script = []
    for k in range(rng.randint(25, 70)):
        op = irgen.gen_op(rng, cur, "c02")
        op.pop("veto", None)
        script.append(op)
        out = execute(W, op, random.Random(stable_hash(op)))
        m = drv.ask({"cmd": "op", "op": {kk: v for kk, v in op.items() if kk not in ("create", "asset", "deleter", "stored_only", "proxy")}})
        if out != m["res"]:
            return        # reported by C01/C02
        cur = dump_impl(W)
    if rng.random() < 0.5:
        # element clone on the raw heap (no model here: the netlist part below uses the model on the same heap,
        # so this runs only in the cases that then stop)
        heap_elem_clone(W, rng, res, seed, script)
        res.case(stable_hash([seed, "heapclone"]), nontrivial=len(script) >= 10)
        return

    def cloneable(n):
        # every pin on a wire of the netlist belongs to the netlist (Netlist.clone asserts it), top instance with a reference
        if not n._libraries or (n._top_instance is not None and n._top_instance._reference is None):
            return False
        pins_in = set()
        insts_in = set()
        for lib in n._libraries:
            for d in lib._definitions:
                insts_in.update(id(k) for k in d._children)
                pins_in.update(id(q) for p in d._ports for q in p._pins)
        if n._top_instance is not None:
            insts_in.add(id(n._top_instance))
        wires_in = set(id(w) for lib in n._libraries for d in lib._definitions for cb in d._cables for w in cb._wires)
        t = n._top_instance
        if t is not None:
            if any(o._wire is not None and id(o._wire) not in wires_in for o in t._pins.values()):
                return False
            if t._parent is not None and not any(t._parent is d for lib in n._libraries for d in lib._definitions):
                return False
        for lib in n._libraries:
            for d in lib._definitions:
                for k in d._children:
                    if any(o._wire is not None and id(o._wire) not in wires_in for o in k._pins.values()):
                        return False
                for p in d._ports:
                    if any(q._wire is not None and id(q._wire) not in wires_in for q in p._pins):
                        return False
        for lib in n._libraries:
            for d in lib._definitions:
                for cb in d._cables:
                    for w in cb._wires:
                        for x in w._pins:
                            if isinstance(x, _OuterPinBase):
                                if id(x._instance) not in insts_in:
                                    return False
                            elif id(x) not in pins_in:
                                return False
        return True
    sc = [(lab, n) for lab, n in W.objs["netlist"].items() if self_contained(n) and not canon.wf_problems(n) and n._libraries]
    nsc = [(lab, n) for lab, n in W.objs["netlist"].items() if not self_contained(n) and cloneable(n)
           and all(x == "reference outside the netlist" for x in canon.wf_problems(n, limit=200))]
    res.dist("corr:netlists_self_contained:%d" % len(sc))
    if nsc and (not sc or rng.random() < 0.5):
        return corr_open_netlist(seed, drv, res, W, rng.choice(nsc), script)
    cands = sc
    if not cands:
        return
    lab, n = rng.choice(cands)
    counts = W.counts()
    off = max(counts.values()) + 1
    before = dump_impl(W)
    c = n.clone()
    W.keep.append(c)
    ok = label_clone(W, n, c, off)
    inp = {"seed": seed, "what": "corr", "netlist": lab}
    if not ok:
        res.spec_failure("netlist.clone.not_identical", inp, "shape of the copy differs (parallel traversal failed)")
        return
    after_clone_checks(W, res, "netlist", dict(inp, script=script))
    after = dump_impl(W)
    drv.ask({"cmd": "double", "off": off})
    md = canon_model_dump(drv.ask({"cmd": "dump", "n": W.counts()}))
    # compare the records of every object that exists on the implementation side (twins of objects outside the
    # cloned netlist are unobservable garbage of the model); reference sets restricted to existing instances
    exist_i = set(W.objs["instance"])
    bad = []
    for kind in after:
        for lab2, rec in enumerate(after[kind]):
            if lab2 not in W.objs[kind]:
                continue
            mrec = md[kind][lab2] if lab2 < len(md[kind]) else None
            if mrec is not None and kind == "definition":
                mrec = dict(mrec, refs=[i for i in mrec["refs"] if i in exist_i])
            if rec != mrec:
                bad.append((kind, lab2, rec, mrec))
    # source unchanged (frame)
    for kind in before:
        for lab2, rec in enumerate(before[kind]):
            if after[kind][lab2] != rec:
                res.spec_failure("netlist.clone.source_modified", inp, "%s %d changed" % (kind, lab2))
    if bad:
        res.corr_mismatch("Netlist.clone = S.double (whole-heap duplication) on the cloned netlist", dict(inp, script=script),
                          [b[:3] for b in bad[:3]], [b[3] for b in bad[:3]])
    res.case(stable_hash([seed, "corr"]), nontrivial=len(script) >= 10)
    res.dist("clone:corr")


def after_clone_checks(W, res, what, inp):
    """after ANY clone: the copy carries the same naming policy (.NS is element data: 'same names, data'), and the
    heap — originals, copies and the shared bookkeeping together — satisfies the C01/C02 statement-level oracle"""
    from engines.irlib import oracle
    for (kind, orig, copy) in getattr(W, "clone_pairs", []):
        # a faithful copy is an object of the very same class (clients test `pin.__class__ is sdn.InnerPin`,
        # e.g. Wire.get_driver): not a base class, not another extension
        if type(copy) is not type(orig):
            res.spec_failure("%s.clone.class_differs" % what, inp, "%s: original %s.%s, copy %s.%s" % (kind, type(orig).__module__, type(orig).__name__, type(copy).__module__, type(copy).__name__))
            break
        if hasattr(orig, "_data") and orig._data.get(".NS") != copy._data.get(".NS"):
            res.spec_failure("%s.clone.naming_policy_differs" % what, inp, "%s: original %r, copy %r" % (kind, orig._data.get(".NS"), copy._data.get(".NS")))
            break
    # the copy refuses what the original refuses: as the FIRST thing done to a fresh copy, a new child carrying the
    # name of an existing child of the same class is offered to one copied container (the clone's name bookkeeping is
    # built lazily; an add that arrives before any lookup must still be checked)
    makers = {"netlist": [("_libraries", "create_library")], "library": [("_definitions", "create_definition")],
              "definition": [("_ports", "create_port"), ("_cables", "create_cable"), ("_children", "create_child")]}
    for (kind, orig, copy) in getattr(W, "clone_pairs", []):
        done = False
        for lst, maker in makers.get(kind, []):
            named = [x for x in getattr(copy, lst) if isinstance(x._data.get(".NAME"), str)]
            if not named or copy._data.get(".NS") is None:
                continue
            nm = named[0]._data[".NAME"]
            n0 = len(getattr(copy, lst))
            try:
                getattr(copy, maker)(name=nm)
                outcome = "accepted"
            except ValueError:
                outcome = "refused"
            except Exception as e:  # noqa: BLE001
                outcome = "raised " + type(e).__name__
            if outcome != "refused" or len(getattr(copy, lst)) != n0:
                res.spec_failure("%s.clone.copy_accepts_duplicate_name" % what, inp,
                                 "%s copy: %s(name=%r) although a child of that name exists: %s" % (kind, maker, nm, outcome))
            done = True
            break
        if done:
            break
    W.clone_pairs = []
    for clause, detail in oracle(W):
        res.spec_failure("%s.clone.ill_formed.%s" % (what, clause), inp, detail)
        break


def heap_elem_clone(W, rng, res, seed, script):
    """random heap (any state the public calls can reach): clone a random element of any kind; a clone that the
    library refuses (assertion on connectivity it cannot copy) is skipped, one that it returns must be well-formed"""
    kind = rng.choice(ELEM_KINDS)
    labs = sorted(W.objs[kind])
    if not labs:
        return
    xl = rng.choice(labs)
    x = W.objs[kind][xl]
    inp = {"seed": seed, "what": "corr", "heap_clone": kind, "label": xl, "script": script}
    off = max(W.counts().values()) + 1
    if kind == "netlist" and rng.random() < 0.4:
        # a top instance that is a CHILD of a definition outside this netlist (legal: any instance may be the top):
        # the copy must have a top instance too
        outside = [i for i in W.objs["instance"].values()
                   if i._parent is not None and i._reference is not None and (i._parent._library is None or i._parent._library._netlist is not x)]
        if outside:
            try:
                x.top_instance = rng.choice(sorted(outside, key=lambda i: W.lab[id(i)][1]))
                inp["top_moved_to_outside_child"] = True
            except Exception:
                pass
    try:
        c = x.clone()
    except AssertionError:
        res.dist("clone:heap:%s:refused" % kind)
        return
    except Exception as e:
        if kind == "netlist" and (x._top_instance is not None and x._top_instance._reference is None):
            return
        res.spec_failure("%s.clone.raises.%s" % (kind, type(e).__name__), inp, repr(e)[:200])
        return
    W.keep.append(c)
    W.clone_pairs = []
    if not label_elem_clone(W, kind, x, c, off):
        res.spec_failure("%s.clone.not_identical" % kind, inp, "shape of the copy differs (parallel traversal failed)")
        return
    after_clone_checks(W, res, kind, inp)
    res.dist("clone:heap:%s" % kind)


def corr_open_netlist(seed, drv, res, W, pick, script):
    """a netlist whose instances (or top instance) reference definitions OUTSIDE it: the copy keeps those
    references and joins the outside definitions' reference sets; model: S.cloneElem .netlist"""
    from engines.irlib import dump_impl, canon_model_dump
    lab, n = pick
    off = max(W.counts().values()) + 1
    inp = {"seed": seed, "what": "corr", "netlist": lab, "open": True}
    try:
        c = n.clone()
    except Exception as e:
        res.spec_failure("netlist.clone.raises.%s" % type(e).__name__, dict(inp, script=script), repr(e)[:200])
        return
    W.keep.append(c)
    if not label_clone(W, n, c, off):
        res.spec_failure("netlist.clone.not_identical", inp, "shape of the copy differs (parallel traversal failed)")
        return
    after_clone_checks(W, res, "netlist", dict(inp, script=script))
    after = dump_impl(W)
    m = drv.ask({"cmd": "cloneElem", "kind": "netlist", "x": lab, "off": off})
    if any(r != "ok" for r in m.get("res", ["?"])):
        res.corr_mismatch("S.cloneElem: every call of the prune script is accepted by the model", dict(inp, script=script), "n/a", m.get("res"))
        return
    md = canon_model_dump(drv.ask({"cmd": "dump", "n": W.counts()}))
    exist_i = set(W.objs["instance"])
    bad = []
    for kind in after:
        for lab2, rec in enumerate(after[kind]):
            if lab2 not in W.objs[kind]:
                continue
            mrec = md[kind][lab2] if lab2 < len(md[kind]) else None
            if mrec is not None and kind == "definition":
                mrec = dict(mrec, refs=[i for i in mrec["refs"] if i in exist_i])
            if rec != mrec:
                bad.append((kind, lab2, rec, mrec))
    if bad:
        if any(k == "definition" and r is not None and mr is not None and r["refs"] != mr["refs"] for (k, _, r, mr) in bad):
            res.spec_failure("netlist.clone.outside_reference.copy_not_in_reference_set", dict(inp, script=script),
                             "a cloned instance references a definition outside the netlist but is not in that definition's reference set: %s" % (bad[0][:3],))
        else:
            res.corr_mismatch("Netlist.clone = S.cloneElem .netlist (references out of the netlist kept)", dict(inp, script=script),
                              [b[:3] for b in bad[:3]], [b[3] for b in bad[:3]])
    res.case(stable_hash([seed, "corr-open"]), nontrivial=len(script) >= 10)
    res.dist("clone:corr:open_netlist")


def load_into_model(W, nl, drv):
    """label every object of a generated netlist and rebuild the same heap in the model by a construction
    script (containers first, references after the referenced ports exist, then connections, then top)."""
    ops = []
    defs = []
    W.reg("netlist", W.fresh_label("netlist"), nl)
    n = W.lab[id(nl)][1]
    for lib in nl._libraries:
        W.reg("library", W.fresh_label("library"), lib)
        ops.append({"t": "addLibrary", "n": n, "l": W.lab[id(lib)][1], "pos": None})
        for d in lib._definitions:
            W.reg("definition", W.fresh_label("definition"), d)
            defs.append(d)
            ops.append({"t": "addDefinition", "l": W.lab[id(lib)][1], "d": W.lab[id(d)][1], "pos": None})
    for d in defs:
        dl = W.lab[id(d)][1]
        for p in d._ports:
            W.reg("port", W.fresh_label("port"), p)
            ops.append({"t": "addPort", "d": dl, "p": W.lab[id(p)][1], "pos": None})
            for q in p._pins:
                W.reg("pin", W.fresh_label("pin"), q)
                ops.append({"t": "addPin", "p": W.lab[id(p)][1], "q": W.lab[id(q)][1], "pos": None})
        for c in d._cables:
            W.reg("cable", W.fresh_label("cable"), c)
            ops.append({"t": "addCable", "d": dl, "c": W.lab[id(c)][1], "pos": None})
            for w in c._wires:
                W.reg("wire", W.fresh_label("wire"), w)
                ops.append({"t": "addWire", "c": W.lab[id(c)][1], "w": W.lab[id(w)][1], "pos": None})
    for d in defs:
        for k in d._children:
            W.reg("instance", W.fresh_label("instance"), k)
            ops.append({"t": "createChild", "d": W.lab[id(d)][1], "i": W.lab[id(k)][1],
                        "ref": None if k._reference is None else W.lab[id(k._reference)][1]})
    t = nl._top_instance
    if t is not None and id(t) not in W.lab:
        W.reg("instance", W.fresh_label("instance"), t)
        if t._reference is not None:
            ops.append({"t": "setRef", "i": W.lab[id(t)][1], "d": W.lab[id(t._reference)][1]})
    for d in defs:
        for c in d._cables:
            for w in c._wires:
                for x in w._pins:
                    if isinstance(x, _OuterPinBase):
                        ops.append({"t": "connectOuter", "w": W.lab[id(w)][1], "i": W.lab[id(x._instance)][1], "q": W.lab[id(x._inner_pin)][1], "pos": None})
                    else:
                        ops.append({"t": "connectInner", "w": W.lab[id(w)][1], "q": W.lab[id(x)][1], "pos": None})
    # orphan instances that reference definitions of the netlist
    for d in defs:
        for r in d._references:
            if id(r) not in W.lab:
                W.reg("instance", W.fresh_label("instance"), r)
                ops.append({"t": "setRef", "i": W.lab[id(r)][1], "d": W.lab[id(d)][1]})
    if t is not None:
        ops.append({"t": "setTop", "n": n, "i": W.lab[id(t)][1]})
    for op in ops:
        m = drv.ask({"cmd": "op", "op": op})
        if m.get("res") != "ok":
            raise RuntimeError("model refused construction op %r: %s" % (op, m))
    return ops


def corr_case_gen(seed, drv, res):
    """generated (well-formed, richly connected) netlist loaded into the model; clone vs S.double"""
    from engines.irlib import World, dump_impl, canon_model_dump
    rng = random.Random(seed)
    nl = gen_case(rng)
    extra_shapes(nl, rng)
    if nl._top_instance is not None and nl._top_instance._reference is None:
        return
    W = World()
    drv.ask({"cmd": "reset"})
    load_into_model(W, nl, drv)
    before = dump_impl(W)
    md0 = canon_model_dump(drv.ask({"cmd": "dump", "n": W.counts()}))
    inp = {"seed": seed, "what": "corrgen"}
    if md0 != before:
        diff = [k for k in before if before[k] != md0.get(k)]
        res.corr_mismatch("construction script reproduces the generated netlist in the model", inp, {k: before[k] for k in diff}, {k: md0[k] for k in diff})
        return
    off = max(W.counts().values()) + 1
    c = nl.clone()
    W.keep.append(c)
    if not label_clone(W, nl, c, off):
        res.spec_failure("netlist.clone.not_identical", inp, "shape of the copy differs (parallel traversal failed)")
        return
    after_clone_checks(W, res, "netlist", inp)
    after = dump_impl(W)
    drv.ask({"cmd": "double", "off": off})
    md = canon_model_dump(drv.ask({"cmd": "dump", "n": W.counts()}))
    exist_i = set(W.objs["instance"])
    bad = []
    for kind in after:
        for lab2, rec in enumerate(after[kind]):
            if lab2 not in W.objs[kind]:
                continue
            mrec = md[kind][lab2] if lab2 < len(md[kind]) else None
            if mrec is not None and kind == "definition":
                mrec = dict(mrec, refs=[i for i in mrec["refs"] if i in exist_i])
            if rec != mrec:
                bad.append((kind, lab2, rec, mrec))
    if bad:
        res.corr_mismatch("Netlist.clone = S.double (whole-heap duplication) on a generated netlist", inp, [b[:3] for b in bad[:3]], [b[3] for b in bad[:3]])
    res.case(stable_hash([seed, "corrgen"]), nontrivial=True)
    res.dist("clone:corrgen")


def label_elem_clone(W, kind, x, c, off):
    """register the objects of an element clone under label(original) + off, by parallel traversal"""
    def reg(k, orig, copy):
        lab = W.lab.get(id(orig))
        if lab is not None and copy is not None and id(copy) not in W.lab:
            W.reg(k, lab[1] + off, copy)
            if not hasattr(W, "clone_pairs"):
                W.clone_pairs = []
            W.clone_pairs.append((k, orig, copy))

    def port(p0, p1):
        reg("port", p0, p1)
        if len(p0._pins) != len(p1._pins):
            return False
        for q0, q1 in zip(p0._pins, p1._pins):
            reg("pin", q0, q1)
        return True

    def cable(c0, c1):
        reg("cable", c0, c1)
        if len(c0._wires) != len(c1._wires):
            return False
        for w0, w1 in zip(c0._wires, c1._wires):
            reg("wire", w0, w1)
        return True

    def definition(d0, d1):
        reg("definition", d0, d1)
        if (len(d0._ports), len(d0._cables), len(d0._children)) != (len(d1._ports), len(d1._cables), len(d1._children)):
            return False
        ok = all(port(a, b) for a, b in zip(d0._ports, d1._ports)) and all(cable(a, b) for a, b in zip(d0._cables, d1._cables))
        for k0, k1 in zip(d0._children, d1._children):
            reg("instance", k0, k1)
        return ok

    if kind == "netlist":
        return label_clone(W, x, c, off)
    if kind == "pin":
        reg("pin", x, c); return True
    if kind == "wire":
        reg("wire", x, c); return True
    if kind == "instance":
        reg("instance", x, c); return True
    if kind == "port":
        return port(x, c)
    if kind == "cable":
        return cable(x, c)
    if kind == "definition":
        return definition(x, c)
    if kind == "library":
        reg("library", x, c)
        if len(x._definitions) != len(c._definitions):
            return False
        return all(definition(a, b) for a, b in zip(x._definitions, c._definitions))
    return False


ELEM_KINDS = ["netlist", "library", "definition", "instance", "port", "cable", "wire", "pin"]


def corr_case_elem(seed, drv, res, kind=None):
    """generated netlist loaded into the model; clone ONE element of a random kind; compare every record of every
    object that exists on the implementation side (the clone's subtree AND all originals, so the reference-set
    bookkeeping on shared definitions is compared too) with S.cloneElem (double + prune script of public calls)"""
    from engines.irlib import World, dump_impl, canon_model_dump
    rng = random.Random(seed ^ 0x5EED)
    nl = gen_case(rng)
    extra_shapes(nl, rng)
    if nl._top_instance is not None and nl._top_instance._reference is None:
        return
    if add_blank_children(nl, rng):
        res.dist("correlem:with_reference_less_children")
    W = World()
    drv.ask({"cmd": "reset"})
    load_into_model(W, nl, drv)
    before = dump_impl(W)
    md0 = canon_model_dump(drv.ask({"cmd": "dump", "n": W.counts()}))
    if md0 != before:
        return      # reported by corr_case_gen
    rk = rng.choice(ELEM_KINDS)
    kind0 = kind or rk
    n_rounds = 1 + (rng.random() < 0.4)
    # a second clone in the same process on the same netlist (another element, any kind): state kept by the
    # library between two clone() calls must not leak into the second copy
    next_off = 0
    for rnd in range(n_rounds):
        kind = kind0 if rnd == 0 else rng.choice(ELEM_KINDS)
        labs = sorted(l for l in W.objs[kind] if rnd == 0 or l < first_off)      # second round: clone an ORIGINAL again
        if not labs:
            break
        xl = rng.choice(labs)
        x = W.objs[kind][xl]
        inp = {"seed": seed, "what": "correlem", "kind": kind0, "round": rnd, "round_kind": kind, "label": xl}
        off = max(max(W.counts().values()) + 1, next_off)
        if rnd == 0:
            first_off = off
        next_off = 2 * off            # the model's unobservable twins occupy [off, 2*off)
        try:
            c = x.clone()
        except Exception as e:
            import traceback
            tb = traceback.extract_tb(e.__traceback__)
            site = next((f for f in reversed(tb) if "/spydrnet/" in f.filename), tb[-1])
            res.spec_failure("%s.clone.raises.%s@%s:%s" % (kind, type(e).__name__, os.path.basename(site.filename), site.name), inp, repr(e)[:200])
            return
        W.keep.append(c)
        if not label_elem_clone(W, kind, x, c, off):
            res.spec_failure("%s.clone.not_identical" % kind, inp, "shape of the copy differs (parallel traversal failed)")
            return
        after_clone_checks(W, res, kind, inp)
        after = dump_impl(W)
        m = drv.ask({"cmd": "cloneElem", "kind": kind, "x": xl, "off": off})
        if any(r != "ok" for r in m.get("res", ["?"])):
            res.corr_mismatch("S.cloneElem: every call of the prune script is accepted by the model", inp, "n/a", m.get("res"))
            return
        md = canon_model_dump(drv.ask({"cmd": "dump", "n": W.counts()}))
        exist_i = set(W.objs["instance"])
        bad = []
        for k2 in after:
            for lab2, rec in enumerate(after[k2]):
                if lab2 not in W.objs[k2]:
                    continue
                mrec = md[k2][lab2] if lab2 < len(md[k2]) else None
                if mrec is not None and k2 == "definition":
                    mrec = dict(mrec, refs=[i for i in mrec["refs"] if i in exist_i])
                if rec != mrec:
                    bad.append((k2, lab2, rec, mrec))
        if bad:
            res.corr_mismatch("%s.clone = S.cloneElem (double + prune script) on a generated netlist%s" % (kind.capitalize(), "" if rnd == 0 else " (second clone in the same process)"), inp,
                              [b[:3] for b in bad[:3]], [b[3] for b in bad[:3]])
            return
        res.dist("clone:correlem:round%d:%s" % (rnd, kind))
    kind = kind0
    res.case(stable_hash([seed, "correlem", kind]), nontrivial=True)
    res.dist("clone:correlem:" + kind)


def gen_case(rng):
    return gen.gen_netlist(rng, n_leaf=(1, 3), n_mid=(1, 4), n_libs=(1, 3), named=rng.random() < 0.8,
                           unnamed_frac=rng.choice([0.0, 0.0, 0.3]), orphan_insts=rng.choice([0, 0, 1]))


def extra_shapes(nl, rng):
    """top instance that is also a child of another definition / netlist without top"""
    r = rng.random()
    if r < 0.15:
        nl.top_instance = None
    elif r < 0.35:
        ds = [d for lib in nl._libraries for d in lib._definitions if d._children]
        if ds:
            nl.top_instance = rng.choice(rng.choice(ds)._children)


def add_blank_children(nl, rng):
    """children without a reference (legal IR state: `create_child()` / `Instance()` before a reference is set)"""
    ds = [d for lib in nl._libraries for d in lib._definitions]
    n = 0
    if ds and rng.random() < 0.35:
        for _ in range(rng.randint(1, 2)):
            d = rng.choice(ds)
            if d._children or d._cables or rng.random() < 0.5:      # mostly keep leaf cells leaf
                d.create_child("blank_%d" % n if rng.random() < 0.7 else None)
                n += 1
    return n


def run_case(seed, res, what):
    rng = random.Random(seed)
    nl = gen_case(rng)
    extra_shapes(nl, rng)
    inp = {"seed": seed, "what": what}
    if what == "netlist":
        fails = check_netlist_clone(nl, rng, res, inp)
    else:
        if add_blank_children(nl, rng):
            res.dist("elements:with_reference_less_children")
        try:
            fails = check_element_clones(nl, rng, res, inp)
        except Exception as e:                                   # a clone call that raises on a legal element
            import traceback
            tb = traceback.extract_tb(e.__traceback__)
            site = next((f for f in reversed(tb) if "/spydrnet/" in f.filename), tb[-1])
            fails = [("element.clone.raises.%s@%s:%s" % (type(e).__name__, os.path.basename(site.filename), site.name), repr(e)[:200])]
    c = canon.cnetlist(nl, with_data=False)
    res.case(stable_hash([seed, what]), nontrivial=sum(len(l["definitions"]) for l in c["libraries"]) >= 2)
    res.dist("clone:" + what)
    res.dist("top:" + ("none" if nl._top_instance is None else ("child" if nl._top_instance._parent is not None else "standalone")))
    seen = set()
    for sig, detail in fails:
        if sig not in seen:
            seen.add(sig)
            res.spec_failure(sig, inp, detail)
    return fails


def shard(pid, tier, seed, idx, n_cases):
    res = ShardResult()
    drv = lean.Driver("drv_ir")
    try:
        for j in range(n_cases):
            s = stable_hash([seed, pid, idx, j])
            corr_case(int(s, 16) % (1 << 30), drv, res)
            corr_case_gen(int(s, 16) % (1 << 30), drv, res)
            corr_case_elem(int(s, 16) % (1 << 30), drv, res, ELEM_KINDS[j % len(ELEM_KINDS)])
            corr_case_elem((int(s, 16) >> 8) % (1 << 30), drv, res)
        cdir = os.path.join(ROOT, "corpus", pid)
        if idx == 0 and os.path.isdir(cdir):
            for fn in sorted(os.listdir(cdir)):
                if fn.endswith(".json"):
                    item = json.load(open(os.path.join(cdir, fn)))
                    if item["what"] == "correlem":
                        corr_case_elem(item["seed"], drv, res, item.get("kind"))
                    elif item["what"] == "corr":
                        corr_case(item["seed"], drv, res)
                    elif item["what"] == "corrgen":
                        corr_case_gen(item["seed"], drv, res)
                    else:
                        run_case(item["seed"], res, item["what"])
    finally:
        drv.close()
    for j in range(n_cases):
        s = stable_hash([seed, pid, idx, j])
        run_case(int(s, 16) % (1 << 30), res, "netlist" if j % 2 == 0 else "elements")
    res.sample({"example_seed": int(stable_hash([seed, pid, idx, 0]), 16) % (1 << 30)})
    return res


def run(ctx):
    pid = "C07"
    lean.check_obligations(ctx, "Spydr/IR", ["Spydr.IR.Props.C07", "Spydr.IR.Props.C07Elem", "Spydr.IR.Props.C07Struct", "Spydr.IR.Props.C07Detached", "Spydr.IR.Props.C07Bundle"], ["drv_ir"], "Spydr/IR/AuditClone.lean", META[pid]["theorems"])
    ctx.rule = ("generated netlists (hierarchy, cross-library references, top standalone / also a child / absent, named and unnamed elements, user data, orphan "
                "instances); even cases: netlist.clone() - identical canonical value, identity-disjointness of everything reachable, self-containedness / "
                "well-formedness of the copy, name lookups on the copy, source untouched, edits+uniquify+flatten on either side invisible in the other; odd cases: "
                "clone of a random library / definition / instance / port / cable / wire / inner pin / outer pin against the documented contract. "
                "distinct = distinct (seed, kind); non-trivial = >= 2 definitions")
    if ctx.replay:
        item = json.load(open(ctx.replay if os.path.isabs(ctx.replay) else os.path.join(ROOT, ctx.replay)))
        res = ShardResult()
        if item["input"]["what"] in ("corr", "corrgen", "correlem"):
            drv = lean.Driver("drv_ir")
            if item["input"]["what"] == "correlem":
                corr_case_elem(item["input"]["seed"], drv, res, item["input"].get("kind"))
            else:
                (corr_case if item["input"]["what"] == "corr" else corr_case_gen)(item["input"]["seed"], drv, res)
            drv.close()
        else:
            run_case(item["input"]["seed"], res, item["input"]["what"])
        ctx.merge_shard(res)
        return
    n_cases = ctx.scale(40, 600)
    run_shards(ctx, shard, [(pid, ctx.tier, ctx.seed, i, n_cases) for i in range(16)])
