"""Engine IR, announcements (C19): what every public editing call tells registered listeners."""
import json
import os
import random

import spydrnet as sdn
from spydrnet.callback.callback_listener import CallbackListener
from spydrnet.ir.outerpin import OuterPin as _OuterPinBase
from spydrnet.ir.definition import Definition as ir_Definition

from common import lean
from common.ctx import ROOT, stable_hash
from common.shard import ShardResult, run_shards
from engines import irgen
from engines.irlib import World, execute, dump_impl, canon_model_dump, prepare, cleanup, KINDS, model_apply, COMPOUND, bundle_expect
from registry import META

STRUCT_EVENTS = ["cable_add_wire", "cable_remove_wire", "definition_add_port", "definition_remove_port",
                 "definition_add_child", "definition_remove_child", "definition_add_cable", "definition_remove_cable",
                 "instance_reference", "library_add_definition", "library_remove_definition", "netlist_top_instance",
                 "netlist_add_library", "netlist_remove_library", "port_add_pin", "port_remove_pin",
                 "wire_connect_pin", "wire_disconnect_pin"]
CREATE_EVENTS = ["create_netlist", "create_library", "create_definition", "create_port", "create_cable", "create_instance"]
DATA_EVENTS = ["dictionary_set", "dictionary_delete", "dictionary_pop"]


class Recorder(CallbackListener):
    """Overrides every hook. Records raw events, checks that the announced change is not visible yet,
    and drives a shadow mirror from the announcements alone."""

    def __init__(self, sink):
        self.sink = sink
        super().__init__()

    # ---- helpers
    def _ev(self, name, *args):
        self.sink.on_event(name, args)


def _mk(name):
    def hook(self, *args):
        self._ev(name, *args)
    hook.__name__ = name
    return hook


for _n in STRUCT_EVENTS + CREATE_EVENTS + DATA_EVENTS:
    setattr(Recorder, _n, _mk(_n))


class Guard(CallbackListener):
    """'another listener' that may veto: registered BEFORE the recorder, it refuses the k-th pin / wire add of
    the call it is armed for (the recorder then never hears that announcement)."""

    def __init__(self):
        self.armed = None
        self.n = 0
        super().__init__()

    def arm(self, k, what="add"):
        self.armed = k
        self.what = what
        self.n = 0

    def _tick(self, what):
        if self.armed is not None and what == getattr(self, "what", "add"):
            if self.n == self.armed:
                self.armed = None
                raise ValueError("vetoed by the guard listener")
            self.n += 1

    def port_add_pin(self, port, pin):
        self._tick("add")

    def cable_add_wire(self, cable, wire):
        self._tick("add")

    def instance_reference(self, instance, reference):
        self._tick("ref")


class OneShot(CallbackListener):
    """a listener that removes itself from INSIDE a callback (registered before the recorder): removing a
    listener must never change what the others are told"""

    def __init__(self):
        self.fire_now = False
        self.fired = 0
        super().__init__()

    def _tick(self, *args):
        if self.fire_now:
            self.fire_now = False
            self.fired += 1
            self.deregister_all_listeners()


for _n in STRUCT_EVENTS + DATA_EVENTS:
    setattr(OneShot, _n, (lambda name: (lambda self, *a: self._tick(*a)))(_n))


class Partial(CallbackListener):
    """A second listener overriding only a subset of the hooks (registration mechanics)."""

    def __init__(self):
        self.count = 0
        super().__init__()

    def definition_add_port(self, definition, port):
        self.count += 1

    def wire_disconnect_pin(self, wire, pin):
        self.count += 1

    def dictionary_set(self, element, key, value):
        self.count += 1


class DeleteOnly(CallbackListener):
    def __init__(self):
        self.n = 0
        super().__init__()

    def dictionary_delete(self, element, key):
        self.n += 1


class PopOnly(CallbackListener):
    def __init__(self):
        self.n = 0
        super().__init__()

    def dictionary_pop(self, element, key):
        self.n += 1


class ConnectOnly(CallbackListener):
    def __init__(self):
        self.n = 0
        super().__init__()

    def wire_connect_pin(self, wire, pin):
        self.n += 1


class ConnectAndDisconnect(ConnectOnly):
    """a listener class DERIVED from another concrete listener class (whose instance exists first): it hears the hooks
    of its base and its own additional one (which hooks a class overrides must be decided per class, not inherited)"""

    def __init__(self):
        self.m = 0
        super().__init__()

    def wire_disconnect_pin(self, wire, pin):
        self.m += 1


class Shadow:
    """Mirror kept from announcements only (identity-keyed, order-free).  It merely replays: outer pins
    appear/disappear with the inner pins of referenced definitions, but a CONNECTION only ever changes when
    wire_connect_pin / wire_disconnect_pin says so."""

    def __init__(self):
        self.parent = {}        # id(child) -> parent object   (all seven containments share one map per child)
        self.pins_of = {}       # id(port) -> set of pin objects
        self.ports_of = {}      # id(def) -> set of port objects
        self.wire_of = {}       # pin key -> wire ; key = ("i", id(pin)) or ("o", id(inst), id(pin))
        self.ref = {}           # id(inst) -> definition
        self.insts_of = {}      # id(def) -> set of instances referencing it
        self.outer = {}         # id(inst) -> set of id(inner pin)
        self.top = {}           # id(netlist) -> instance or None
        self.data = {}          # id(element) -> dict
        self.keep = []
        self.repointed_insts = set()

    @staticmethod
    def key(pin):
        if isinstance(pin, _OuterPinBase):
            return ("o", id(pin.instance), id(pin.inner_pin))
        return ("i", id(pin))

    def apply(self, name, a):
        self.keep.extend(a)
        if name in ("netlist_add_library", "library_add_definition", "definition_add_cable", "definition_add_child", "cable_add_wire"):
            self.parent[id(a[1])] = a[0]
        elif name in ("netlist_remove_library", "library_remove_definition", "definition_remove_cable", "definition_remove_child", "cable_remove_wire"):
            self.parent[id(a[1])] = None
        elif name == "definition_add_port":
            d, p = a
            self.parent[id(p)] = d
            self.ports_of.setdefault(id(d), []).append(p)
            for inst in self.insts_of.get(id(d), ()):
                self.outer.setdefault(id(inst), set()).update(id(q) for q in self.pins_of.get(id(p), ()))
        elif name == "definition_remove_port":
            d, p = a
            self.parent[id(p)] = None
            if p in self.ports_of.setdefault(id(d), []):
                self.ports_of[id(d)].remove(p)
            for inst in self.insts_of.get(id(d), ()):
                for q in self.pins_of.get(id(p), ()):
                    self.outer.setdefault(id(inst), set()).discard(id(q))
        elif name == "port_add_pin":
            p, q = a
            self.parent[id(q)] = p
            self.pins_of.setdefault(id(p), []).append(q)
            d = self.parent.get(id(p))
            if d is not None:
                for inst in self.insts_of.get(id(d), ()):
                    self.outer.setdefault(id(inst), set()).add(id(q))
        elif name == "port_remove_pin":
            p, q = a
            self.parent[id(q)] = None
            if q in self.pins_of.setdefault(id(p), []):
                self.pins_of[id(p)].remove(q)
            for s in self.outer.values():
                s.discard(id(q))
        elif name == "wire_connect_pin":
            self.wire_of[self.key_at_event] = a[0]
        elif name == "wire_disconnect_pin":
            self.wire_of.pop(self.key_at_event, None)
        elif name == "instance_reference":
            inst, d = a
            old = self.ref.get(id(inst))
            if d is None:
                if old is not None:
                    self.insts_of.setdefault(id(old), set()).discard(inst)
                self.ref[id(inst)] = None
                self.outer[id(inst)] = set()
            else:
                if old is not None:
                    self.insts_of.setdefault(id(old), set()).discard(inst)
                    # positional re-keying, with the only order a listener has: the order of the announcements
                    self.repointed = True
                    self.repointed_insts.add(id(inst))
                    oldp = [q for p in self.ports_of.get(id(old), ()) for q in self.pins_of.get(id(p), ())]
                    newp = [q for p in self.ports_of.get(id(d), ()) for q in self.pins_of.get(id(p), ())]
                    moved = {}
                    for a_, b_ in zip(oldp, newp):
                        w = self.wire_of.pop(("o", id(inst), id(a_)), None)
                        if w is not None:
                            moved[("o", id(inst), id(b_))] = w
                    self.wire_of.update(moved)
                self.ref[id(inst)] = d
                self.insts_of.setdefault(id(d), set()).add(inst)
                self.outer[id(inst)] = set(id(q) for p in self.ports_of.get(id(d), ()) for q in self.pins_of.get(id(p), ()))
        elif name == "netlist_top_instance":
            n, x = a
            if not isinstance(x, sdn.ir.definition.Definition):
                self.top[id(n)] = x
        elif name == "dictionary_set":
            self.data.setdefault(id(a[0]), {})[a[1]] = a[2]
        elif name in ("dictionary_delete", "dictionary_pop"):
            self.data.setdefault(id(a[0]), {}).pop(a[1], None)
        elif name.startswith("create_"):
            self.data.setdefault(id(a[0]), {})
    repointed = False
    key_at_event = None


class Sink:
    def __init__(self, world):
        self.W = world
        self.raw = []
        self.early = []        # "announced change already visible" observations
        self.shadow = Shadow()
        self.recording = False
        self.seen_disc = set()

    def on_event(self, name, a):
        # --- "before it takes effect"
        try:
            vis = self.visible(name, a) or self.visible_vs_mirror(name, a)
        except Exception as ex:  # noqa: BLE001
            vis = "probe-error:" + type(ex).__name__
        if vis and name == "wire_disconnect_pin":
            # an instance pin is announced twice (object passed, stored pin): only the first announcement can
            # precede the change
            k = (id(a[0]), Shadow.key(a[1]))
            if k in self.seen_disc:
                vis = None
        if name == "wire_disconnect_pin":
            self.seen_disc.add((id(a[0]), Shadow.key(a[1])))
        if vis:
            self.early.append((name, vis))
        if name in ("wire_connect_pin", "wire_disconnect_pin"):
            self.shadow.key_at_event = Shadow.key(a[1])
        self.shadow.apply(name, a)
        if name in getattr(self, "counts", {}):
            self.counts[name] += 1
        if self.recording:
            if name in ("wire_connect_pin", "wire_disconnect_pin") and isinstance(a[1], _OuterPinBase):
                a = (a[0], ("outer", a[1].instance, a[1].inner_pin))      # who it denotes NOW (it may be detached later in the call)
            self.raw.append((name, a))

    @staticmethod
    def visible(name, a):
        """Is the announced change already visible in the netlist at announcement time?"""
        if name in ("netlist_add_library", "library_add_definition", "definition_add_port", "definition_add_cable",
                    "definition_add_child", "port_add_pin", "cable_add_wire"):
            lst = {"netlist_add_library": "_libraries", "library_add_definition": "_definitions", "definition_add_port": "_ports",
                   "definition_add_cable": "_cables", "definition_add_child": "_children", "port_add_pin": "_pins", "cable_add_wire": "_wires"}[name]
            return "child already listed" if any(x is a[1] for x in getattr(a[0], lst)) else None
        if name in ("netlist_remove_library", "library_remove_definition", "definition_remove_port", "definition_remove_cable",
                    "definition_remove_child", "port_remove_pin", "cable_remove_wire"):
            back = {"netlist_remove_library": "_netlist", "library_remove_definition": "_library", "definition_remove_port": "_definition",
                    "definition_remove_cable": "_definition", "definition_remove_child": "_parent", "port_remove_pin": "_port", "cable_remove_wire": "_cable"}[name]
            return "back-pointer already cleared" if getattr(a[1], back) is not a[0] else None
        if name == "wire_connect_pin":
            pin = a[1]
            if isinstance(pin, _OuterPinBase) and pin.instance is not None and pin.inner_pin in pin.instance._pins:
                pin = pin.instance._pins[pin.inner_pin]
            return "pin already reports the wire" if pin._wire is a[0] else None
        if name == "wire_disconnect_pin":
            pin = a[1]
            if isinstance(pin, _OuterPinBase) and pin.instance is not None and pin.inner_pin in pin.instance._pins:
                pin = pin.instance._pins[pin.inner_pin]
            return "pin no longer reports the wire" if pin._wire is not a[0] else None
        return None

    _MISSING = object()

    def visible_vs_mirror(self, name, a):
        """reference / top / data changes: the mirror built from the announcements so far is the state before
        this change; the change is 'already visible' when the netlist shows the announced value although the
        mirror does not (so an announcement of a value that is already there is not counted)"""
        sh = self.shadow
        if name == "instance_reference":
            before = sh.ref.get(id(a[0]))
            if before is not a[1] and a[0]._reference is a[1]:
                return "instance already has the announced reference"
        elif name == "netlist_top_instance" and not isinstance(a[1], ir_Definition):
            before = sh.top.get(id(a[0]))
            if before is not a[1] and a[0]._top_instance is a[1]:
                return "netlist already has the announced top instance"
        elif name == "dictionary_set":
            before = sh.data.get(id(a[0]), {}).get(a[1], Sink._MISSING)
            now = a[0]._data.get(a[1], Sink._MISSING)
            if a[1] != ".NS" and (before is Sink._MISSING or before != a[2] or type(before) is not type(a[2])) and now is not Sink._MISSING and now == a[2] and type(now) is type(a[2]):
                return "element data already holds the announced value"
        elif name in ("dictionary_delete", "dictionary_pop"):
            before = sh.data.get(id(a[0]), {}).get(a[1], Sink._MISSING)
            if before is not Sink._MISSING and a[1] not in a[0]._data:
                return "element data no longer holds the key"
        return None

    def canon(self):
        W = self.W
        out = []
        for name, a in self.raw:
            if name in ("wire_connect_pin", "wire_disconnect_pin"):
                p = a[1]
                if isinstance(p, tuple):
                    pr = ["o", W.label(p[1], "instance"), W.label(p[2], "pin")]
                else:
                    pr = ["i", W.label(p, "pin")]
                out.append([name, W.label(a[0], "wire"), pr])
            elif name == "instance_reference":
                out.append([name, W.label(a[0]), W.label(a[1])])
            elif name == "netlist_top_instance":
                if isinstance(a[1], sdn.ir.definition.Definition):
                    out.append([name, W.label(a[0]), ["d", W.label(a[1])]])
                else:
                    out.append([name, W.label(a[0]), ["i", W.label(a[1])]])
            elif name.startswith("dictionary_"):
                k = W.lab.get(id(a[0]))
                out.append([name, list(k) if k else ["?", -1]] + [x for x in a[1:]])
            elif name.startswith("create_"):
                k = W.lab.get(id(a[0]))
                out.append([name, k[1] if k else "?"])
            else:
                out.append([name, W.label(a[0]), W.label(a[1])])
        return sorted(out, key=lambda e: json.dumps(e, default=str))


def operands(op):
    """labels (kind,label) an op refers to, excluding the one it creates"""
    t = op["t"]
    out = []
    if t in COMPOUND:
        return [{"createPins": ("port", op.get("p")), "createWires": ("cable", op.get("c"))}.get(t, ("definition", op.get("d")))]
    f = {"n": "netlist", "l": "library", "d": "definition", "p": "port", "c": "cable", "i": "instance", "q": "pin", "w": "wire"}
    created = None
    if op.get("create") or t == "createChild" or t == "setTopDef":
        created = {"addLibrary": "l", "addDefinition": "d", "addPort": "p", "addCable": "c", "addPin": "q", "addWire": "w", "createChild": "i", "setTopDef": "i"}[t]
    for k, kind in f.items():
        if k in op and op[k] is not None and k != created:
            out.append((kind, op[k]))
    if t == "createChild" and op.get("ref") is not None:
        out.append(("definition", op["ref"]))
    XS = {"removeLibrariesFrom": "library", "setLibraries": "library", "removeDefinitionsFrom": "definition", "setDefinitions": "definition",
          "removePortsFrom": "port", "setPorts": "port", "removeCablesFrom": "cable", "setCables": "cable",
          "removeChildrenFrom": "instance", "setChildren": "instance", "removePinsFrom": "pin", "setPins": "pin",
          "removeWiresFrom": "wire", "setWires": "wire"}
    if "xs" in op:
        for x in op["xs"]:
            out.append((XS[t], x))
    for r in ([op["r"]] if "r" in op else []) + list(op.get("rs", [])):
        if r[0] == "i":
            out.append(("pin", r[1]))
        else:
            out.append(("instance", r[1]))
            out.append(("pin", r[2]))
    return out


def run_script(ops_or_len, rng, profile, drv, res, with_listeners=True, outcomes=None):
    world = World()
    sink = Sink(world)
    guard = Guard()       # the vetoing listener is part of the scenario in both runs (with / without the observers)
    world.guard = guard
    oneshot = OneShot() if with_listeners else None
    rec = Recorder(sink) if with_listeners else None
    part = Partial() if with_listeners else None
    singles = [DeleteOnly(), PopOnly(), ConnectOnly()] if with_listeners else []
    derived = ConnectAndDisconnect() if with_listeners else None       # created AFTER an instance of its base class
    hookcounts = {"dictionary_delete": 0, "dictionary_pop": 0, "wire_connect_pin": 0, "wire_disconnect_pin": 0}
    sink.counts = hookcounts
    drv.ask({"cmd": "reset"})
    findings = []
    gen = isinstance(ops_or_len, int)
    n = ops_or_len if gen else len(ops_or_len)
    script = []
    cur = dump_impl(world)
    outs = []
    last_shot = [None]

    def relabel(op, k):
        # one cause: a listener removed itself inside a callback and the others were told less, at that call or
        # (the mirror having missed it) noticed at a later one
        if op.get("oneshot"):
            last_shot[0] = k
        if last_shot[0] is not None and any(not f.get("soft") for f in findings):
            det = "; ".join(sorted(set(f["signature"] for f in findings if not f.get("soft"))))[:300]
            soft = [f for f in findings if f.get("soft")]
            findings[:] = soft + [{"kind": "spec", "signature": "listener_removed_inside_callback.other_listeners_miss_the_announcement",
                                   "step": k, "detail": "a listener deregistered itself inside a callback at step %d; seen as: %s" % (last_shot[0], det)}]

    try:
        for k in range(n):
            if gen and rng.random() < 0.15:
                els = [(kd, lab) for kd in ("netlist", "library", "definition", "port", "cable", "instance") for lab in world.objs[kd]]
                op = None
                if els:
                    e = rng.choice(els)
                    op = {"t": "data", "e": list(e), "op": rng.choice(["set", "set", "del", "pop"]), "k": rng.choice(["k1", "k2"]), "v": rng.choice(["x", "y"])}
            else:
                op = None
            if op is None:
                op = irgen.gen_op(rng, cur, profile, compound=True, veto=True, badpos=True) if gen else ops_or_len[k]
            if gen and "oneshot" not in op and rng.random() < 0.03:
                op = dict(op, oneshot=True)
            script.append(op)
            if oneshot is not None and op.get("oneshot"):
                if oneshot.fired:
                    oneshot.register_all_listeners()        # back in (at the end of the lists) for another round
                    oneshot.fired = 0
                oneshot.fire_now = True
            if op["t"] == "data":
                f = data_step(world, sink, drv, op, k, with_listeners)
                outs.append(f[0])
                findings.extend(f[1])
                relabel(op, k)
                if any(not x.get("soft") for x in findings):
                    break
                continue
            # reach of replay_mirror_partial: every call except re-pointing an already referenced instance
            if op["t"] == "setRef" and op.get("d") is not None and op["i"] < len(cur["instance"]) and cur["instance"][op["i"]]["ref"] is not None:
                res.dist("theorem_scope:replay_mirror_partial:out:re-pointing")
            else:
                res.dist("theorem_scope:replay_mirror_partial:in")
            for (kind, lab) in operands(op):
                world.get(kind, lab)                 # materialise operands outside the recording window
            tok = prepare(world, op)
            bexp = bundle_expect(world, op) if op["t"] == "bundleFlag" else None
            sink.raw = []
            sink.early = []
            sink.seen_disc = set()
            sink.recording = True
            out = execute(world, op, random.Random(stable_hash(op)), tok)
            sink.recording = False
            world.note_outer_pins()
            cleanup(world, op, tok)
            outs.append(out)
            counts = world.counts()
            # a shape-flag assignment is no structural change: not a model op, nothing is announced
            m = model_apply(drv, op, {"nI": counts["instance"] + 1}) if bexp is None else {"res": bexp, "events": [], "prims": []}
            if "error" in m:
                raise RuntimeError("driver rejected op %r: %s" % (op, m["error"]))
            cur = dump_impl(world)
            res.dist("op:" + op["t"])
            res.dist("outcome:" + out)
            if not with_listeners:
                continue
            got = sink.canon()
            # expected: the model's structural announcements + constructor announcements of objects built inside the call
            exp = [e for e in m["events"]]
            created = []
            if out == "ok" or op.get("veto") or op.get("veto_at") is not None or op.get("veto_ref"):
                t = op["t"]
                if op.get("create"):
                    kind = {"addLibrary": "library", "addDefinition": "definition", "addPort": "port", "addCable": "cable", "addPin": "pin", "addWire": "wire"}[t]
                    lab = op[{"addLibrary": "l", "addDefinition": "d", "addPort": "p", "addCable": "c", "addPin": "q", "addWire": "w"}[t]]
                    created.append((kind, lab))
                elif t == "createChild" or t == "setTopDef":
                    created.append(("instance", op["i"]))
                elif t == "createPortPins":
                    created.append(("port", op["p"]))
                elif t == "createCableWires":
                    created.append(("cable", op["c"]))
            for (kind, lab) in created:
                known = lab in world.objs[kind]
                if kind in ("pin", "wire"):
                    continue
                if kind != "instance" or op.get("veto"):
                    exp.append(["create_" + kind, lab if known else "?"])
                # `x[".NS"] = default` is announced, and apply_namespace re-assigns it through __setitem__
                exp.append(["dictionary_set", [kind, lab] if known else ["?", -1], ".NS", "DEFAULT"])
                exp.append(["dictionary_set", [kind, lab] if known else ["?", -1], ".NS", "DEFAULT"])
                if op.get("veto"):
                    exp.append(["dictionary_set", ["?", -1], ".NAME", tok["name"]])
            if op["t"] == "setTopDef" and op.get("named") and out == "ok":
                # Netlist.set_top_instance(definition, instance_name): two further data changes, both announced
                exp.append(["dictionary_set", ["definition", op["d"]], ".NAME", tok["name"]])
                exp.append(["dictionary_set", ["instance", op["i"]], ".NAME", tok["name"]])
            exp = sorted(exp, key=lambda e: json.dumps(e, default=str))
            if op.get("veto") and out != "ok":
                # a vetoed compound constructor: the half-built object's own constructor announcements were made
                got_cmp = [e for e in got if not (e[0].startswith("create_") or e[0] == "dictionary_set")]
                exp_cmp = [e for e in exp if not (e[0].startswith("create_") or e[0] == "dictionary_set")]
            else:
                got_cmp, exp_cmp = got, exp
            # ---- P: nothing announced for a call that was refused by a precondition
            if op.get("veto_at") is not None or op.get("veto_ref"):
                pass       # "(unless another listener vetoes it)": what took effect before the veto was announced and is compared below
            elif out == "assert" and got:
                findings.append({"kind": "spec", "signature": "%s.refused_assert.announced" % op["t"], "step": k,
                                 "detail": "refused call announced %s" % got[:3]})
            elif out not in ("ok", "assert", "value") and got and op.get("veto_at") is None and not op.get("veto_ref"):
                findings.append({"kind": "spec", "signature": "%s.refused_%s.announced" % (op["t"], out), "step": k, "detail": "refused call announced %s" % got[:3]})
            # ---- P: announced before it takes effect
            for (name, vis) in sink.early:
                findings.append({"kind": "spec", "signature": "%s.%s.announced_after_effect" % (op["t"], name), "step": k, "detail": vis})
            # ---- correspondence: announcements
            if got_cmp != exp_cmp and not any(f["kind"] == "spec" for f in findings):
                findings.append({"kind": "corr", "signature": "events.%s" % op["t"], "step": k, "detail": "announcements differ",
                                 "impl": got_cmp, "model": exp_cmp})
            # ---- P: the shadow mirror (announcements only) equals the netlists
            for prob in shadow_problems(world, sink.shadow):
                if prob[0] == "connection" and len(prob) > 2 and prob[2] in sink.shadow.repointed_insts:
                    # positions / reorder assignments are not announced: after a re-pointing the listener cannot know
                    # which outer pin kept which wire (listed finding)
                    findings.append({"kind": "spec", "signature": "repoint.order_not_announced.mirror.connection", "step": k, "detail": prob[1], "soft": True})
                else:
                    findings.append({"kind": "spec", "signature": "%s.mirror.%s" % (op["t"], prob[0]), "step": k, "detail": prob[1]})
            # correspondence of outcome/state is C01/C02/C14's business, but a divergence here would poison the rest
            md = canon_model_dump(drv.ask({"cmd": "dump", "n": world.counts()}))
            if out != m["res"] or md != cur:
                findings.append({"kind": "corr", "signature": "%s.state" % op["t"], "step": k, "detail": "state/outcome differ (see C01/C02)"})
            relabel(op, k)
            if any(not f.get("soft") for f in findings):
                break
    finally:
        guard.deregister_all_listeners()
        if oneshot is not None and not oneshot.fired:
            oneshot.deregister_all_listeners()
        if rec is not None:
            rec.deregister_all_listeners()
            part.deregister_all_listeners()
            for x in singles:
                x.deregister_all_listeners()
            derived.deregister_all_listeners()
            got_n = [x.n for x in singles] + [derived.n, derived.m]
            want_n = [hookcounts["dictionary_delete"], hookcounts["dictionary_pop"], hookcounts["wire_connect_pin"],
                      hookcounts["wire_connect_pin"], hookcounts["wire_disconnect_pin"]]
            if got_n != want_n and not findings:
                findings.append({"kind": "spec", "signature": "listener_registration.single_hook_listener_missed_or_extra_calls", "step": len(script) - 1,
                                 "detail": "listeners overriding exactly one hook (delete, pop, connect) and a derived listener class (connect, +disconnect) were called %s times, the full recorder saw %s" % (got_n, want_n)})
    if outcomes is not None:
        outcomes.extend(outs)
    return findings, script, cur


def data_step(world, sink, drv, op, k, with_listeners):
    """element data: e[k] = v / del e[k] / e.pop(k)"""
    kind, lab = op["e"]
    o = world.get(kind, lab)
    eid = KINDS.index(kind) * 1000 + lab
    sink.raw = []
    sink.early = []
    sink.recording = True
    try:
        if op["op"] == "set":
            o[op["k"]] = op["v"]
        elif op["op"] == "del":
            del o[op["k"]]
        else:
            o.pop(op["k"])
        out = "ok"
    except KeyError:
        out = "key"
    except Exception as ex:  # noqa: BLE001
        out = "other:" + type(ex).__name__
    sink.recording = False
    m = drv.ask({"cmd": "dop", "op": {"t": op["op"], "e": eid, "k": op["k"], "v": op["v"]}})
    findings = []
    if not with_listeners:
        return out, findings
    got = sink.canon()
    exp = sorted([[e[0], [kind, lab]] + e[2:] for e in m["events"]], key=lambda e: json.dumps(e))
    if out != "ok" and got:
        findings.append({"kind": "spec", "signature": "data.%s.refused_%s.announced" % (op["op"], out), "step": k, "detail": "refused call announced %s" % got})
    elif (out == "ok") != m["ok"] or got != exp:
        findings.append({"kind": "corr", "signature": "events.data.%s" % op["op"], "step": k, "detail": "data announcements/outcome differ", "impl": [out, got], "model": [m["ok"], exp]})
    for prob in shadow_problems(world, sink.shadow):
        if prob[0] == "connection" and len(prob) > 2 and prob[2] in sink.shadow.repointed_insts:
            findings.append({"kind": "spec", "signature": "repoint.order_not_announced.mirror.connection", "step": k, "detail": prob[1], "soft": True})
        else:
            findings.append({"kind": "spec", "signature": "data.%s.mirror.%s" % (op["op"], prob[0]), "step": k, "detail": prob[1]})
    return out, findings


def shadow_problems(W, sh, limit=4):
    bad = []
    pairs = [("library", "_netlist"), ("definition", "_library"), ("port", "_definition"), ("cable", "_definition"),
             ("instance", "_parent"), ("pin", "_port"), ("wire", "_cable")]
    for kind, back in pairs:
        for lab, o in W.objs[kind].items():
            if sh.parent.get(id(o)) is not getattr(o, back):
                bad.append(("containment", "%s %s: mirror parent %s, real %s" % (kind, lab, W.label(sh.parent.get(id(o))), W.label(getattr(o, back)))))
    for lab, q in W.objs["pin"].items():
        if sh.wire_of.get(("i", id(q))) is not q._wire:
            bad.append(("connection", "inner pin %s" % lab))
    for il, inst in W.objs["instance"].items():
        if sh.ref.get(id(inst)) is not inst._reference:
            bad.append(("reference", "instance %s" % il))
        real = set(id(q) for q in inst._pins.keys())
        if sh.outer.get(id(inst), set()) != real:
            bad.append(("outer_pins", "instance %s" % il))
        for q, o in inst._pins.items():
            if sh.wire_of.get(("o", id(inst), id(q))) is not o._wire:
                bad.append(("connection", "outer pin (%s,%s)" % (il, W.label(q)), id(inst)))
    for k, w in sh.wire_of.items():
        if k[0] == "o":
            inst = next((i for i in W.objs["instance"].values() if id(i) == k[1]), None)
            if inst is None or not any(id(q) == k[2] for q in inst._pins):
                bad.append(("connection", "mirror keeps a connection of a dropped outer pin", k[1]))
    for nl, n in W.objs["netlist"].items():
        if sh.top.get(id(n)) is not n._top_instance:
            bad.append(("top_instance", "netlist %s" % nl))
    for kind in ("netlist", "library", "definition", "port", "cable", "instance"):
        for lab, o in W.objs[kind].items():
            if sh.data.get(id(o), {}) != dict(o._data):
                bad.append(("data", "%s %s: mirror %s real %s" % (kind, lab, sh.data.get(id(o)), dict(o._data))))
    return bad[:limit]


def shrink(script, sig, profile, drv):
    res = ShardResult()

    def fails(s):
        try:
            f, _, _ = run_script(s, random.Random(0), profile, drv, res)
        except Exception:  # noqa: BLE001
            return False
        return any(x["signature"] == sig for x in f)
    cur = list(script)
    chunk = max(1, len(cur) // 2)
    while chunk >= 1:
        i = 0
        while i < len(cur) - 1:
            cand = cur[:i] + cur[i + chunk:]
            if cand and fails(cand):
                cur = cand
            else:
                i += chunk
        if chunk == 1:
            break
        chunk //= 2
    return cur


KNOWN_CORR = {}


def handle(ops_or_len, rng, profile, drv, res, origin):
    findings, script, final = run_script(ops_or_len, rng or random.Random(0), profile, drv, res)
    res.case(stable_hash(script), nontrivial=len(script) >= 3)
    res.sample({"origin": origin, "length": len(script), "first_ops": script[:6]})
    done = res.setdefault("_shrunk", set())
    from common import findings as _kf
    open_sigs = set(x["signature"] for x in _kf.load() if x.get("status") == "open")
    for f in findings:
        if f["signature"] in done or f["signature"] in open_sigs:
            if f["kind"] == "spec":
                res.spec_failure(f["signature"], {"script": script[:f["step"] + 1]}, f["detail"])
            continue
        done.add(f["signature"])
        small = shrink(script[:f["step"] + 1], f["signature"], profile, drv)
        if f["kind"] == "spec":
            res.spec_failure(f["signature"], {"script": small}, f["detail"])
        else:
            res.corr_mismatch("announcements of the call = eventsOf (%s)" % f["signature"], {"script": small}, f.get("impl"), f.get("model"),
                              signature=KNOWN_CORR.get(f["signature"]))
    if not any(not f.get("soft") for f in findings):
        # registering listeners never changes what the API does: same script without any listener
        outs_a, outs_b = [], []
        r2 = ShardResult()
        _, _, fa = run_script(script, random.Random(0), profile, drv, r2, with_listeners=True, outcomes=outs_a)
        _, _, fb = run_script(script, random.Random(0), profile, drv, r2, with_listeners=False, outcomes=outs_b)
        if outs_a != outs_b or fa != fb:
            res.spec_failure("listeners_change_behaviour", {"script": script}, "outcomes or final state differ with vs without listeners")


def shard(pid, tier, seed, idx, n_scripts, length):
    res = ShardResult()
    drv = lean.Driver("drv_ir")
    try:
        cdir = os.path.join(ROOT, "corpus", pid)
        if idx == 0 and os.path.isdir(cdir):
            for fn in sorted(os.listdir(cdir)):
                if fn.endswith(".json"):
                    handle(json.load(open(os.path.join(cdir, fn)))["script"], None, "c01", drv, res, "corpus:" + fn)
        for j in range(n_scripts):
            rng = random.Random(stable_hash([seed, pid, idx, j]))
            handle(rng.randint(length // 3, length), rng, rng.choice(["c01", "c02", "c14"]), drv, res, "gen")
    finally:
        drv.close()
    return res


def run(ctx):
    pid = "C19"
    lean.check_obligations(ctx, "Spydr/IR", ["Spydr.IR.Props.C19"], ["drv_ir"], "Spydr/IR/AuditEvents.lean", META[pid]["theorems"])
    ctx.rule = ("random public-API histories (same generator as C01/C02/C14: single and bulk variants, compound constructors, reference changes that "
                "implicitly create/drop pins, port removals that implicitly disconnect) with two CallbackListener subclasses registered (one overriding every "
                "hook, one a subset); per call: the sorted list of announcements vs the Lean model's eventsOf, nothing announced on precondition refusals, every "
                "announcement made before its effect is visible, a shadow mirror driven only by announcements vs the real netlists (structure and data), and the "
                "same history re-run without listeners (same outcomes and final state). non-trivial = length >= 3")
    ctx.assumptions = ["listeners are passive (they do not edit the netlist from inside a callback)",
                       "mirror is order-free (announcements carry no position; reorder assignments are not announced) - DESIGN §5.3"]
    ctx.partial_notes = ["'before it takes effect' is an ordering fact inside one Python call: observed by the harness, not proved",
                         "bulk variants and re-pointing are outside replay_mirror_partial (see Props/C19.lean)"]
    if ctx.replay:
        item = json.load(open(ctx.replay if os.path.isabs(ctx.replay) else os.path.join(ROOT, ctx.replay)))
        res = ShardResult()
        drv = lean.Driver("drv_ir")
        handle(item["input"]["script"], None, "c01", drv, res, "replay")
        drv.close()
        ctx.merge_shard(res)
        return
    n_scripts = ctx.scale(60, 300)
    length = ctx.scale(60, 150)
    run_shards(ctx, shard, [(pid, ctx.tier, ctx.seed, i, n_scripts, length) for i in range(16)])
    if ctx.tier == "thorough":
        lean.leanchecker(ctx, ["Spydr.IR.Props.C19"])
