"""Adaptive random generator of IR op scripts.  `dump` is the current state in the driver's dump format
(lists of per-class records); every choice comes from the rng passed in."""

MAXN = {"netlist": 3, "library": 4, "definition": 6, "port": 10, "cable": 8, "instance": 10, "pin": 22, "wire": 12}


def _ids(dump, kind):
    return list(range(len(dump[kind])))


def _pick(rng, xs):
    return rng.choice(xs) if xs else None


def _fresh(dump, kind):
    return len(dump[kind])


def _pos(rng, n):
    r = rng.random()
    if r < 0.55:
        return None
    if r < 0.85:
        return rng.randint(0, n)
    return rng.choice([-1, -2, n + 3, -n - 2])


def _subset(rng, xs, kmax=3):
    if not xs:
        return []
    k = rng.randint(1, min(kmax, len(xs)))
    return rng.sample(xs, k)


def _perm(rng, xs):
    ys = list(xs)
    rng.shuffle(ys)
    return ys


def _bad_perm(rng, xs, universe):
    ys = _perm(rng, xs)
    r = rng.random()
    if len(ys) >= 2 and r < 0.25:
        ys[0] = ys[1]                         # same length: one member twice, another missing
    elif ys and universe and r < 0.4:
        ys[0] = rng.choice(universe)          # same length: a member replaced by some other object
    elif ys and r < 0.55:
        ys.append(rng.choice(ys))            # duplicate
    elif ys and r < 0.75:
        ys.pop()                              # missing one
    elif universe:
        ys.append(rng.choice(universe))       # foreign (may coincide -> duplicate)
    return ys


def container_ops(rng, dump, parent_kind, child_kind, list_key, back_key, names, valid):
    """add / remove / bulk remove / reorder for one containment relation."""
    tAdd, tRem, tBulk, tSet, pk, ck = names
    parents = _ids(dump, parent_kind)
    kids = _ids(dump, child_kind)
    if not parents:
        return None
    P = rng.choice(parents)
    mine = dump[parent_kind][P][list_key]
    orphans = [k for k in kids if dump[child_kind][k][back_key] is None]
    r = rng.random()
    if r < 0.40:
        # add: fresh (create_*), existing orphan, or invalid (owned)
        q = rng.random()
        if q < 0.55 and len(kids) < MAXN[child_kind]:
            op = {"t": tAdd, pk: P, ck: _fresh(dump, child_kind), "create": True, "pos": None}
        elif valid and orphans:
            op = {"t": tAdd, pk: P, ck: rng.choice(orphans), "pos": _pos(rng, len(mine))}
        elif kids:
            op = {"t": tAdd, pk: P, ck: rng.choice(kids), "pos": _pos(rng, len(mine))}
        else:
            op = {"t": tAdd, pk: P, ck: _fresh(dump, child_kind), "create": True, "pos": None}
        if mine and tAdd in ("addLibrary", "addDefinition", "addPort", "addCable", "addChild") and rng.random() < 0.15:
            op["veto"] = True
        return op
    if r < 0.62:
        if valid and mine:
            return {"t": tRem, pk: P, ck: rng.choice(mine)}
        if kids:
            return {"t": tRem, pk: P, ck: rng.choice(kids)}
        return None
    if r < 0.80:
        src = mine if (valid and mine) else kids
        if not src:
            return None
        xs = _subset(rng, src)
        if not valid:
            # a refusable mix: some of the parent's own members plus a foreign one, in random order
            foreign = [k for k in kids if k not in mine]
            xs = (_subset(rng, mine) if mine else []) + ([rng.choice(foreign)] if foreign else [rng.choice(kids)])
            rng.shuffle(xs)
        if rng.random() < 0.2 and xs:
            xs.append(xs[0])
        return {"t": tBulk, pk: P, "xs": xs, "asset": rng.random() < 0.5}
    xs = _perm(rng, mine) if valid else _bad_perm(rng, mine, kids)
    return {"t": tSet, pk: P, "xs": xs}


def followup(rng, D, last):
    """directed continuation of an interesting accepted call: after re-pointing an instance, take one of its
    connected outer pins off its wire in bulk through a PROXY pin (or disconnect / reconnect it singly)"""
    if not last:
        return None
    op, out = last
    if out != "ok" or op.get("t") != "setRef" or op.get("d") is None or rng.random() > 0.5:
        return None
    i = op["i"]
    if i >= len(D["instance"]):
        return None
    wired = [(q, w) for (q, w) in D["instance"][i]["pins"] if w is not None]
    if not wired:
        return None
    q, w = rng.choice(wired)
    if rng.random() < 0.7:
        return {"t": "disconnectFrom", "w": w, "rs": [["o", i, q]], "asset": rng.random() < 0.5, "proxy": True}
    return {"t": "disconnect", "w": w, "r": ["o", i, q], "proxy": True}


def gen_compound(rng, D, veto):
    """compound constructors that create several pins / wires in one call; `veto`: a guard listener is present and
    may refuse the k-th pin / wire add (k >= 0)"""
    kind = rng.choice(["createPins", "createWires", "createPortPins", "createCableWires"])
    n = rng.randint(0, 3)            # create_pins(0) / create_wires(0) are legal calls
    va = rng.randrange(n) if (n and veto and rng.random() < 0.5) else None
    nq, nw = len(D["pin"]), len(D["wire"])
    if kind == "createPins" and _ids(D, "port") and nq + n <= MAXN["pin"]:
        return {"t": kind, "p": rng.choice(_ids(D, "port")), "qs": list(range(nq, nq + n)), "veto_at": va}
    if kind == "createWires" and _ids(D, "cable") and nw + n <= MAXN["wire"]:
        return {"t": kind, "c": rng.choice(_ids(D, "cable")), "ws": list(range(nw, nw + n)), "veto_at": va}
    if kind == "createPortPins" and _ids(D, "definition") and nq + n <= MAXN["pin"] and len(D["port"]) < MAXN["port"]:
        return {"t": kind, "d": rng.choice(_ids(D, "definition")), "p": _fresh(D, "port"), "qs": list(range(nq, nq + n)), "veto_at": va}
    if kind == "createCableWires" and _ids(D, "definition") and nw + n <= MAXN["wire"] and len(D["cable"]) < MAXN["cable"]:
        return {"t": kind, "d": rng.choice(_ids(D, "definition")), "c": _fresh(D, "cable"), "ws": list(range(nw, nw + n)), "veto_at": va}
    return None


def gen_op(rng, dump, profile="c01", compound=False, veto=False, badpos=False, ident_veto=False):
    if badpos and rng.random() < 0.03:
        # the shape flags of a port / cable (is_scalar, is_array): refused for a multi-item bundle, nothing may change
        kinds = [k for k in ("port", "cable") if dump[k]]
        if kinds:
            k = rng.choice(kinds)
            return {"t": "bundleFlag", "kind": k, "x": rng.choice(_ids(dump, k)), "attr": rng.choice(["is_scalar", "is_array"]), "v": rng.random() < 0.6}
    op = _gen_op(rng, dump, profile, compound, veto)
    if not ident_veto:
        op.pop("veto_ident", None)      # switches the parent to the EDIF policy: only where announcements are not compared
    # an INVALID position argument (not an integer): the call must be refused and leave everything as it was
    if badpos and op.get("pos") is not None and not op.get("veto") and not op.get("veto_ref") and rng.random() < 0.05:
        op["badpos"] = rng.choice(["float", "str", "list", "huge", "neghuge"])
    return op


def _gen_op(rng, dump, profile="c01", compound=False, veto=False):
    if compound and rng.random() < 0.06:
        op = gen_compound(rng, dump, veto)
        if op is not None:
            return op
    p_valid = {"c01": 0.8, "c02": 0.85, "c14": 0.35}.get(profile, 0.8)
    valid = rng.random() < p_valid
    w = {"lib": 1, "def": 2, "port": 4, "cable": 3, "child": 4, "pin": 5, "wire": 4, "conn": 8, "ref": 5, "top": 1, "new": 1}
    if profile == "c02":
        w.update({"port": 7, "pin": 8, "ref": 9, "child": 5, "top": 2, "conn": 7})
    cats = [c for c, k in w.items() for _ in range(k)]
    # constructive bias while the heap is still small, so that connections and references get exercised
    if rng.random() < 0.6:
        op = _build(rng, dump)
        if op is not None:
            return op
    for _ in range(30):
        cat = rng.choice(cats)
        op = _gen_cat(rng, dump, cat, valid, veto)
        if op is not None:
            return op
    return {"t": "addLibrary", "n": 0, "l": _fresh(dump, "library"), "create": True, "pos": None}


def _build(rng, D):
    nd, npo, nq, nc, nw, ni = (len(D[k]) for k in ("definition", "port", "pin", "cable", "wire", "instance"))
    if not D["library"]:
        return {"t": "addLibrary", "n": 0, "l": 0, "create": True, "pos": None}
    if nd < 3:
        return {"t": "addDefinition", "l": rng.randrange(len(D["library"])), "d": nd, "create": True, "pos": None}
    if npo < 4:
        return {"t": "addPort", "d": rng.randrange(nd), "p": npo, "create": True, "pos": None}
    if nq < 7:
        return {"t": "addPin", "p": rng.randrange(npo), "q": nq, "create": True, "pos": None}
    if ni < 4:
        return {"t": "createChild", "d": rng.randrange(nd), "i": ni, "ref": rng.randrange(nd)}
    if nc < 3:
        return {"t": "addCable", "d": rng.randrange(nd), "c": nc, "create": True, "pos": None}
    if nw < 5:
        return {"t": "addWire", "c": rng.randrange(nc), "w": nw, "create": True, "pos": None}
    return None


def _gen_cat(rng, dump, cat, valid, veto=False):
    D = dump
    if cat == "new":
        # bring a further netlist into play (constructor only: no model op needed, so emit its first library)
        n = _fresh(D, "netlist")
        if n >= MAXN["netlist"]:
            return None
        return {"t": "addLibrary", "n": n, "l": _fresh(D, "library"), "create": True, "pos": None}
    if cat == "lib":
        return container_ops(rng, D, "netlist", "library", "libs", "nl",
                             ("addLibrary", "removeLibrary", "removeLibrariesFrom", "setLibraries", "n", "l"), valid)
    if cat == "def":
        return container_ops(rng, D, "library", "definition", "defs", "lib",
                             ("addDefinition", "removeDefinition", "removeDefinitionsFrom", "setDefinitions", "l", "d"), valid)
    if cat == "port":
        return container_ops(rng, D, "definition", "port", "ports", "def",
                             ("addPort", "removePort", "removePortsFrom", "setPorts", "d", "p"), valid)
    if cat == "cable":
        return container_ops(rng, D, "definition", "cable", "cables", "def",
                             ("addCable", "removeCable", "removeCablesFrom", "setCables", "d", "c"), valid)
    if cat == "child":
        defs = _ids(D, "definition")
        if defs and rng.random() < 0.45 and len(D["instance"]) < MAXN["instance"]:
            ref = rng.choice(defs) if rng.random() < 0.85 else None
            op = {"t": "createChild", "d": rng.choice(defs), "i": _fresh(D, "instance"), "ref": ref}
            if D["definition"][op["d"]]["children"] and rng.random() < 0.2:
                op["veto"] = True
                if rng.random() < 0.3:
                    op["veto_ident"] = True      # refused through the EDIF identifier of an UNNAMED instance (parent under the EDIF policy)
            elif veto and ref is not None and rng.random() < 0.15:
                op["veto_ref"] = True        # a guard listener refuses the reference step (engines with a guard only)
            return op
        op = container_ops(rng, D, "definition", "instance", "children", "parent",
                           ("addChild", "removeChild", "removeChildrenFrom", "setChildren", "d", "i"), valid)
        if op and op.get("create"):
            # add_child of a constructor-made orphan instance
            op.pop("create")
            if op["i"] >= MAXN["instance"]:
                return None
        return op
    if cat == "pin":
        op = container_ops(rng, D, "port", "pin", "pins", "port",
                           ("addPin", "removePin", "removePinsFrom", "setPins", "p", "q"), valid)
        if op and op["t"] == "addPin" and op.get("create") and rng.random() < 0.35:
            # Port.add_pin(InnerPin()) instead of create_pin()
            op.pop("create")
            op["pos"] = _pos(rng, len(D["port"][op["p"]]["pins"]))
        return op
    if cat == "wire":
        return container_ops(rng, D, "cable", "wire", "wires", "cable",
                             ("addWire", "removeWire", "removeWiresFrom", "setWires", "c", "w"), valid)
    if cat == "conn":
        wires = _ids(D, "wire")
        if not wires:
            return None
        w = rng.choice(wires)
        cur = D["wire"][w]["pins"]
        free_inner = [q for q in _ids(D, "pin") if D["pin"][q]["wire"] is None]
        outer_all = [(i, q, ww) for i in _ids(D, "instance") for (q, ww) in D["instance"][i]["pins"]]
        free_outer = [(i, q) for (i, q, ww) in outer_all if ww is None]
        r = rng.random()
        if r < 0.25:
            if valid and free_inner:
                return {"t": "connectInner", "w": w, "q": rng.choice(free_inner), "pos": _pos(rng, len(cur))}
            if D["pin"]:
                return {"t": "connectInner", "w": w, "q": rng.choice(_ids(D, "pin")), "pos": _pos(rng, len(cur))}
            return None
        if r < 0.55:
            if valid and free_outer:
                i, q = rng.choice(free_outer)
                return {"t": "connectOuter", "w": w, "i": i, "q": q, "pos": _pos(rng, len(cur))}
            if D["instance"] and D["pin"]:
                if outer_all and rng.random() < 0.5:
                    i, q, _ = rng.choice(outer_all)
                else:
                    i, q = rng.choice(_ids(D, "instance")), rng.choice(_ids(D, "pin"))
                return {"t": "connectOuter", "w": w, "i": i, "q": q, "pos": _pos(rng, len(cur))}
            return None
        if r < 0.75:
            if valid:
                ws = [x for x in wires if D["wire"][x]["pins"]]
                if ws:
                    w = rng.choice(ws)
                    return {"t": "disconnect", "w": w, "r": rng.choice(D["wire"][w]["pins"])}
            cand = [["i", q] for q in _ids(D, "pin")] + [["o", i, q] for (i, q, _) in outer_all]
            if cand:
                return {"t": "disconnect", "w": w, "r": rng.choice(cand)}
            return None
        if r < 0.9:
            ws = [x for x in wires if D["wire"][x]["pins"]]
            if valid and ws:
                w = rng.choice(ws)
                return {"t": "disconnectFrom", "w": w, "rs": _subset(rng, D["wire"][w]["pins"]), "asset": rng.random() < 0.5}
            cand = [["i", q] for q in _ids(D, "pin")] + [["o", i, q] for (i, q, _) in outer_all]
            if cand:
                return {"t": "disconnectFrom", "w": w, "rs": _subset(rng, cand), "asset": rng.random() < 0.5}
            return None
        if valid:
            return {"t": "setWirePins", "w": w, "rs": _perm(rng, cur), "stored_only": rng.random() < 0.6}
        cand = [["i", q] for q in _ids(D, "pin")] + [["o", i, q] for (i, q, _) in outer_all]
        return {"t": "setWirePins", "w": w, "rs": _bad_perm(rng, cur, cand), "stored_only": True}
    if cat == "ref":
        insts = _ids(D, "instance")
        defs = _ids(D, "definition")
        if not insts or not defs:
            return None
        i = rng.choice(insts)
        r = rng.random()
        if r < 0.25:
            return {"t": "setRef", "i": i, "d": None, "deleter": rng.random() < 0.3}
        cur = D["instance"][i]["ref"]

        def shape(d):
            return [len(D["port"][p]["pins"]) for p in D["definition"][d]["ports"]]
        if cur is not None and valid:
            comp = [d for d in defs if shape(d) == shape(cur)]
            return {"t": "setRef", "i": i, "d": rng.choice(comp)}
        return {"t": "setRef", "i": i, "d": rng.choice(defs)}
    if cat == "top":
        nls = _ids(D, "netlist")
        if not nls:
            return None
        n = rng.choice(nls)
        r = rng.random()
        if r < 0.06:
            # an INVALID argument: neither an instance, a definition nor None (refused, nothing changes)
            return {"t": "setTop", "n": n, "i": None, "badtype": rng.choice(["str", "int", "tuple", "float"])}
        if r < 0.15:
            return {"t": "setTop", "n": n, "i": None}
        if r < 0.55 and D["instance"]:
            return {"t": "setTop", "n": n, "i": rng.choice(_ids(D, "instance"))}
        if D["definition"] and len(D["instance"]) < MAXN["instance"]:
            op = {"t": "setTopDef", "n": n, "d": rng.choice(_ids(D, "definition")), "i": _fresh(D, "instance")}
            if rng.random() < 0.5:
                # Netlist.set_top_instance(definition, instance_name=...): also renames; refused when the name is taken
                op["named"] = True
                lib = D["definition"][op["d"]]["lib"]
                if lib is not None and len(D["library"][lib]["defs"]) >= 2 and rng.random() < 0.5:
                    op["veto"] = True
            return op
        return None
    return None
