"""Shared machinery of the IR engine: a labelled world of real spydrnet objects, an executor that maps
model ops (JSON, same encoding the Lean driver reads) to public API calls, the canonical dump of the
implementation state in the driver's dump format, and the independent C01/C02 oracle."""
import spydrnet as sdn
from spydrnet.ir.outerpin import OuterPin as _OuterPinBase
from spydrnet.ir.innerpin import InnerPin as _InnerPinBase

KINDS = ["netlist", "library", "definition", "port", "cable", "instance", "pin", "wire"]
CTOR = {"netlist": sdn.Netlist, "library": sdn.Library, "definition": sdn.Definition, "port": sdn.Port,
        "cable": sdn.Cable, "instance": sdn.Instance, "pin": sdn.InnerPin, "wire": sdn.Wire}


def exc_class(e):
    if isinstance(e, AssertionError):
        return "assert"
    if isinstance(e, ValueError):
        return "value"
    if isinstance(e, KeyError):
        return "key"
    if isinstance(e, RuntimeError):
        return "runtime"
    if isinstance(e, TypeError):
        return "type"
    if isinstance(e, IndexError):
        return "index"
    return "other:" + type(e).__name__


class World:
    """label <-> object, one label space per class."""

    def __init__(self):
        self.objs = {k: {} for k in KINDS}      # label -> object
        self.lab = {}                           # id(obj) -> (kind, label)
        self.keep = []                          # keep every object alive (ids stay unique)
        self.outer_handles = []                 # every stored outer pin ever seen: (obj, inst label, pin label)
        self._oh_seen = set()
        self.guard = None                       # optional vetoing listener (registered before any recorder)

    def reg(self, kind, label, obj):
        self.objs[kind][label] = obj
        self.lab[id(obj)] = (kind, label)
        self.keep.append(obj)

    def fresh_label(self, kind):
        d = self.objs[kind]
        return (max(d) + 1) if d else 0

    def get(self, kind, label, create=True):
        d = self.objs[kind]
        if label not in d:
            if not create:
                return None
            self.reg(kind, label, CTOR[kind]())
        return d[label]

    def label(self, obj, kind=None):
        if obj is None:
            return None
        r = self.lab.get(id(obj))
        if r is None:
            if kind is None:
                return "?"
            l = self.fresh_label(kind)
            self.reg(kind, l, obj)
            return l
        return r[1]

    def counts(self):
        return {k: ((max(d) + 1) if d else 0) for k, d in self.objs.items()}

    def note_outer_pins(self):
        for il, inst in self.objs["instance"].items():
            for q, o in inst._pins.items():
                if id(o) not in self._oh_seen:
                    self._oh_seen.add(id(o))
                    self.keep.append(o)
                    self.outer_handles.append((o, il, self.label(q, "pin")))


def outer_handle(world, rng, i, q, force_proxy=False):
    """An OuterPin argument for (instance i, inner pin q): the stored pin when there is one (sometimes a
    proxy anyway), else a proxy."""
    inst = world.get("instance", i)
    pin = world.get("pin", q)
    stored = inst._pins.get(pin)
    if stored is not None and not force_proxy and (rng is None or rng.random() < 0.6):
        return stored
    return sdn.OuterPin.from_instance_and_inner_pin(inst, pin)


def pinref_obj(world, rng, r, force_proxy=False):
    if r[0] == "i":
        return world.get("pin", r[1])
    return outer_handle(world, rng, r[1], r[2], force_proxy)


_SIB = {"addLibrary": ("netlist", "n", "_libraries", "library", "l"), "addDefinition": ("library", "l", "_definitions", "definition", "d"),
        "addPort": ("definition", "d", "_ports", "port", "p"), "addCable": ("definition", "d", "_cables", "cable", "c"),
        "addChild": ("definition", "d", "_children", "instance", "i"), "createChild": ("definition", "d", "_children", "instance", "i")}


def arrange_veto(world, op):
    """Make the namespace manager veto this add: give one sibling a (unique) name and return it."""
    pk, pf, lst, ck, cf = _SIB[op["t"]]
    parent = world.get(pk, op[pf])
    sibs = getattr(parent, lst)
    if not sibs:
        return None
    sib = sibs[0]
    if sib.name is None:
        sib.name = "%s_%s" % (ck, world.label(sib, ck))
    return sib.name


COMPOUND = ("createPins", "createWires", "createPortPins", "createCableWires")


def expand(op):
    """the primitive model calls a compound constructor consists of, in the order the implementation makes them"""
    t = op["t"]
    if t == "createPins":
        return [{"t": "addPin", "p": op["p"], "q": q, "pos": None, "create": True} for q in op["qs"]]
    if t == "createWires":
        return [{"t": "addWire", "c": op["c"], "w": w, "pos": None, "create": True} for w in op["ws"]]
    if t == "createPortPins":
        return [{"t": "addPort", "d": op["d"], "p": op["p"], "pos": None, "create": True}] + \
               [{"t": "addPin", "p": op["p"], "q": q, "pos": None, "create": True} for q in op["qs"]]
    if t == "createCableWires":
        return [{"t": "addCable", "d": op["d"], "c": op["c"], "pos": None, "create": True}] + \
               [{"t": "addWire", "c": op["c"], "w": w, "pos": None, "create": True} for w in op["ws"]]
    return [op]


def accepted_prefix(op):
    """(primitive calls that take effect, overall outcome) of a compound constructor whose `veto_at`-th pin / wire
    add is vetoed by the guard listener: everything before the veto has happened, the rest never starts"""
    prims = expand(op)
    if op["t"] not in COMPOUND or op.get("veto_at") is None:
        return prims, "ok"
    head = 1 if op["t"] in ("createPortPins", "createCableWires") else 0
    return prims[:head + op["veto_at"]], "value"


MODEL_STRIP = ("create", "asset", "deleter", "stored_only", "proxy", "named", "veto_at", "oneshot", "veto_ref", "badpos", "badtype", "veto_ident")


def model_apply(drv, op, extra=None):
    """send an op (or the accepted prefix of a compound constructor) to the model driver; returns
    {"res": outcome, "events": announcements of everything that took effect, "prims": the primitive calls sent}"""
    if op["t"] == "setTopDef" and op.get("named") and op.get("veto"):
        return {"res": "value", "events": [], "prims": []}      # refused by the naming rules: nothing happens
    if op["t"] == "createChild" and op.get("veto_ref") and op.get("ref") is not None:
        # the add took effect, the reference step was vetoed: what remains is create_child without reference
        m = drv.ask(dict({"cmd": "op", "op": {kk: v for kk, v in dict(op, ref=None).items() if kk not in MODEL_STRIP}}, **(extra or {})))
        if "error" in m:
            return m
        # later listeners never hear the vetoed reference announcement
        return {"res": "value", "events": [e for e in m.get("events", []) if e[0] != "instance_reference"], "prims": [dict(op, ref=None)]}
    if op.get("badtype"):
        # an argument of a type the call's own type precondition refuses: nothing changes, nothing is announced
        return {"res": "assert", "events": [], "prims": []}
    if op.get("badpos"):
        # invalid (non-integer) position: refused by the up-front assertion of every add_* / connect_pin before any
        # announcement or effect (fix 3rd of 2026-09-28 in /repo) - nothing changes, nothing is announced
        return {"res": "assert", "events": [], "prims": []}
    prims, outcome = accepted_prefix(op)
    events = []
    res = outcome
    for pr in prims:
        msg = {"cmd": "op", "op": {kk: v for kk, v in pr.items() if kk not in MODEL_STRIP}}
        if extra:
            msg.update(extra)
        m = drv.ask(msg)
        if "error" in m:
            return m
        events.extend(m.get("events", []))
        if m.get("res") != "ok":
            res = m.get("res")
            break
    return {"res": res, "events": events, "prims": prims}


def _register_new(W, kind, labels, items, before_ids):
    new = [x for x in items if id(x) not in before_ids]
    for lab, x in zip(labels, new):
        W.reg(kind, lab, x)


def execute_compound(W, op):
    t = op["t"]
    g = W.get
    guard = W.guard
    if guard is not None:
        guard.arm(op.get("veto_at"))
    try:
        if t == "createPins":
            p = g("port", op["p"])
            before = {id(x) for x in p.pins}
            try:
                p.create_pins(len(op["qs"]))
            finally:
                _register_new(W, "pin", op["qs"], list(p.pins), before)
        elif t == "createWires":
            c = g("cable", op["c"])
            before = {id(x) for x in c.wires}
            try:
                c.create_wires(len(op["ws"]))
            finally:
                _register_new(W, "wire", op["ws"], list(c.wires), before)
        elif t == "createPortPins":
            d = g("definition", op["d"])
            before = {id(x) for x in d.ports}
            try:
                d.create_port(pins=len(op["qs"]))
            finally:
                new = [x for x in d.ports if id(x) not in before]
                if new:
                    W.reg("port", op["p"], new[0])
                    _register_new(W, "pin", op["qs"], list(new[0].pins), set())
        elif t == "createCableWires":
            d = g("definition", op["d"])
            before = {id(x) for x in d.cables}
            try:
                d.create_cable(wires=len(op["ws"]))
            finally:
                new = [x for x in d.cables if id(x) not in before]
                if new:
                    W.reg("cable", op["c"], new[0])
                    _register_new(W, "wire", op["ws"], list(new[0].wires), set())
        return "ok"
    except Exception as e:  # noqa: BLE001
        return exc_class(e)
    finally:
        if guard is not None:
            guard.arm(None)


def bundle_expect(world, op):
    """outcome of `bundle.is_scalar = v` / `bundle.is_array = v` (no structural effect: not a model op): refused
    (RuntimeError) exactly for a multi-item bundle asked to be scalar"""
    b = world.get(op["kind"], op["x"])
    n = len(b._pins if op["kind"] == "port" else b._wires)
    scalar = op["v"] if op["attr"] == "is_scalar" else (not op["v"])
    return "runtime" if (n > 1 and scalar is True) else "ok"


def _posval(op):
    """the position argument of the call; op["badpos"]: an invalid (non-integer) one"""
    bad = op.get("badpos")
    if bad == "float":
        return op["pos"] + 0.5
    if bad == "str":
        return str(op["pos"])
    if bad == "list":
        return [op["pos"]]
    if bad == "huge":
        return 10 ** 100            # an integer no list index can hold (list.insert raises OverflowError)
    if bad == "neghuge":
        return -(10 ** 100)
    return op["pos"]


def execute(world, op, rng=None, tok=None):
    """Apply one model op through the public API. Returns the outcome class."""
    t = op["t"]
    W = world
    g = W.get
    if t == "setTopDef" and op.get("named"):
        try:
            n = g("netlist", op["n"])
            n.set_top_instance(g("definition", op["d"]), instance_name=tok["name"])
            W.reg("instance", op["i"], n.top_instance)
            return "ok"
        except Exception as e:  # noqa: BLE001
            return exc_class(e)
    if op.get("veto"):
        return execute_veto(world, op, tok)
    if t in COMPOUND:
        return execute_compound(W, op)
    spoil = []

    def sp(x):
        # the caller's own argument container: emptied right after the call (the library must not keep an alias to it);
        # every iterable form a caller may legitimately pass: the container itself, a tuple, a one-shot iterator,
        # a generator
        spoil.append(x)
        form = (rng.random() if rng is not None else 0.0)
        if form < 0.55 or isinstance(x, set):
            return x
        if form < 0.7:
            return tuple(x)
        if form < 0.85:
            return iter(list(x))
        return (y for y in list(x))
    try:
        if t == "addLibrary":
            n = g("netlist", op["n"])
            if op.get("create"):
                W.reg("library", op["l"], n.create_library())
            elif op.get("pos") is None:
                n.add_library(g("library", op["l"]))
            else:
                n.add_library(g("library", op["l"]), position=_posval(op))
        elif t == "removeLibrary":
            g("netlist", op["n"]).remove_library(g("library", op["l"]))
        elif t == "removeLibrariesFrom":
            xs = [g("library", x) for x in op["xs"]]
            g("netlist", op["n"]).remove_libraries_from(sp(set(xs) if op.get("asset") else xs))
        elif t == "setLibraries":
            g("netlist", op["n"]).libraries = sp([g("library", x) for x in op["xs"]])
        elif t == "addDefinition":
            l = g("library", op["l"])
            if op.get("create"):
                W.reg("definition", op["d"], l.create_definition())
            elif op.get("pos") is None:
                l.add_definition(g("definition", op["d"]))
            else:
                l.add_definition(g("definition", op["d"]), position=_posval(op))
        elif t == "removeDefinition":
            g("library", op["l"]).remove_definition(g("definition", op["d"]))
        elif t == "removeDefinitionsFrom":
            xs = [g("definition", x) for x in op["xs"]]
            g("library", op["l"]).remove_definitions_from(sp(set(xs) if op.get("asset") else xs))
        elif t == "setDefinitions":
            g("library", op["l"]).definitions = sp([g("definition", x) for x in op["xs"]])
        elif t == "addPort":
            d = g("definition", op["d"])
            if op.get("create"):
                W.reg("port", op["p"], d.create_port())
            elif op.get("pos") is None:
                d.add_port(g("port", op["p"]))
            else:
                d.add_port(g("port", op["p"]), position=_posval(op))
        elif t == "removePort":
            g("definition", op["d"]).remove_port(g("port", op["p"]))
        elif t == "removePortsFrom":
            xs = [g("port", x) for x in op["xs"]]
            g("definition", op["d"]).remove_ports_from(sp(set(xs) if op.get("asset") else xs))
        elif t == "setPorts":
            g("definition", op["d"]).ports = sp([g("port", x) for x in op["xs"]])
        elif t == "addCable":
            d = g("definition", op["d"])
            if op.get("create"):
                W.reg("cable", op["c"], d.create_cable())
            elif op.get("pos") is None:
                d.add_cable(g("cable", op["c"]))
            else:
                d.add_cable(g("cable", op["c"]), position=_posval(op))
        elif t == "removeCable":
            g("definition", op["d"]).remove_cable(g("cable", op["c"]))
        elif t == "removeCablesFrom":
            xs = [g("cable", x) for x in op["xs"]]
            g("definition", op["d"]).remove_cables_from(sp(set(xs) if op.get("asset") else xs))
        elif t == "setCables":
            g("definition", op["d"]).cables = sp([g("cable", x) for x in op["xs"]])
        elif t == "addChild":
            d = g("definition", op["d"])
            if op.get("pos") is None:
                d.add_child(g("instance", op["i"]))
            else:
                d.add_child(g("instance", op["i"]), position=_posval(op))
        elif t == "removeChild":
            g("definition", op["d"]).remove_child(g("instance", op["i"]))
        elif t == "removeChildrenFrom":
            xs = [g("instance", x) for x in op["xs"]]
            g("definition", op["d"]).remove_children_from(sp(set(xs) if op.get("asset") else xs))
        elif t == "setChildren":
            g("definition", op["d"]).children = sp([g("instance", x) for x in op["xs"]])
        elif t == "createChild":
            d = g("definition", op["d"])
            ref = None if op.get("ref") is None else g("definition", op["ref"])
            if op.get("veto_ref") and W.guard is not None and ref is not None:
                # another listener refuses the reference step of the compound constructor
                before_ids = {id(x) for x in d.children}
                W.guard.arm(0, "ref")
                try:
                    d.create_child(reference=ref)
                finally:
                    W.guard.arm(None)
                    new = [x for x in d.children if id(x) not in before_ids]
                    if new:
                        W.reg("instance", op["i"], new[0])
            else:
                W.reg("instance", op["i"], d.create_child(reference=ref))
        elif t == "addPin":
            p = g("port", op["p"])
            if op.get("create"):
                W.reg("pin", op["q"], p.create_pin())
            elif op.get("pos") is None:
                p.add_pin(g("pin", op["q"]))
            else:
                p.add_pin(g("pin", op["q"]), position=_posval(op))
        elif t == "removePin":
            g("port", op["p"]).remove_pin(g("pin", op["q"]))
        elif t == "removePinsFrom":
            xs = [g("pin", x) for x in op["xs"]]
            g("port", op["p"]).remove_pins_from(sp(set(xs) if op.get("asset") else xs))
        elif t == "setPins":
            g("port", op["p"]).pins = sp([g("pin", x) for x in op["xs"]])
        elif t == "addWire":
            c = g("cable", op["c"])
            if op.get("create"):
                W.reg("wire", op["w"], c.create_wire())
            elif op.get("pos") is None:
                c.add_wire(g("wire", op["w"]))
            else:
                c.add_wire(g("wire", op["w"]), position=_posval(op))
        elif t == "removeWire":
            g("cable", op["c"]).remove_wire(g("wire", op["w"]))
        elif t == "removeWiresFrom":
            xs = [g("wire", x) for x in op["xs"]]
            g("cable", op["c"]).remove_wires_from(sp(set(xs) if op.get("asset") else xs))
        elif t == "setWires":
            g("cable", op["c"]).wires = sp([g("wire", x) for x in op["xs"]])
        elif t == "connectInner":
            if op.get("pos") is None:
                g("wire", op["w"]).connect_pin(g("pin", op["q"]))
            else:
                g("wire", op["w"]).connect_pin(g("pin", op["q"]), position=_posval(op))
        elif t == "connectOuter":
            h = outer_handle(W, rng, op["i"], op["q"])
            if op.get("pos") is None:
                g("wire", op["w"]).connect_pin(h)
            else:
                g("wire", op["w"]).connect_pin(h, position=_posval(op))
        elif t == "disconnect":
            g("wire", op["w"]).disconnect_pin(pinref_obj(W, rng, op["r"], bool(op.get("proxy"))))
        elif t == "disconnectFrom":
            xs = [pinref_obj(W, rng, r, bool(op.get("proxy"))) for r in op["rs"]]
            g("wire", op["w"]).disconnect_pins_from(sp(set(xs) if op.get("asset") else xs))
        elif t == "setWirePins":
            g("wire", op["w"]).pins = sp([pinref_obj(W, None if op.get("stored_only") else rng, r, bool(op.get("proxy"))) for r in op["rs"]])
        elif t == "setRef":
            inst = g("instance", op["i"])
            if op.get("d") is None:
                if op.get("deleter"):
                    del inst.reference
                else:
                    inst.reference = None
            else:
                inst.reference = g("definition", op["d"])
        elif t == "bundleFlag":
            setattr(g(op["kind"], op["x"]), op["attr"], op["v"])
        elif t == "setTop" and op.get("badtype"):
            g("netlist", op["n"]).top_instance = {"str": "top", "int": 0, "tuple": (), "float": 1.0}[op["badtype"]]
        elif t == "setTop":
            n = g("netlist", op["n"])
            n.top_instance = None if op.get("i") is None else g("instance", op["i"])
        elif t == "setTopDef":
            n = g("netlist", op["n"])
            n.top_instance = g("definition", op["d"])
            W.reg("instance", op["i"], n.top_instance)
        else:
            raise RuntimeError("executor: unknown op " + t)
        return "ok"
    except Exception as e:  # noqa: BLE001 - refusal classes are the observation
        if isinstance(e, RuntimeError) and str(e).startswith("executor:"):
            raise
        return exc_class(e)
    finally:
        for x in spoil:
            x.clear()


def observe(world):
    """what any client may do between two edits without changing anything: hash every stored outer pin, compare it
    with a proxy for the same (instance, inner pin), iterate the public views. (Python-level caches that go
    stale on a later edit then show up as a wrong answer of that edit.)"""
    from spydrnet.ir import OuterPin
    n = 0
    for inst in list(world.objs["instance"].values()):
        for ip, op_ in list(inst._pins.items()):
            proxy = OuterPin.from_instance_and_inner_pin(inst, ip)
            n += (hash(op_) == hash(proxy)) + (op_ == proxy)
    for w in list(world.objs["wire"].values()):
        n += len(set(w.pins))
    for d in list(world.objs["definition"].values()):
        n += len(list(d.references)) + int(d.is_leaf())
    return n


_BACK = {"library": "_netlist", "definition": "_library", "port": "_definition", "cable": "_definition", "instance": "_parent"}


def prepare(world, op):
    """Harness-side arrangement done BEFORE the 'before' snapshot: for an add that the namespace
    manager must veto, give one sibling a unique name and (for a non-create add of an orphan) give
    the orphan the same name.  Returns a cleanup token."""
    if op.get("badtype"):
        world.get("netlist", op["n"])
    if op.get("badpos"):
        # operands exist before the call (a fresh label is not created inside the snapshot window of a refused call)
        for kind, f in {"addLibrary": (("netlist", "n"), ("library", "l")), "addDefinition": (("library", "l"), ("definition", "d")),
                        "addPort": (("definition", "d"), ("port", "p")), "addCable": (("definition", "d"), ("cable", "c")),
                        "addChild": (("definition", "d"), ("instance", "i")), "addPin": (("port", "p"), ("pin", "q")),
                        "addWire": (("cable", "c"), ("wire", "w")), "connectInner": (("wire", "w"), ("pin", "q")),
                        "connectOuter": (("wire", "w"), ("instance", "i"), ("pin", "q"))}.get(op["t"], ()):
            world.get(kind, op[f])
    if op["t"] == "setTopDef" and op.get("named"):
        world.get("netlist", op["n"])          # operands exist before the call (not created inside the snapshot window)
        d = world.get("definition", op["d"])
        if not op.get("veto"):
            return {"name": "tw_%d" % op["i"], "orphan": None}
        sibs = [x for x in (d.library.definitions if d.library is not None else []) if x is not d]
        if not sibs:
            raise RuntimeError("executor: veto requested but the definition has no sibling")
        if sibs[0].name is None:
            sibs[0].name = "definition_%s" % world.label(sibs[0], "definition")
        return {"name": sibs[0].name, "orphan": None}
    if not op.get("veto"):
        return None
    W = world
    pk, pf, lst, ck, cf = _SIB[op["t"]]
    name = arrange_veto(W, op)
    if name is None:
        raise RuntimeError("executor: veto requested but parent has no sibling")
    tok = {"name": name, "orphan": None}
    if op.get("veto_ident") and op["t"] == "createChild":
        # refusal through the IDENTIFIER of an unnamed instance: the parent follows the EDIF policy, the first sibling
        # carries an identifier, the new instance is offered the same one in another letter case
        parent = W.get(pk, op[pf])
        sib = getattr(parent, lst)[0]
        ok = True
        if parent._data.get(".NS") != "EDIF":
            try:
                parent[".NS"] = "EDIF"          # only a definition outside any library may change its policy
            except ValueError:
                ok = False                      # then the call is refused through the name, as usual
        if ok:
            if "EDIF.identifier" not in sib._data:
                sib["EDIF.identifier"] = "Vi%s" % W.label(sib, ck)
            tok["ident"] = sib._data["EDIF.identifier"].swapcase()
    if op["t"] != "createChild" and not op.get("create"):
        orphan = W.get(ck, op[cf])
        if getattr(orphan, _BACK[ck]) is None and orphan.name != name:
            tok["orphan"] = orphan
            tok["had"] = orphan.name
            orphan.name = name
    return tok


def cleanup(world, op, tok):
    if tok and tok.get("orphan") is not None:
        o = tok["orphan"]
        if getattr(o, _BACK[world.lab[id(o)][0]]) is None and o.name == tok["name"]:
            if tok["had"] is None:
                del o.name
            else:
                o.name = tok["had"]


def execute_veto(world, op, tok):
    """An add that the namespace manager must refuse (name collision with a sibling)."""
    W = world
    t = op["t"]
    pk, pf, lst, ck, cf = _SIB[t]
    name = tok["name"]
    parent = W.get(pk, op[pf])
    try:
        if t == "createChild" and op.get("veto_ident") and tok.get("ident"):
            ref = None if op.get("ref") is None else W.get("definition", op["ref"])
            W.reg("instance", op["i"], parent.create_child(properties={"EDIF.identifier": tok["ident"]}, reference=ref))
        elif t == "createChild":
            ref = None if op.get("ref") is None else W.get("definition", op["ref"])
            W.reg("instance", op["i"], parent.create_child(name=name, reference=ref))
        elif op.get("create"):
            meth = {"addLibrary": "create_library", "addDefinition": "create_definition", "addPort": "create_port", "addCable": "create_cable"}[t]
            W.reg(ck, op[cf], getattr(parent, meth)(name=name))
        else:
            orphan = W.get(ck, op[cf])
            meth = {"addLibrary": "add_library", "addDefinition": "add_definition", "addPort": "add_port", "addCable": "add_cable", "addChild": "add_child"}[t]
            if op.get("pos") is None:
                getattr(parent, meth)(orphan)
            else:
                getattr(parent, meth)(orphan, position=_posval(op))
        return "ok"
    except Exception as e:  # noqa: BLE001
        if isinstance(e, RuntimeError) and str(e).startswith("executor:"):
            raise
        return exc_class(e)


def dump_impl(world):
    """The implementation's state in the driver's dump format, read through the public API
    (plus `_references`/`_pins` where the public view is the same container)."""
    W = world
    c = W.counts()

    def L(kind, xs):
        return [W.label(x, kind) for x in xs]

    def pin_ref(x):
        if isinstance(x, _OuterPinBase):
            return ["o", W.label(x.instance, "instance"), W.label(x.inner_pin, "pin")]
        return ["i", W.label(x, "pin")]
    out = {k: [] for k in KINDS}
    blank = {"netlist": {"libs": [], "top": None}, "library": {"nl": None, "defs": []},
             "definition": {"lib": None, "ports": [], "cables": [], "children": [], "refs": []},
             "port": {"def": None, "pins": []}, "cable": {"def": None, "wires": []},
             "instance": {"parent": None, "ref": None, "pins": []}, "pin": {"port": None, "wire": None},
             "wire": {"cable": None, "pins": []}}
    for kind in KINDS:
        for lab in range(c[kind]):
            o = W.objs[kind].get(lab)
            if o is None:
                out[kind].append(dict(blank[kind]))
                continue
            if kind == "netlist":
                r = {"libs": L("library", o.libraries), "top": W.label(o.top_instance, "instance")}
            elif kind == "library":
                r = {"nl": W.label(o.netlist, "netlist"), "defs": L("definition", o.definitions)}
            elif kind == "definition":
                r = {"lib": W.label(o.library, "library"), "ports": L("port", o.ports), "cables": L("cable", o.cables),
                     "children": L("instance", o.children), "refs": sorted(L("instance", o.references))}
            elif kind == "port":
                r = {"def": W.label(o.definition, "definition"), "pins": L("pin", o.pins)}
            elif kind == "cable":
                r = {"def": W.label(o.definition, "definition"), "wires": L("wire", o.wires)}
            elif kind == "instance":
                r = {"parent": W.label(o.parent, "definition"), "ref": W.label(o.reference, "definition"),
                     "pins": sorted([W.label(q, "pin"), W.label(op_.wire, "wire")] for q, op_ in o._pins.items())}
            elif kind == "pin":
                r = {"port": W.label(o.port, "port"), "wire": W.label(o.wire, "wire")}
            else:
                r = {"cable": W.label(o.cable, "cable"), "pins": [pin_ref(x) for x in o.pins]}
            out[kind].append(r)
    # labels may have been discovered while dumping (new counts) - pad
    c2 = W.counts()
    if c2 != c:
        return dump_impl(world)
    return out


def canon_model_dump(d):
    for inst in d["instance"]:
        inst["pins"] = sorted(inst["pins"])
    for df in d["definition"]:
        df["refs"] = sorted(df["refs"])
    return d


def oracle(world, limit=8):
    """Independent statement-level oracle for C01 + C02 on the live objects (all objects ever seen,
    reachable or not).  Returns a list of (clause, detail)."""
    W = world
    bad = []

    def add(clause, detail):
        if len(bad) < limit:
            bad.append((clause, detail))
    pairs = [("netlist", "library", "_libraries", "_netlist"), ("library", "definition", "_definitions", "_library"),
             ("definition", "port", "_ports", "_definition"), ("definition", "cable", "_cables", "_definition"),
             ("definition", "instance", "_children", "_parent"), ("port", "pin", "_pins", "_port"),
             ("cable", "wire", "_wires", "_cable")]
    for pk, ck, lst, back in pairs:
        for pl, parent in W.objs[pk].items():
            items = getattr(parent, lst)
            if len(set(map(id, items))) != len(items):
                add("containment.duplicate", "%s %s lists a %s twice" % (pk, pl, ck))
            for x in items:
                if getattr(x, back) is not parent:
                    add("containment.child_without_backpointer", "%s %s lists %s %s whose parent is %s" % (pk, pl, ck, W.label(x), W.label(getattr(x, back))))
        for cl, child in W.objs[ck].items():
            par = getattr(child, back)
            if par is not None and not any(y is child for y in getattr(par, lst)):
                add("containment.backpointer_without_listing", "%s %s names parent %s which does not list it" % (ck, cl, W.label(par)))
    # pin <-> wire
    for wl, w in W.objs["wire"].items():
        seen = []
        for x in w._pins:
            if any(y is x for y in seen):
                add("wire.pin_listed_twice", "wire %s" % wl)
            seen.append(x)
            if x._wire is not w:
                add("wire.lists_pin_reporting_other_wire", "wire %s lists %s pin reporting %s" % (wl, type(x).__name__, W.label(x._wire)))
            if isinstance(x, _OuterPinBase):
                inst = x._instance
                if inst is None or x._inner_pin is None:
                    add("wire.lists_dropped_outer_pin", "wire %s" % wl)
                elif inst._pins.get(x._inner_pin) is not x:
                    add("wire.lists_outer_pin_not_stored_on_instance", "wire %s" % wl)
    for ql, q in W.objs["pin"].items():
        w = q._wire
        if w is not None and sum(1 for y in w._pins if y is q) != 1:
            add("pin.reports_wire_not_listing_it_once", "pin %s wire %s" % (ql, W.label(w)))
    # instances mirror their definition
    for il, inst in W.objs["instance"].items():
        r = inst._reference
        member_of = [dl for dl, d in W.objs["definition"].items() if inst in d._references]
        want = [] if r is None else [W.label(r, "definition")]
        if sorted(member_of) != sorted(want):
            add("refs.membership", "instance %s references %s but is in reference sets %s" % (il, want, member_of))
        inner = [] if r is None else [q for p in r._ports for q in p._pins]
        keys = list(inst._pins.keys())
        if len(keys) != len(inner) or set(map(id, keys)) != set(map(id, inner)):
            add("mirror.outer_pins_vs_inner_pins", "instance %s has %d outer pins, definition has %d inner pins" % (il, len(keys), len(inner)))
        for q, o in inst._pins.items():
            if o._instance is not inst or o._inner_pin is not q:
                add("mirror.outer_pin_names_wrong_pair", "instance %s" % il)
            w = o._wire
            if w is not None and sum(1 for y in w._pins if y is o) != 1:
                add("outer_pin.reports_wire_not_listing_it_once", "instance %s pin %s" % (il, W.label(q)))
    # outer pins that disappeared were first taken off their wire
    for (o, il, ql) in W.outer_handles:
        inst = W.objs["instance"].get(il)
        stored = inst is not None and any(v is o for v in inst._pins.values())
        if not stored:
            if o._wire is not None:
                add("dropped_outer_pin.still_reports_wire", "(instance %s, pin %s)" % (il, ql))
            for wl, w in W.objs["wire"].items():
                if any(y is o for y in w._pins):
                    add("dropped_outer_pin.still_on_wire", "(instance %s, pin %s) on wire %s" % (il, ql, wl))
    return bad
