"""Engine IR, naming layer (C10): NamespaceManager tables vs a scan, under both policies."""
import json
import os
import random

import spydrnet as sdn
from spydrnet.plugins import namespace_manager
from spydrnet.global_state import global_service

from common import lean
from common.ctx import ROOT, stable_hash
from common.shard import ShardResult, run_shards
from engines.irlib import exc_class
from registry import META

KINDS = ["netlist", "library", "definition", "port", "cable", "instance"]
CTOR = {"netlist": sdn.Netlist, "library": sdn.Library, "definition": sdn.Definition, "port": sdn.Port,
        "cable": sdn.Cable, "instance": sdn.Instance}
CHILD_KINDS = {"netlist": ["library"], "library": ["definition"], "definition": ["port", "cable", "instance"]}
ADD = {"library": "add_library", "definition": "add_definition", "port": "add_port", "cable": "add_cable", "instance": "add_child"}
REM = {"library": "remove_library", "definition": "remove_definition", "port": "remove_port", "cable": "remove_cable", "instance": "remove_child"}
CHILDREN = {"library": "libraries", "definition": "definitions", "port": "ports", "cable": "cables", "instance": "children"}
REM_MANY = {"library": "remove_libraries_from", "definition": "remove_definitions_from", "port": "remove_ports_from",
            "cable": "remove_cables_from", "instance": "remove_children_from"}
LISTATTR = {"library": "_libraries", "definition": "_definitions", "port": "_ports", "cable": "_cables", "instance": "_children"}
BACK = {"library": "_netlist", "definition": "_library", "port": "_definition", "cable": "_definition", "instance": "_parent"}
GET = {"library": sdn.get_libraries, "definition": sdn.get_definitions, "port": sdn.get_ports, "cable": sdn.get_cables, "instance": sdn.get_instances}
MAXN = {"netlist": 2, "library": 3, "definition": 3, "port": 4, "cable": 3, "instance": 3}
NAMES = ["a", "A", "ab", "Ab", "b", ""]          # the empty string is a name like any other
IDENTS = ["a", "A", "ab", "Ab", "aB", "&1", "b_", "1x", "a-b", "&"]
KEYSTR = {"name": ".NAME", "ident": "EDIF.identifier"}


READER_FILES = ["EDIF_netlists/AND_gate.edf.zip", "EDIF_netlists/TMR_hierarchy.edf.zip", "EDIF_netlists/namespace.edf.zip",
                "EDIF_netlists/hierarchical_luts.edf.zip", "EDIF_netlists/n_bit_counter.edf.zip", "EDIF_netlists/toggle.edf.zip",
                "EDIF_netlists/three_layer_hierarchy.edf.zip", "EDIF_netlists/unused_blackbox.edf.zip", "EDIF_netlists/multi_port.edf.zip",
                "eblif_netlists/toggle.eblif.zip", "eblif_netlists/synchronouscounter.eblif.zip",
                "verilog_netlists/namespace.v.zip", "verilog_netlists/inverter.v.zip", "verilog_netlists/TMR_hierarchy.v.zip",
                "verilog_netlists/three_layer_hierarchy.v.zip", "verilog_netlists/unused_blackbox.v.zip", "verilog_netlists/carrychain.v.zip"]


def load_ops(W, nl, base):
    """label every element of a reader-built netlist (labels from `base` upwards per class) and return the model
    calls that build the same names by hand: the reader's netlist must be indexed exactly like that one"""
    nxt = {k: base for k in KINDS}

    def reg(kind, o):
        lab = nxt[kind]
        nxt[kind] += 1
        W.objs[kind][lab] = o
        W.lab[id(o)] = (kind, lab)
        W.keep.append(o)
        return [kind, lab]

    def ci(p, c, o):
        return {"t": "createIn", "p": p, "c": c, "name": o._data.get(".NAME"), "ident": o._data.get("EDIF.identifier")}
    pol = nl._data.get(".NS")
    ops = [{"t": "setDefault", "pol": pol}] if pol else []
    n = reg("netlist", nl)
    ops.append({"t": "create", "e": n})
    for key, mk in ((".NAME", "name"), ("EDIF.identifier", "ident")):
        if key in nl._data:
            ops.append({"t": "setKey", "e": n, "k": mk, "v": nl._data[key]})
    for lib in nl._libraries:
        l = reg("library", lib)
        ops.append(ci(n, l, lib))
        for d in lib._definitions:
            dd = reg("definition", d)
            ops.append(ci(l, dd, d))
            for ck in ("port", "cable", "instance"):
                for x in getattr(d, LISTATTR[ck]):
                    ops.append(ci(dd, reg(ck, x), x))
    t = nl._top_instance
    if t is not None and id(t) not in W.lab:
        tt = reg("instance", t)
        ops.append({"t": "create", "e": tt})
        for key, mk in ((".NAME", "name"), ("EDIF.identifier", "ident")):
            if key in t._data:
                ops.append({"t": "setKey", "e": tt, "k": mk, "v": t._data[key]})
    if pol:
        ops.append({"t": "setDefault", "pol": "DEFAULT"})
    return ops


def legal_ident(v):
    """independent transcription of the EDIF identifier rule (ASCII)"""
    ok = set("abcdefghijklmnopqrstuvwxyzABCDEFGHIJKLMNOPQRSTUVWXYZ0123456789_")
    if v.startswith("&"):
        return 2 <= len(v) <= 256 and all(ch in ok for ch in v[1:])
    return 1 <= len(v) <= 255 and v[0].isalpha() and v[0] in ok and all(ch in ok for ch in v)


class NWorld:
    def __init__(self):
        self.objs = {k: {} for k in KINDS}
        self.lab = {}
        self.keep = []
        # the manager may build the table of an element it has not seen (a clone) on first use; such a
        # table-to-be counts as present in the dump. (What matters — refusals, lookups, uniqueness — is
        # observed through the public API either way.)
        self.lazy_tables = True

    def create(self, kind, label):
        o = CTOR[kind]()
        self.objs[kind][label] = o
        self.lab[id(o)] = (kind, label)
        self.keep.append(o)
        return o

    def get(self, e):
        return self.objs[e[0]].get(e[1])

    def el(self, o):
        if o is None:
            return None
        r = self.lab.get(id(o))
        return list(r) if r else ["?", -1]

    def all_els(self):
        return [[k, l] for k in KINDS for l in sorted(self.objs[k])]


def parent_of(o, kind):
    return None if kind == "netlist" else getattr(o, BACK[kind])


def kids_of(o, kind):
    out = []
    for ck in CHILD_KINDS.get(kind, []):
        out.extend(getattr(o, LISTATTR[ck]))
    return out


def execute(W, op):
    t = op["t"]
    try:
        if t == "create":
            W.create(op["e"][0], op["e"][1])
        elif t == "attach":
            p, c = W.get(op["p"]), W.get(op["c"])
            getattr(p, ADD[op["c"][0]])(c)
        elif t == "detach":
            p, c = W.get(op["p"]), W.get(op["c"])
            getattr(p, REM[op["c"][0]])(c)
        elif t == "detachMany":
            p = W.get(op["p"])
            xs = [W.get(c) for c in op["cs"]]
            form = op.get("form", "list")
            arg = set(xs) if form == "set" else tuple(xs) if form == "tuple" else (x for x in list(xs)) if form == "gen" else list(xs)
            getattr(p, REM_MANY[op["cs"][0][0]])(arg)
        elif t == "setKey":
            e = W.get(op["e"])
            if op["k"] == "name" and op.get("via_prop"):
                e.name = op["v"]
            else:
                e[KEYSTR[op["k"]]] = op["v"]
        elif t == "delKey":
            del W.get(op["e"])[KEYSTR[op["k"]]]
        elif t == "popKey":
            W.get(op["e"]).pop(KEYSTR[op["k"]])
        elif t == "delNameProp":
            e = W.get(op["e"])
            if op.get("assign_none"):
                e.name = None
            else:
                del e.name
        elif t == "setNs":
            W.get(op["e"])[".NS"] = op["pol"]
        elif t == "delNs":
            del W.get(op["e"])[".NS"]
        elif t == "setDefault":
            namespace_manager.default = op["pol"]
        elif t == "createIn":
            p = W.get(op["p"])
            kind = op["c"][0]
            meth = {"library": "create_library", "definition": "create_definition", "port": "create_port", "cable": "create_cable", "instance": "create_child"}[kind]
            kw = {}
            if op.get("name") is not None:
                kw["name"] = op["name"]
            if op.get("ident") is not None:
                kw["properties"] = {"EDIF.identifier": op["ident"]}
            o = getattr(p, meth)(**kw)
            W.objs[kind][op["c"][1]] = o
            W.lab[id(o)] = (kind, op["c"][1])
            W.keep.append(o)
        elif t == "load":
            import os as _os
            from common.ctx import REPO as _REPO
            nl = sdn.parse(_os.path.join(_REPO, "example_netlists", op["file"]))
            W.loaded_ops = load_ops(W, nl, op.get("base", 0))
        elif t == "clone":
            o = W.get(op["e"])
            c = o.clone()
            src, dst = subtree(o, op["e"][0]), subtree(c, op["e"][0])
            if [k for (_, k) in src] != [k for (_, k) in dst]:
                raise RuntimeError("executor: clone has another shape than its source")
            for (x, xk), (y, _) in zip(src, dst):
                lab = W.lab[id(x)][1] + op["off"]
                W.objs[xk][lab] = y
                W.lab[id(y)] = (xk, lab)
                W.keep.append(y)
        else:
            raise RuntimeError("executor: unknown names op " + t)
        return "ok"
    except Exception as ex:  # noqa: BLE001
        if isinstance(ex, RuntimeError) and str(ex).startswith("executor:"):
            raise
        return exc_class(ex)


def dump_impl(W):
    out = []
    for e in W.all_els():
        o = W.get(e)
        tblobj = namespace_manager.namespaces.get(o) if e[0] in CHILD_KINDS else None
        out.append({"e": e, "name": o._data.get(".NAME"), "ident": o._data.get("EDIF.identifier"), "ns": o._data.get(".NS"),
                    "parent": W.el(parent_of(o, e[0])), "kids": sorted(W.el(c) for c in kids_of(o, e[0])),
                    "tbl": (o._data.get(".NS") if (e[0] in CHILD_KINDS and W.lazy_tables) else None) if tblobj is None
                    else ("EDIF" if type(tblobj).__name__ == "EdifNamespace" else "DEFAULT")})
    return out


def canon_model(d):
    for r in d:
        r["kids"] = sorted(r["kids"])
    return d


def queries(W, drv, rng, full):
    """For each scope x class x key x candidate value: fast lookup (through the public get_* API) vs the
    model's lookup (correspondence) and vs an independent scan (P)."""
    out = []
    for e in W.all_els():
        if e[0] not in CHILD_KINDS:
            continue
        P = W.get(e)
        for ck in CHILD_KINDS[e[0]]:
            present = {"name": sorted(set(c._data[".NAME"] for c in getattr(P, LISTATTR[ck]) if isinstance(c._data.get(".NAME"), str)) - set(NAMES)),
                       "ident": sorted(set(c._data["EDIF.identifier"] for c in getattr(P, LISTATTR[ck]) if isinstance(c._data.get("EDIF.identifier"), str)) - set(IDENTS))}
            for key, vals in (("name", NAMES), ("ident", IDENTS)):
                cand = vals if full else rng.sample(vals, 2)
                extra = [v for v in present[key] if not any(ch in v for ch in "*?[")]
                if extra:
                    pick = extra[:4] if full else rng.sample(extra, min(2, len(extra)))
                    cand = list(cand) + pick + [v.swapcase() for v in pick[:1]]
                for v in cand:
                    got = sorted(W.el(x) for x in GET[ck](P, v, key=KEYSTR[key]))
                    pol = P._data.get(".NS")
                    sibs = getattr(P, LISTATTR[ck])
                    if key == "name":
                        scan = [W.el(c) for c in sibs if c._data.get(".NAME") == v]
                    elif pol == "EDIF":
                        scan = [W.el(c) for c in sibs if "EDIF.identifier" in c._data and c._data["EDIF.identifier"].lower() == v.lower()]
                    else:
                        scan = [W.el(c) for c in sibs if c._data.get("EDIF.identifier") == v]
                    out.append((e, ck, key, v, got, sorted(scan)))
    return out


def uniqueness_problems(W):
    bad = []
    for e in W.all_els():
        if e[0] not in CHILD_KINDS:
            continue
        P = W.get(e)
        pol = P._data.get(".NS")
        if pol is None:
            continue
        for ck in CHILD_KINDS[e[0]]:
            sibs = getattr(P, LISTATTR[ck])
            names = [c._data[".NAME"] for c in sibs if ".NAME" in c._data]
            if len(set(names)) != len(names):
                bad.append(("duplicate_name", "%s %s" % (e, ck)))
            if pol == "EDIF":
                ids = [c._data["EDIF.identifier"] for c in sibs if "EDIF.identifier" in c._data]
                if len(set(x.lower() for x in ids)) != len(ids):
                    bad.append(("duplicate_identifier_ci", "%s %s" % (e, ck)))
                if any(not legal_ident(x) for x in ids):
                    bad.append(("illegal_identifier", "%s %s" % (e, ck)))
    return bad


def subtree(o, kind):
    out = [(o, kind)]
    for ck in CHILD_KINDS.get(kind, []):
        for c in getattr(o, LISTATTR[ck]):
            out.extend(subtree(c, ck))
    return out


def expected_refusal(W, op):
    """Independent duplicate / legality check: should this edit be refused by the naming rules?
    Returns None when the op is not a naming-governed edit or a structural precondition decides."""
    t = op["t"]
    if t == "setKey":
        e = W.get(op["e"])
        kind = op["e"][0]
        k, v = op["k"], op["v"]
        if e._data.get(".NS") == "EDIF" and k == "ident" and not legal_ident(v):
            return True
        P = parent_of(e, kind)
        if P is None or ".NS" not in P._data:
            return False
        sibs = [c for c in getattr(P, LISTATTR[kind]) if c is not e]
        if k == "name":
            return any(c._data.get(".NAME") == v for c in sibs)
        if P._data.get(".NS") == "EDIF":
            return any("EDIF.identifier" in c._data and c._data["EDIF.identifier"].lower() == v.lower() for c in sibs)
        return False
    if t == "attach":
        P, c = W.get(op["p"]), W.get(op["c"])
        kind = op["c"][0]
        if parent_of(c, kind) is not None:
            return None
        ppol = P._data.get(".NS")
        if ppol is not None:
            sibs = list(getattr(P, LISTATTR[kind]))
            if ".NAME" in c._data and any(s._data.get(".NAME") == c._data[".NAME"] for s in sibs):
                return True
            if ppol == "EDIF" and "EDIF.identifier" in c._data and any(
                    "EDIF.identifier" in s._data and s._data["EDIF.identifier"].lower() == c._data["EDIF.identifier"].lower() for s in sibs):
                return True
            if c._data.get(".NS") != ppol:
                # the child's subtree must be acceptable under the parent's policy
                for (x, xk) in subtree(c, kind):
                    if ppol == "EDIF" and "EDIF.identifier" in x._data and not legal_ident(x._data["EDIF.identifier"]):
                        return True
                    for ck in CHILD_KINDS.get(xk, []):
                        ks = getattr(x, LISTATTR[ck])
                        names = [y._data[".NAME"] for y in ks if ".NAME" in y._data]
                        if len(set(names)) != len(names):
                            return True
                        if ppol == "EDIF":
                            ids = [y._data["EDIF.identifier"].lower() for y in ks if "EDIF.identifier" in y._data]
                            if len(set(ids)) != len(ids):
                                return True
        return False
    return None


def next_label(lst):
    return 1 + max([e[1] for e in lst], default=-1)


def gen_op(rng, W):
    els = W.all_els()
    by = {k: [e for e in els if e[0] == k] for k in KINDS}
    r = rng.random()
    if els and len(els) < 36 and rng.random() < 0.05:
        # clone any element; copies are labelled label + off, off above every label in use
        return {"t": "clone", "e": rng.choice(els), "off": 1 + max(e[1] for e in els)}
    if r < 0.18 or not els:
        kinds = [k for k in KINDS if len(by[k]) < MAXN[k]]
        if kinds:
            k = rng.choice(kinds)
            return {"t": "create", "e": [k, next_label(by[k])]}
    if r < 0.26:
        ck = rng.choice(["library", "definition", "port", "cable", "instance"])
        pk = {"library": "netlist", "definition": "library"}.get(ck, "definition")
        if by[pk] and len(by[ck]) < MAXN[ck] + 2:
            return {"t": "createIn", "p": rng.choice(by[pk]), "c": [ck, next_label(by[ck])],
                    "name": rng.choice(NAMES + [None]), "ident": rng.choice(IDENTS + [None, None])}
    if r < 0.40:
        # attach a child to a compatible parent (often already-owned -> assert)
        ck = rng.choice(["library", "definition", "port", "cable", "instance"])
        pk = {"library": "netlist", "definition": "library"}.get(ck, "definition")
        if by[ck] and by[pk]:
            orph = [e for e in by[ck] if parent_of(W.get(e), ck) is None]
            c = rng.choice(orph) if (orph and rng.random() < 0.85) else rng.choice(by[ck])
            return {"t": "attach", "p": rng.choice(by[pk]), "c": c}
    if r < 0.435:
        # bulk removal: some children of one parent, sometimes together with an element that is not its child
        # (refused as a whole: nothing may change)
        ck = rng.choice(["library", "definition", "port", "cable", "instance"])
        pk = {"library": "netlist", "definition": "library"}.get(ck, "definition")
        par = [P for P in by[pk] if any(parent_of(W.get(e), ck) is W.get(P) for e in by[ck])]
        if par:
            P = rng.choice(par)
            kids = [e for e in by[ck] if parent_of(W.get(e), ck) is W.get(P)]
            rng.shuffle(kids)
            cs = kids[:rng.randint(1, min(3, len(kids)))]
            others = [e for e in by[ck] if parent_of(W.get(e), ck) is not W.get(P)]
            if others and rng.random() < 0.4:
                cs.insert(rng.randrange(len(cs) + 1), rng.choice(others))
            return {"t": "detachMany", "p": P, "cs": cs, "form": rng.choice(["list", "list", "set", "tuple", "gen"])}
    if r < 0.50:
        owned = [e for e in els if e[0] != "netlist" and parent_of(W.get(e), e[0]) is not None]
        if owned and rng.random() < 0.9:
            c = rng.choice(owned)
            return {"t": "detach", "p": W.el(parent_of(W.get(c), c[0])), "c": c}
        cands = [e for e in els if e[0] != "netlist"]
        if cands:
            c = rng.choice(cands)
            pk = {"library": "netlist", "definition": "library"}.get(c[0], "definition")
            if by[pk]:
                return {"t": "detach", "p": rng.choice(by[pk]), "c": c}
    if r < 0.78 and els:
        e = rng.choice(els)
        if rng.random() < 0.5:
            return {"t": "setKey", "e": e, "k": "name", "v": rng.choice(NAMES), "via_prop": rng.random() < 0.5}
        return {"t": "setKey", "e": e, "k": "ident", "v": rng.choice(IDENTS)}
    if r < 0.90 and els:
        e = rng.choice(els)
        k = rng.choice(["name", "ident"])
        q = rng.random()
        if q < 0.4:
            return {"t": "delKey", "e": e, "k": k}
        if q < 0.8:
            return {"t": "popKey", "e": e, "k": k}
        return {"t": "delNameProp", "e": e, "assign_none": rng.random() < 0.5}
    if r < 0.95:
        return {"t": "setDefault", "pol": rng.choice(["DEFAULT", "EDIF"])}
    if els:
        e = rng.choice(els)
        if rng.random() < 0.7:
            return {"t": "setNs", "e": e, "pol": rng.choice(["DEFAULT", "EDIF"])}
        return {"t": "delNs", "e": e}
    return {"t": "create", "e": ["netlist", 0]}


def scenario_prefix(rng):
    """directed openings for the rarer mechanisms (policy conversion of a populated container, mixed-case
    identifier renames, an add refused on its second key); the random walk continues from there"""
    r = rng.random()
    leafk = rng.choice(["port", "cable", "instance"])
    bad = rng.choice(["1x", "a-b", "&"])
    if rng.random() < 0.18:
        # a name (or identifier) GIVEN UP by one child - un-named, renamed or removed - and TAKEN OVER by a sibling; the
        # first child then comes back under another name: the sibling's entry must survive, a third claimant is refused
        k = rng.choice(["name", "name", "ident"])
        pool = NAMES if k == "name" else ["a", "Ab", "b_", "aB"]
        nm = rng.choice(pool)
        nm2 = rng.choice([x for x in pool if x.lower() != nm.lower()])
        D, A, B, C = ["definition", 0], [leafk, 0], [leafk, 1], [leafk, 2]
        ops = ([{"t": "setDefault", "pol": "EDIF"}] if (k == "ident" or rng.random() < 0.3) else []) + [{"t": "create", "e": D}]
        mk = lambda c, v: {"t": "createIn", "p": D, "c": c, "name": v if k == "name" else None, "ident": v if k == "ident" else None}
        ops.append(mk(A, nm))
        how = rng.choice(["del", "pop", "detach", "rename"] + (["prop"] if k == "name" else []))
        if how == "detach":
            ops.append({"t": "detach", "p": D, "c": A})
        elif how == "rename":
            ops.append({"t": "setKey", "e": A, "k": k, "v": rng.choice([x for x in pool if x.lower() not in (nm.lower(), nm2.lower())] or [nm2])})
        elif how == "prop":
            ops.append({"t": "delNameProp", "e": A, "assign_none": rng.random() < 0.5})
        else:
            ops.append({"t": "delKey" if how == "del" else "popKey", "e": A, "k": k})
        ops.append(mk(B, nm))
        ops.append({"t": "setKey", "e": A, "k": k, "v": nm2, "via_prop": rng.random() < 0.5} if k == "name" else {"t": "setKey", "e": A, "k": k, "v": nm2})
        if how == "detach":
            ops.append({"t": "attach", "p": D, "c": A})
        ops.append(mk(C, nm))
        return ops
    if rng.random() < 0.2:
        # a table REBUILT from the children (policy switched forth and back, or first use of a clone) must hold every
        # name the incrementally kept one held - then a second sibling of that name
        nm = rng.choice(NAMES)
        ops = [{"t": "create", "e": ["definition", 0]}, {"t": "createIn", "p": ["definition", 0], "c": [leafk, 0], "name": nm, "ident": None}]
        if rng.random() < 0.5:
            ops += [{"t": "setNs", "e": ["definition", 0], "pol": "EDIF"}, {"t": "setNs", "e": ["definition", 0], "pol": "DEFAULT"},
                    {"t": "createIn", "p": ["definition", 0], "c": [leafk, 1], "name": nm, "ident": None}]
        else:
            ops += [{"t": "clone", "e": ["definition", 0], "off": 1},
                    {"t": "createIn", "p": ["definition", 1], "c": [leafk, 2], "name": nm, "ident": None}]
        return ops
    if r < 0.35:
        ops = [{"t": "create", "e": ["definition", 0]}, {"t": "create", "e": [leafk, 0]},
               {"t": "setKey", "e": [leafk, 0], "k": "ident", "v": rng.choice([bad, "Ab"])},
               {"t": "attach", "p": ["definition", 0], "c": [leafk, 0]}]
        if rng.random() < 0.5:
            ops.append({"t": "setNs", "e": ["definition", 0], "pol": "EDIF"})
        else:
            ops += [{"t": "setDefault", "pol": "EDIF"}, {"t": "create", "e": ["library", 0]},
                    {"t": "attach", "p": ["library", 0], "c": ["definition", 0]}]
        return ops
    if r < 0.7:
        return [{"t": "setDefault", "pol": "EDIF"}, {"t": "create", "e": ["definition", 0]}, {"t": "create", "e": [leafk, 0]}, {"t": "create", "e": [leafk, 1]},
                {"t": "setKey", "e": [leafk, 0], "k": "ident", "v": rng.choice(["Ab", "aB", "A"])}, {"t": "attach", "p": ["definition", 0], "c": [leafk, 0]},
                {"t": "setKey", "e": [leafk, 0], "k": "ident", "v": rng.choice(["b_", "ab", "a"])}, {"t": "attach", "p": ["definition", 0], "c": [leafk, 1]},
                {"t": "setKey", "e": [leafk, 1], "k": "ident", "v": rng.choice(["ab", "AB", "a"])}]
    return [{"t": "setDefault", "pol": "EDIF"}, {"t": "create", "e": ["definition", 0]}, {"t": "create", "e": [leafk, 0]}, {"t": "create", "e": [leafk, 1]},
            {"t": "setKey", "e": [leafk, 0], "k": "name", "v": "a"}, {"t": "attach", "p": ["definition", 0], "c": [leafk, 0]},
            {"t": "setKey", "e": [leafk, 1], "k": "ident", "v": "ab"}, {"t": "setKey", "e": [leafk, 1], "k": "name", "v": "a"},
            {"t": "attach", "p": ["definition", 0], "c": [leafk, 1]}, {"t": "create", "e": [leafk, 2]},
            {"t": "setKey", "e": [leafk, 2], "k": "ident", "v": "AB"}, {"t": "attach", "p": ["definition", 0], "c": [leafk, 2]}]


def run_script(ops_or_len, rng, drv, res, fast=True, c14=False):
    W = NWorld()
    namespace_manager.default = "DEFAULT"
    drv.ask({"cmd": "nreset"})
    findings = []
    gen = isinstance(ops_or_len, int)
    n = ops_or_len if gen else len(ops_or_len)
    script = []
    prefix = scenario_prefix(rng) if gen and rng.random() < 0.3 else []
    if gen and rng.random() < 0.08:
        prefix = [{"t": "load", "file": rng.choice(READER_FILES)}]
    try:
        for k in range(n):
            op = (prefix[k] if k < len(prefix) else gen_op(rng, W)) if gen else ops_or_len[k]
            if op["t"] == "load":
                if W.all_els():
                    continue
                script.append(op)
                out = execute(W, op)
                if out != "ok":
                    findings.append({"kind": "spec", "signature": "load.reader_raises_on_bundled_file", "step": len(script) - 1, "detail": "%s: %s" % (op["file"], out)})
                    break
                for mop in W.loaded_ops:
                    m = drv.ask({"cmd": "nop", "op": mop})
                    if m.get("res") != "ok":
                        findings.append({"kind": "corr", "signature": "names.load.model_refuses_what_the_reader_built", "step": len(script) - 1,
                                         "detail": "%r -> %s" % (mop, m.get("res") or m.get("error"))})
                        break
                if findings:
                    break
                res.dist("nop:load:" + op["file"].split("/")[0])
                for clause, detail in uniqueness_problems(W):
                    findings.append({"kind": "spec", "signature": "load.%s" % clause, "step": len(script) - 1, "detail": detail})
                di = dump_impl(W)
                dm = canon_model(drv.ask({"cmd": "ndump", "els": W.all_els()}))
                if di != dm:
                    diff = [(a, b) for a, b in zip(di, dm) if a != b][:3]
                    findings.append({"kind": "corr", "signature": "names.load.state", "step": len(script) - 1, "detail": "reader-built netlist is not indexed like the hand-built one",
                                     "impl": [d[0] for d in diff], "model": [d[1] for d in diff]})
                if findings:
                    break
                continue
            if op["t"] == "createIn":
                if W.get(op["p"]) is None or W.get(op["c"]) is not None:
                    continue
            elif op["t"] != "create" and any(W.get(op[f]) is None for f in ("e", "p", "c") if f in op):
                continue        # shrinking removed the create op of an operand
            if op["t"] == "detachMany" and any(W.get(c) is None for c in op["cs"]):
                continue
            if op["t"] == "create" and W.get(op["e"]) is not None:
                continue
            script.append(op)
            exp = expected_refusal(W, op)
            if op["t"] == "detachMany":
                P0 = W.get(op["p"])
                ck0 = op["cs"][0][0]
                many_ok = all(parent_of(W.get(c), ck0) is P0 for c in op["cs"])
                kids0 = list(getattr(P0, CHILDREN[ck0]))
                many_order = sorted({tuple(c) for c in op["cs"]}, key=lambda c: kids0.index(W.get(list(c))) if many_ok else 0)
                many_order = [list(c) for c in many_order]
            snap0 = (dump_impl(W), [(q[0], q[1], q[2], q[3], q[4]) for q in queries(W, drv, rng, full=True)]) if c14 else None
            out = execute(W, op)
            if c14 and out != "ok":
                snap1 = (dump_impl(W), [(q[0], q[1], q[2], q[3], q[4]) for q in queries(W, drv, rng, full=True)])
                if snap1 != snap0:
                    what = "element data / containment / tables" if snap1[0] != snap0[0] else "lookup answers"
                    findings.append({"kind": "spec", "prop": "C14", "signature": "names.%s.refused_%s.state_changed" % (op["t"], out),
                                     "step": len(script) - 1, "detail": "refused call changed %s" % what})
            if op["t"] == "clone" and out == "assert":
                # Netlist/Library/Definition.clone assert on connectivity that the naming histories may have made
                # ill-formed (a port moved to another definition with its pins still wired): not a naming matter
                script.pop()
                res.dist("nop:clone:skipped_ill_formed_connectivity")
                continue
            if op["t"] == "detachMany":
                # all members: the removals one by one (in the container's order); otherwise refused as a whole
                if many_ok:
                    m = {"res": "ok"}
                    for c in many_order:
                        m1 = drv.ask({"cmd": "nop", "op": {"t": "detach", "p": op["p"], "c": c}})
                        if "error" in m1 or m1.get("res") != "ok":
                            m = m1
                            break
                else:
                    m = {"res": "assert"}
            else:
                m = drv.ask({"cmd": "nop", "op": {kk: v for kk, v in op.items() if kk not in ("via_prop", "assign_none")}})
            if "error" in m:
                raise RuntimeError("driver rejected %r: %s" % (op, m["error"]))
            res.dist("nop:" + op["t"])
            res.dist("nout:" + out)
            # P: refused exactly when duplicate / illegal
            if exp is not None and out in ("ok", "value") and (out == "value") != exp:
                findings.append({"kind": "spec", "signature": "%s.%s" % (op["t"], "refused_without_duplicate_or_illegal" if out == "value" else "accepted_duplicate_or_illegal"),
                                 "step": len(script) - 1, "detail": "independent scan says refusal=%s, call %s" % (exp, out)})
            for clause, detail in uniqueness_problems(W):
                findings.append({"kind": "spec", "signature": "%s.%s" % (op["t"], clause), "step": len(script) - 1, "detail": detail})
            # correspondence: outcome + state
            if out != m["res"]:
                findings.append({"kind": "corr", "signature": "names.%s.outcome" % op["t"], "step": len(script) - 1,
                                 "detail": "impl %s, model %s" % (out, m["res"])})
            di = dump_impl(W)
            dm = canon_model(drv.ask({"cmd": "ndump", "els": W.all_els()}))
            if di != dm:
                diff = [(a, b) for a, b in zip(di, dm) if a != b][:3]
                findings.append({"kind": "corr", "signature": "names.%s.state" % op["t"], "step": len(script) - 1, "detail": "state differs", "impl": [d[0] for d in diff], "model": [d[1] for d in diff]})
            # lookups: implementation vs scan (P) and vs model (correspondence)
            # a lookup makes the library build the lazily kept table of a fresh clone: after half of the clone calls
            # (decided by the op itself, so replays agree) nothing is looked up, so that the NEXT call meets the copy
            # exactly as clone() left it
            quiet = op["t"] == "clone" and int(stable_hash(op), 16) % 2 == 0
            for (e, ck, key, v, got, scan) in ([] if quiet else queries(W, drv, rng, full=not gen or (k % 7 == 0))):
                if got != scan:
                    what = "missed" if len(got) < len(scan) else "ghost"
                    if len(scan) > 1 and len(got) == 1 and got[0] in scan:
                        what = "duplicate_values_first_only"
                    findings.append({"kind": "spec", "signature": "lookup.%s.%s.%s" % (key, (W.get(e)._data.get(".NS") or "none"), what),
                                     "step": len(script) - 1, "detail": "get_%s(%s, %r, key=%s) = %s, scan = %s" % (ck, e, v, key, got, scan)})
                ml = drv.ask({"cmd": "nlookup", "p": e, "kd": ck, "k": key, "v": v})
                mm = sorted(ml["lookup"])
                if mm != got:
                    findings.append({"kind": "corr", "signature": "names.lookup.%s" % key, "step": len(script) - 1,
                                     "detail": "get_%s(%s,%r,key=%s): impl %s model %s" % (ck, e, v, key, got, mm)})
            if any(not f["signature"].endswith("duplicate_values_first_only") for f in findings):
                break
    finally:
        namespace_manager.default = "DEFAULT"
    return findings, script


def shrink(script, sig, drv):
    res = ShardResult()

    def fails(s):
        try:
            f, _ = run_script(s, random.Random(0), drv, res, c14=sig.startswith("names."))
        except Exception:  # noqa: BLE001
            return False
        return any(x["signature"] == sig for x in f)
    cur = list(script)
    i = len(cur) - 2
    while i >= 0:
        cand = cur[:i] + cur[i + 1:]
        if fails(cand):
            cur = cand
        i -= 1
    return cur


KNOWN_CORR = {}


def handle(ops_or_len, rng, drv, res, origin, pid="C10"):
    findings, script = run_script(ops_or_len, rng or random.Random(0), drv, res, c14=(pid == "C14"))
    # a spec failure is reported by the check of the property it belongs to
    findings = [f for f in findings if f["kind"] == "corr" or f.get("prop", "C10") == pid]
    res.case(stable_hash(script), nontrivial=sum(1 for o in script if o["t"] in ("attach", "setKey")) >= 3)
    res.sample({"origin": origin, "length": len(script), "first_ops": script[:8]})
    seen = set()
    for f in findings:
        if f["signature"] in seen:
            continue
        seen.add(f["signature"])
        small = shrink(script[:f["step"] + 1], f["signature"], drv)
        if f["kind"] == "spec":
            res.spec_failure(f["signature"], {"script": small}, f["detail"])
        else:
            res.corr_mismatch("names model = implementation (%s)" % f["signature"], {"script": small}, f.get("impl"), f.get("model"),
                              signature=KNOWN_CORR.get(f["signature"]))


def shard(pid, tier, seed, idx, n_scripts, length, registered):
    res = ShardResult()
    drv = lean.Driver("drv_ir")
    try:
        if not registered:
            namespace_manager.deregister_all_listeners()
            namespace_manager.register_all_listeners()
        cdir = os.path.join(ROOT, "corpus", pid)
        if idx == 0 and os.path.isdir(cdir):
            for fn in sorted(os.listdir(cdir)):
                if fn.endswith(".json"):
                    item = json.load(open(os.path.join(cdir, fn)))
                    if item.get("engine", "irnames" if pid == "C10" else "ir") == "irnames":
                        handle(item["script"], None, drv, res, "corpus:" + fn, pid)
        for j in range(n_scripts):
            rng = random.Random(stable_hash([seed, pid, idx, j]))
            handle(rng.randint(length // 2, length), rng, drv, res, "gen", pid)
    finally:
        drv.close()
    return res


def run(ctx):
    pid = "C10"
    lean.check_obligations(ctx, "Spydr/IR", ["Spydr.IR.Props.C10", "Spydr.IR.Props.C10Tbl"], ["drv_ir"], "Spydr/IR/AuditNames.lean", META[pid]["theorems"])
    ctx.rule = ("random histories over a small alphabet of colliding names/identifiers (case variants, illegal identifiers) on 2 netlists / 3 libraries / "
                "3 definitions / ports, cables, instances: create, attach/detach, rename, identifier set/delete/pop, name deletion, .NS assignment, policy "
                "switch; after every step: outcome + element data + tables vs the Lean model, uniqueness per scope, refusal vs an independent duplicate/legality "
                "scan, and get_*(parent, exact, key) vs a list scan for every scope/class/key/value. non-trivial = >= 3 attach/rename ops")
    ctx.assumptions = ["names and identifiers are non-empty printable ASCII without glob characters", "`e.name = None` on an element without name (stores None) is not generated"]
    if ctx.replay:
        item = json.load(open(ctx.replay if os.path.isabs(ctx.replay) else os.path.join(ROOT, ctx.replay)))
        res = ShardResult()
        drv = lean.Driver("drv_ir")
        handle(item["input"]["script"], None, drv, res, "replay")
        drv.close()
        ctx.merge_shard(res)
        return
    n_scripts = ctx.scale(100, 400)
    length = ctx.scale(50, 90)
    run_shards(ctx, shard, [(pid, ctx.tier, ctx.seed, i, n_scripts, length, True) for i in range(16)])
    if ctx.tier == "thorough":
        lean.leanchecker(ctx, ["Spydr.IR.Props.C10"])
