"""Engine `names` — property C17 (EDIF export gives every object a legal, case-insensitively unique
identifier and records the original name as a rename; the written file reads back with the original
names).

Every run:
  1. Lean obligations (build, hygiene grep, #print axioms of the C17 theorems).
  2. corpus/C17/*.json first, then generated inputs, in shards (fresh interpreter + fresh driver each):
     * level "free"    : free-standing elements of one IR class in a Python list; the REAL
                         ComposeEdif._add_rename_property / EdififyNames.make_valid run over the list
                         exactly as the writer's pre-pass does.  Duplicated names, pre-existing
                         identifiers and rename flags allowed.
     * level "netlist" : a real netlist whose five namespace scopes (libraries, definitions of a
                         library, ports / cables / instances of a definition) and the two
                         sibling-less scopes (netlist, top instance) carry generated names;
                         sdn.compose(..., "x.edf") then sdn.parse.
     For every scope: (a) identifiers / rename flags / written name tokens / net identifiers (token scan
     of the written file) of the implementation == Lean model (drv_names, exact strings); (b) P evaluated on the implementation's own output by an
     independently written Python oracle AND by the Lean Spec (the two must agree);
     (c) netlist level: the file parses and shows the original names.
  3. Divergences are attributed, through the selectable pinned rules of ModelOld.lean, to the open
     findings; unattributed ones trigger a neighbourhood search for a P-failure.
"""
import glob
import json
import os
import shutil
import tempfile
import time

from common import lean
from common.ctx import ROOT, stable_hash
from common.shard import ShardResult, run_shards

PID = "C17"
MODULES = ["Spydr.Names.Model", "Spydr.Names.ModelOld", "Spydr.Names.ModelObs", "Spydr.Names.Spec",
           "Spydr.Names.Lemmas", "Spydr.Names.LemmasKey", "Spydr.Names.LemmasPass", "Spydr.Names.Props.C17",
           # bridge to the EDIF engine's model (imports Spydr.Edif.*): C17's last clause
           "Spydr.Names.LemmasBridge", "Spydr.Names.Props.C17Bridge", "Spydr.Names.LemmasBridgeNet", "Spydr.Names.Props.C17Export",
           "Spydr.Names.Props.C17ExportExample"]
THEOREMS = [
    "Spydr.Names.makeValid_legal",
    "Spydr.Names.makeValid_fresh",
    "Spydr.Names.conflictsFix_finished",
    "Spydr.Names.makeValid_fresh_bounded",
    "Spydr.Names.rename_recorded",
    "Spydr.Names.rename_written",
    "Spydr.Names.reread_name",
    "Spydr.Names.assign_all_distinct",
    "Spydr.Names.assign_all_netIdents_distinct",
    "Spydr.Names.assign_all_scopeOk",
    # formal record of the findings: the unrepaired rules violate the statements (decide-checked witnesses)
    "Spydr.Names.pinned_violates_scopeOk",
    "Spydr.Names.pinned_violates_legal_dash",
    "Spydr.Names.pinned_violates_legal_length",
    "Spydr.Names.pinned_violates_legal_suffix",
    "Spydr.Names.unrepaired_violates_netIdents",
    # bridge: pre-pass output => naming clauses of Edif.WFNet => (edif_roundtrip_text) the written text reads back with the original names
    "Spydr.Names.Bridge.checkEdifIdentifier_eq",
    "Spydr.Names.Bridge.fromPrepass_named_distinct",
    "Spydr.Names.Bridge.wfNet_of_prepass",
    "Spydr.Names.Bridge.prepass_file_readable",
    "Spydr.Names.Bridge.names_of_passNet",
    "Spydr.Names.Bridge.view03_passNet",
    "Spydr.Names.Bridge.export_readable",
    "Spydr.Names.Bridge.export_readable_outside_pinned_classes",
    "Spydr.Names.Bridge.Example3.example_export",   # non-vacuity on a netlist with 2 cells, 2 instances, a bus, scalar nets, collisions
    "Spydr.Names.Bridge.passNet_naming_clauses",
    "Spydr.Names.Bridge.bus_bit_identifier_can_be_too_long",
]

SCOPES = ["libraries", "definitions", "ports", "cables", "instances"]

# signature of the known finding each pinned rule of ModelOld.lean stands for
RULES = ["len255", "underscore", "foldCase", "room", "bitForms"]
RULE_SIG = {
    "len255": "make_valid.length-256",
    "underscore": "make_valid.dash-kept",
    "foldCase": "make_valid.case-insensitive-collision",
    "room": "make_valid.length-over-256",
    "bitForms": "compose.bus-bit-identifier-collision",
}
NR = len(RULES)

# --------------------------------------------------------------------------------------------
# independent oracle for P  (written from the statement + the reader's rule, not from the model)
# --------------------------------------------------------------------------------------------
_LOW = "abcdefghijklmnopqrstuvwxyz"
_UPP = "ABCDEFGHIJKLMNOPQRSTUVWXYZ"
_DIG = "0123456789"
_IDCH = frozenset(_LOW + _UPP + _DIG + "_")
_LET = frozenset(_LOW + _UPP)


def fold(s):
    """ASCII case folding only (EDIF identifiers are ASCII)."""
    return "".join(_LOW[_UPP.index(c)] if c in _UPP else c for c in s)


def illegal_kind(ident):
    """None when `ident` is an identifier the EDIF reader accepts, else the most specific reason."""
    if not isinstance(ident, str) or ident == "":
        return "empty"
    amp = ident[0] == "&"
    body = ident[1:] if amp else ident
    if any(ord(c) > 126 for c in ident):
        return "nonascii-kept"
    if not amp and ident[0] == "_":
        return "head-underscore"
    cap = 256 if amp else 255
    if len(ident) > 256:
        return "length-over-256"
    if len(ident) > cap:
        return "length-256"
    if amp and len(body) == 0:
        return "bare-ampersand"
    bad = [c for c in body if c not in _IDCH]
    if bad:
        if all(c == "-" for c in bad):
            return "dash-kept"
        return "illegal-char"
    if not amp and ident[0] not in _LET:
        return "head-not-letter"
    return None


def sib_bits(s):
    """wire indices of a cable the writer emits wire by wire (several wires, or an array); [] otherwise"""
    w = s.get("w", 1)
    lo = s.get("lo", 0)
    return list(range(lo, lo + w)) if (w > 1 or s.get("arr")) else []


def written_forms(ident, bits):
    """every identifier the file contains for an element: its own and `<id>_<k>_` per wire of a bus"""
    return [ident] + [ident + "_" + str(k) + "_" for k in bits]


def oracle_scope(obs):
    """obs: list of dicts name, ident, rename, assigned, bits.  Returns list of (signature, index, detail)
    for every element the writer named that violates P."""
    out = []
    for i, x in enumerate(obs):
        if not x["assigned"]:
            continue
        idt = x["ident"]
        k = illegal_kind(idt)
        if k is not None:
            out.append(("make_valid." + k, i, "identifier %r (len %d) is not a legal EDIF identifier" % (idt[:40], len(idt))))
        if not isinstance(idt, str):
            continue
        for fk, mine in enumerate(written_forms(idt, x.get("bits") or [])):
            fi = fold(mine)
            for j, y in enumerate(obs):
                if j == i:
                    continue
                theirs = [("name", y["name"], False)]
                if isinstance(y["ident"], str):
                    theirs += [("identifier", f, n > 0) for n, f in enumerate(written_forms(y["ident"], y.get("bits") or []))]
                for what, other, other_is_bit in theirs:
                    if isinstance(other, str) and fold(other) == fi:
                        if fk > 0 or other_is_bit:
                            kind = "compose.bus-bit-identifier-collision"
                        else:
                            # the pinned code compared the lower-cased candidate exactly: every collision it
                            # let through involved an upper-case letter on one side
                            kind = "make_valid." + ("case-insensitive-collision" if (other != fi or mine != fi) else "lowercase-collision")
                        out.append((kind, i, "written identifier %r of element %d equals, ignoring case, the %s %r of sibling %d" % (mine[:40], i, what, other[:40], j)))
        if idt != x["name"] and not x["rename"]:
            out.append(("add_rename_property.rename-not-recorded", i, "identifier %r != name %r but EDIF.rename is not set" % (idt[:40], x["name"][:40])))
    return out


def scan_net_identifiers(text):
    """Token scan of EDIF text (strings are single tokens, no escapes): the identifier of every
    `(net <id> ...` / `(net (rename <id> "..") ...`, in file order.  None if the text is not tokenisable."""
    toks = []
    i, n = 0, len(text)
    while i < n:
        c = text[i]
        if c in " \t\r\n":
            i += 1
        elif c in "()":
            toks.append(c)
            i += 1
        elif c == '"':
            j = text.find('"', i + 1)
            if j < 0:
                return None
            toks.append(("str", text[i + 1:j]))
            i = j + 1
        else:
            j = i
            while j < n and text[j] not in ' \t\r\n()"':
                j += 1
            toks.append(text[i:j])
            i = j
    out = []
    for k in range(len(toks) - 2):
        if toks[k] == "(" and isinstance(toks[k + 1], str) and toks[k + 1].lower() == "net":
            if toks[k + 2] == "(" and k + 4 < len(toks) and isinstance(toks[k + 3], str) and toks[k + 3].lower() == "rename":
                out.append(toks[k + 4] if isinstance(toks[k + 4], str) else None)
            else:
                out.append(toks[k + 2] if isinstance(toks[k + 2], str) else None)
    return out


def pre_distinct(obs):
    """domain condition: what is written for the elements that HAD identifiers is pairwise different"""
    seen = {}
    for i, x in enumerate(obs):
        if x["assigned"] or not isinstance(x["ident"], str):
            continue
        for f in written_forms(x["ident"], x.get("bits") or []):
            k = fold(f)
            if k in seen and seen[k] != i:
                return False
            seen[k] = i
    return True


def oracle_nets(nets):
    """'each ... net': the net identifiers of one cell are legal and pairwise different ignoring case."""
    out = []
    seen = {}
    for k, idt in enumerate(nets):
        if not isinstance(idt, str):
            out.append(("compose.net-identifier-missing", k, "net without identifier token"))
            continue
        kind = illegal_kind(idt)
        if kind is not None:
            sig = "compose_parse.bus-bit-identifier-too-long" if kind.startswith("length") else "compose.net-identifier-" + kind
            out.append((sig, k, "net identifier %r (len %d) is not a legal EDIF identifier" % (idt[:40], len(idt))))
        f = fold(idt)
        if f in seen:
            out.append(("compose.bus-bit-identifier-collision", k, "nets %d and %d of one cell are both written with identifier %r / %r" % (seen[f][0], k, seen[f][1][:40], idt[:40])))
        else:
            seen[f] = (k, idt)
    return out


# --------------------------------------------------------------------------------------------
# generators
# --------------------------------------------------------------------------------------------
LETTERS = "aAbBxXzZqQ"
DIGS = "0199"
SPECIAL = "_-[]/\\ $&.:()+*~!#%',;<=>?@^`{|}"
QUOTE = '"'
NONASCII = "\u00e9\u00c9\u00df\u03a9\u6f22\u0663\u00b2"


def _rand_name(rng, lo=1, hi=10, quote_p=0.0):
    n = rng.randint(lo, hi)
    out = []
    for _ in range(n):
        r = rng.random()
        if r < 0.5:
            out.append(rng.choice(LETTERS))
        elif r < 0.65:
            out.append(rng.choice(DIGS))
        elif r < 0.8:
            out.append(rng.choice("_-"))
        elif r < 0.8 + quote_p:
            out.append(QUOTE)
        else:
            out.append(rng.choice(SPECIAL))
    return "".join(out)


def _swapcase_some(rng, s):
    cs = list(s)
    idx = [i for i, c in enumerate(cs) if c.isalpha()]
    if not idx:
        return s + rng.choice("aA")
    for i in rng.sample(idx, rng.randint(1, min(3, len(idx)))):
        cs[i] = cs[i].swapcase()
    return "".join(cs)


def _resanitise(rng, s):
    """another name that the character fix maps to the same identifier"""
    cs = list(s)
    idx = [i for i, c in enumerate(cs) if not (c.isalnum())]
    if not idx:
        i = rng.randrange(len(cs) + 1)
        return s[:i] + rng.choice(SPECIAL) + s[i:]
    for i in rng.sample(idx, rng.randint(1, min(2, len(idx)))):
        cs[i] = rng.choice(SPECIAL)
    return "".join(cs)


def _sanitised(s):
    t = "".join(c if (c.isalnum() and ord(c) < 128) else "_" for c in s)
    if not (t[0].isalpha() and ord(t[0]) < 128):
        t = "&" + t
    return t[:255]


def _sdn(rng, base, digits=None):
    if digits is None:
        digits = rng.choice(["1", "1", "2", "3", "9", "09", "99", "007", "999", "10", str(rng.randint(0, 120))])
    return base + "_sdn_" + digits + "_"


def gen_sibs(rng, n, allow_dup, quote_p=0.0, long_p=0.07, pre_p=0.15, corner_p=0.02):
    """A sibling list: dicts name / ident (pre-existing identifier or None) / rename."""
    names = []
    long_stem = None
    for _ in range(n):
        r = rng.random()
        if names and r < 0.16:
            nm = _swapcase_some(rng, rng.choice(names))                       # case-only collision
        elif names and r < 0.28:
            nm = _resanitise(rng, rng.choice(names))                          # sanitised-to-same
        elif names and r < 0.40:
            b = rng.choice(names)
            b = rng.choice([b, b.lower(), _sanitised(b), _sanitised(b).lower()])
            nm = _sdn(rng, b[:280])                                           # pre-existing x_sdn_N_
        elif names and allow_dup and r < 0.46:
            nm = rng.choice(names)                                            # exact duplicate
        elif r < 0.46 + long_p:
            # around the length limit; truncation collisions share a stem
            if long_stem is None or rng.random() < 0.3:
                long_stem = _rand_name(rng, 1, 6, quote_p) or "a"
            L = rng.choice([253, 254, 255, 256, 257, 258, 260, 299, 300, rng.randint(240, 300)])
            filler = rng.choice("aAb_-9 ")
            nm = (long_stem + filler * 300)[:L]
            v = rng.random()
            if v < 0.35:
                nm = _sdn(rng, nm[: max(1, L - rng.randint(5, 12))])          # long with a suffix
            elif v < 0.5:
                nm = nm[:-1] + rng.choice("cC-")                              # differs after position 255
        elif r < 0.46 + long_p + corner_p:
            # huge digit runs in the suffix: the suffix may leave no room for the stem
            h = rng.choice(["a", "A", "&", "_", "9", "ab", ""])
            nd = rng.choice([240, 246, 247, 248, 249, 250, 255, 290])
            dig = rng.choice(["9" * nd, "1" + "0" * (nd - 1), "1" * nd])
            nm = (h + "_sdn_" + dig + "_")
            if len(nm) > 300:
                nm = nm[-300:]
        else:
            nm = _rand_name(rng, 1, rng.choice([1, 2, 3, 6, 10]), quote_p)
        if not nm:
            nm = "a"
        if not allow_dup and nm in names:
            continue
        names.append(nm)
    rng.shuffle(names)
    sibs = []
    used = set()
    for nm in names:
        ident = None
        ren = False
        if rng.random() < pre_p:
            # a pre-existing identifier as a reader would have left it: legal, distinct (ignoring
            # case) from the other pre-existing ones; may collide with other siblings' names
            v = rng.random()
            if v < 0.4:
                cand = _sanitised(rng.choice(names))
            elif v < 0.6:
                cand = _sdn(rng, _sanitised(rng.choice(names))[:240])
            else:
                cand = _sanitised(_rand_name(rng, 1, 6))
            if rng.random() < 0.3:
                cand = _swapcase_some(rng, cand)
            if illegal_kind(cand) is None and fold(cand) not in used:
                used.add(fold(cand))
                ident = cand
                ren = (cand != nm) or rng.random() < 0.2
        elif rng.random() < 0.05:
            ren = True
        sibs.append({"name": nm, "ident": ident, "rename": ren})
    return sibs


def shape_cables(rng, sibs, unique_names):
    """Give the cables of one scope widths / lower indices; with some probability add the class
    'cable x of width w beside a scalar cable named <identifier of x>_<k>_' and its case variants."""
    for sb in sibs:
        r = rng.random()
        if r < 0.1:
            sb["w"] = rng.randint(2, 4)
        elif r < 0.14:
            sb["w"] = 1
            sb["arr"] = True
        else:
            sb["w"] = 1
        if (sb["w"] > 1 or sb.get("arr")) and rng.random() < 0.3:
            sb["lo"] = rng.choice([1, 2, 7, 9, 10, 31])
    if sibs and rng.random() < 0.3:
        bus = rng.choice(sibs)
        if len(bus["name"]) <= 40:
            bus["w"] = max(bus.get("w", 1), rng.randint(2, 3))
            bus.pop("arr", None)
            lo = bus.get("lo", 0)
            have = set(x["name"] for x in sibs)
            for _ in range(rng.randint(1, 3)):
                k = lo + rng.randrange(bus["w"] + 1)
                stem = rng.choice([bus["name"], _sanitised(bus["name"]), _sanitised(bus["name"]).lower(), bus["ident"] or bus["name"]])
                nm = stem + "_%d_" % k
                if rng.random() < 0.4:
                    nm = _swapcase_some(rng, nm)
                if rng.random() < 0.15:
                    nm = _sdn(rng, nm, "1")
                if unique_names and nm in have:
                    continue
                have.add(nm)
                sibs.insert(rng.randrange(len(sibs) + 1), {"name": nm, "ident": None, "rename": False, "w": 1})
    return sibs


HIST_SPECIAL = "./$:+ -"


def _hist_name(rng, used):
    """a name whose identifier has capitals and needs a rename (`Stage.0` -> `Stage_0`)"""
    while True:
        body = "".join(rng.choice("abqxz") for _ in range(rng.randint(1, 4)))
        nm = body.capitalize() + rng.choice(HIST_SPECIAL) + rng.choice(["0", "1", "lo", "Hi", "In", "x"])
        if rng.random() < 0.3:
            nm = nm.upper() if rng.random() < 0.5 else _swapcase_some(rng, nm)
        idt = _sanitised(nm)
        if fold(idt) not in used and illegal_kind(idt) is None and idt != idt.lower():
            used.add(fold(idt))
            return {"name": nm, "ident": idt, "rename": idt != nm}


def _collider(rng, nm):
    """another name that sanitises to the same identifier in another case"""
    out = []
    for c in nm:
        if c.isalpha():
            out.append(c.swapcase())
        elif c in HIST_SPECIAL:
            out.append(rng.choice([x for x in HIST_SPECIAL if x != c]))
        else:
            out.append(c)
    return "".join(out)


def gen_history(rng):
    """read -> edit -> compose -> read: a netlist whose elements carry mixed-case identifiers is written
    and read back (so it lives under the EDIF naming policy), then in some scopes an element is removed
    (or given another identifier) and a sibling is added whose name sanitises to the removed identifier
    in another case; the export must succeed and give the new sibling a correct identifier."""
    inp = {"level": "history", "policy": "DEFAULT", "netlist_name": "n", "top_name": "t"}
    for sc in SCOPES:
        used = set()
        k = rng.randint(2, 4)
        inp[sc] = [_hist_name(rng, used) for _ in range(k)]
    inp["cable_w"] = [1] * len(inp["cables"])
    for sb in inp["cables"]:
        sb["w"] = 1
    inp["port_w"] = [1] * len(inp["ports"])
    edits = []
    for sc in rng.sample(SCOPES, rng.randint(1, 3)):
        lo, hi = 0, len(inp[sc])
        if sc == "libraries":
            lo = 1                       # library 0 holds the design
        if sc == "definitions":
            lo, hi = 1, len(inp[sc]) - 1  # first = leaf, last = top
        if hi <= lo:
            continue
        i = rng.randrange(lo, hi)
        op = rng.choice(["replace", "replace", "reident", "delident", "delident", "delname"])
        e = {"scope": sc, "op": op, "index": i, "add": _collider(rng, inp[sc][i]["name"])}
        if op == "reident":
            e["ident"] = "moved_" + str(rng.randint(0, 9))
        if op in ("delident", "delname"):
            # the element gets another name; its identifier (resp. name) is deleted with `del`; the new
            # sibling takes the freed identifier (a name that sanitises to it) resp. the freed name itself
            e["moved"] = "moved." + str(rng.randint(0, 9)) + rng.choice(["", "x", "Y"])
            if op == "delname":
                e["add"] = inp[sc][i]["name"]
            elif rng.random() < 0.5:
                e["add"] = inp[sc][i]["ident"]
        edits.append(e)
    inp["edits"] = edits
    return inp


def gen_transform(rng):
    """export -> transformation -> export of the SAME netlist: a shared non-leaf cell whose name has
    capitals, instantiated twice, beside sibling cells already named like the copies a transformation
    makes (`<identifier in another case>_sdn_unique_<counter + offset>`); then uniquify / flatten /
    clone-and-add; the second export must satisfy C17 in every scope."""
    body = "".join(rng.choice("abqxz") for _ in range(rng.randint(1, 4)))
    shared = body.capitalize()
    if rng.random() < 0.4:
        shared += rng.choice(HIST_SPECIAL) + rng.choice(["0", "x", "Lo"])
    if rng.random() < 0.2:
        shared = shared.upper()
    return {"level": "transform", "op": rng.choice(["uniquify", "uniquify", "flatten", "clone_add", "flatten_twice", "flatten_twice"]),
            "shared": shared, "offsets": sorted(rng.sample(range(0, 6), rng.randint(1, 4))),
            "sib_case": rng.choice(["lower", "lower", "upper", "swap"]), "n_inst": rng.randint(2, 3)}


def gen_input(rng, tier, level=None):
    if level is None:
        r0 = rng.random()
        level = "free" if r0 < 0.58 else ("netlist" if r0 < 0.91 else ("history" if r0 < 0.97 else "transform"))
    if level == "history":
        return gen_history(rng)
    if level == "transform":
        return gen_transform(rng)
    quote_p = 0.0015
    if level == "free":
        n = rng.choice([1, 2, 2, 3, 3, 4, 5, 6, 8, 12]) if rng.random() < 0.93 else rng.randint(13, 40)
        sibs = gen_sibs(rng, n, allow_dup=True, quote_p=quote_p)
        if rng.random() < 0.02:
            # outside the model's alphabet (oracle only): letters / digits that are not ASCII
            s = rng.choice(sibs)
            k = rng.randrange(len(s["name"]) + 1)
            s["name"] = s["name"][:k] + rng.choice(NONASCII) + s["name"][k:]
        scope = rng.choice(SCOPES + ["cables"])
        if scope == "cables":
            shape_cables(rng, sibs, unique_names=False)
        return {"level": "free", "scope": scope, "sibs": sibs}
    inp = {"level": "netlist", "policy": "DEFAULT"}
    for sc in SCOPES:
        n = rng.choice([1, 2, 3, 4, 6]) if sc != "libraries" else rng.choice([1, 2, 3])
        if sc == "definitions":
            n = max(n, 2)
        s = gen_sibs(rng, n, allow_dup=False, quote_p=quote_p, long_p=0.025, corner_p=0.004)
        while sc == "definitions" and len(s) < 2:
            s = gen_sibs(rng, 3, allow_dup=False, quote_p=quote_p, long_p=0.025, corner_p=0.004)
        inp[sc] = s
    inp["netlist_name"] = gen_sibs(rng, 1, False, quote_p, pre_p=0.0)[0]["name"]
    inp["top_name"] = gen_sibs(rng, 1, False, quote_p, pre_p=0.0)[0]["name"]
    if rng.random() < 0.4:
        # sub-stream outside the sub-domains of the open make_valid findings (no `-`, no upper case,
        # at most 200 characters), so that the compose/parse clause is exercised on the pinned tree too
        inp["benign"] = True

        def tame(x):
            return x.lower().replace("-", "+")[:200] if x is not None else None
        for sc in SCOPES:
            seen = set()
            out = []
            for sb in inp[sc]:
                sb = dict(sb, name=tame(sb["name"]), ident=tame(sb["ident"]))
                if sb["ident"] is not None and illegal_kind(sb["ident"]) is not None:
                    sb["ident"] = None
                if sb["name"] in seen or (sb["ident"] is not None and sb["ident"] in seen):
                    continue
                seen.add(sb["name"])
                if sb["ident"] is not None:
                    seen.add(sb["ident"])
                out.append(sb)
            inp[sc] = out
        inp["netlist_name"] = tame(inp["netlist_name"])
        inp["top_name"] = tame(inp["top_name"])
        if len(inp["definitions"]) < 2:
            inp["definitions"] = [{"name": "leaf0", "ident": None, "rename": False}, {"name": "top0", "ident": None, "rename": False}]
        if not inp["libraries"]:
            inp["libraries"] = [{"name": "work", "ident": None, "rename": False}]
    # widths of the cables / ports (1 = scalar)
    shape_cables(rng, inp["cables"], unique_names=True)
    inp["cable_w"] = [sb["w"] for sb in inp["cables"]]
    inp["port_w"] = [1 if rng.random() < 0.8 else rng.randint(2, 3) for _ in inp["ports"]]
    return inp


# --------------------------------------------------------------------------------------------
# running the implementation
# --------------------------------------------------------------------------------------------
def exc_family(e):
    if isinstance(e, AssertionError):
        return "assert"
    if isinstance(e, KeyError):
        return "key"
    if isinstance(e, IndexError):
        return "index"
    if isinstance(e, ValueError):
        return "value"
    if isinstance(e, TypeError):
        return "type"
    if isinstance(e, (RuntimeError, RecursionError, NotImplementedError)):
        return "runtime"
    return "other"


def _cls(scope):
    import spydrnet as sdn
    return {"libraries": sdn.Library, "definitions": sdn.Definition, "ports": sdn.Port,
            "cables": sdn.Cable, "instances": sdn.Instance}[scope]


def _set_policy(p="DEFAULT"):
    from spydrnet.plugins import namespace_manager
    namespace_manager.default = p


def _observe(objs, pre):
    from spydrnet.composers.edif.composer import ComposeEdif
    comp = ComposeEdif()
    out = []
    for o, s in zip(objs, pre):
        try:
            rn, text = comp._get_name_string_(o)      # what the writer puts into the file for this object
            tok = [bool(rn), text]
        except Exception as e:
            tok = ["raised", exc_family(e)]
        wires = getattr(o, "wires", None)
        bits = []
        if wires is not None and (len(wires) > 1 or o.is_array):
            bits = [o.lower_index + k for k in range(len(wires))]
        out.append({"name": s["name"], "ident": o.data.get("EDIF.identifier"),
                    "rename": bool(o.data.get("EDIF.rename", False)), "assigned": s.get("ident") is None,
                    "token": tok, "bits": bits})
    return out


def shape_cable(c, s):
    """give a Cable the width / lower index / array-ness the input asks for"""
    w = s.get("w", 1)
    c.create_wires(w)
    if s.get("arr") and w == 1:
        c.is_array = True
    if s.get("lo", 0) and (w > 1 or s.get("arr")):
        c.lower_index = s["lo"]


def nets_of_free_cables(objs):
    """what `_output_name_of_cable_wire_` writes for free-standing cables, token-scanned"""
    import io
    from spydrnet.composers.edif.composer import ComposeEdif
    comp = ComposeEdif()
    comp._output_ = io.StringIO()
    for c in objs:
        for w in c.wires:
            comp._output_.write("(net ")
            comp._output_name_of_cable_wire_(c, w)
            comp._output_.write(")\n")
    return scan_net_identifiers(comp._output_.getvalue())


def oracle_tokens(obs):
    """'records the original name as a rename': what the writer emits for each element it named."""
    out = []
    for i, x in enumerate(obs):
        if not x["assigned"] or not isinstance(x["ident"], str):
            continue
        tok = x.get("token")
        if tok is None:
            continue
        if x["ident"] != x["name"] or x["rename"]:
            want = [True, "rename " + x["ident"] + ' "' + x["name"] + '"']
        else:
            want = [False, x["ident"]]
        if tok != want:
            out.append(("get_name_string.original-name-not-written", i, "writer emits %r, expected %r" % (tok, want)))
    return out


def impl_free(inp):
    """The writer's pre-pass over one sibling list of free-standing elements (real code)."""
    from spydrnet.composers.edif.composer import ComposeEdif
    from spydrnet.composers.edif.edifify_names import EdififyNames
    _set_policy("DEFAULT")
    cls = _cls(inp["scope"])
    objs = []
    for s in inp["sibs"]:
        o = cls()
        o.name = s["name"]
        if s.get("ident") is not None:
            o["EDIF.identifier"] = s["ident"]
        if s.get("rename"):
            o["EDIF.rename"] = True
        if inp["scope"] == "cables":
            shape_cable(o, s)
        objs.append(o)
    comp = ComposeEdif()
    names = EdififyNames()
    k = len(objs) // 2
    try:
        direct = EdififyNames().make_valid(objs[k], objs)     # the public entry point, nothing stored
    except Exception as e:
        direct = {"raised": exc_family(e)}
    try:
        for o in objs:
            comp._add_rename_property(o, objs, names)
    except Exception as e:  # the model never refuses
        return {"raised": exc_family(e), "msg": repr(e)[:200]}
    r = {"obs": _observe(objs, inp["sibs"]), "direct": [k, direct]}
    if inp["scope"] == "cables" and not any(QUOTE in s["name"] for s in inp["sibs"]):
        try:
            r["nets"] = nets_of_free_cables(objs)
        except Exception as e:
            r["nets"] = {"raised": exc_family(e)}
    return r


def build_netlist(inp):
    import spydrnet as sdn
    _set_policy(inp.get("policy", "DEFAULT"))
    pre = {}

    def mark(o, s):
        pre[id(o)] = s
        if s.get("ident") is not None:
            o["EDIF.identifier"] = s["ident"]
        if s.get("rename"):
            o["EDIF.rename"] = True
        return o
    nl = sdn.Netlist()
    nl.name = inp["netlist_name"]
    libs = [mark(nl.create_library(name=s["name"]), s) for s in inp["libraries"]]
    home = libs[0]
    dsibs = inp["definitions"]
    defs = [mark(home.create_definition(name=s["name"]), s) for s in dsibs]
    leaf, top = defs[0], defs[-1]
    lp = leaf.create_port(name="i0")
    lp.direction = sdn.IN
    lp.create_pins(1)
    for d in defs[1:-1]:
        q = d.create_port(name="o")
        q.direction = sdn.OUT
        q.create_pins(1)
    ports = []
    for s, w in zip(inp["ports"], inp["port_w"]):
        p = mark(top.create_port(name=s["name"]), s)
        p.direction = sdn.IN
        p.create_pins(w)
        ports.append(p)
    cables = []
    for s, w in zip(inp["cables"], inp["cable_w"]):
        if "w" not in s:
            s["w"] = w          # older corpus inputs carry the widths in cable_w only
        c = mark(top.create_cable(name=s["name"]), s)
        shape_cable(c, s)
        cables.append(c)
    insts = [mark(top.create_child(name=s["name"], reference=leaf), s) for s in inp["instances"]]
    # a few connections so that nets are not all empty
    free = [q for p in ports for q in p.pins] + [q for i in insts for q in i.pins]
    wires = [w for c in cables for w in c.wires]
    for k, q in enumerate(free):
        if wires:
            wires[k % len(wires)].connect_pin(q)
    nl.top_instance = sdn.Instance()
    nl.top_instance.name = inp["top_name"]
    nl.top_instance.reference = top
    return nl, home, top, pre


class BuildRefused(Exception):
    pass


def impl_netlist(inp, tmpdir):
    """Build the netlist, sdn.compose to EDIF, observe every scope, parse back."""
    import spydrnet as sdn
    try:
        nl, home, top, pre = build_netlist(inp)
    except Exception as e:
        raise BuildRefused(exc_family(e))
    path = os.path.join(tmpdir, "n.edf")
    try:
        sdn.compose(nl, path)
    except Exception as e:
        return {"raised": exc_family(e), "msg": repr(e)[:200], "stage": "compose"}
    scopes = {}
    for sc, lst in (("libraries", list(nl.libraries)), ("definitions", list(home.definitions)),
                    ("ports", list(top.ports)), ("cables", list(top.cables)), ("instances", list(top.children))):
        ps = [pre[id(o)] for o in lst]
        scopes[sc] = {"pre": ps, "obs": _observe(lst, ps)}
    for sc, o, nm in (("netlist", nl, inp["netlist_name"]), ("top_instance", nl.top_instance, inp["top_name"])):
        ps = [{"name": nm, "ident": None, "rename": False}]
        scopes[sc] = {"pre": ps, "obs": _observe([o], ps)}
    widths = {"cables": [len(c.wires) for c in top.cables], "ports": [len(p.pins) for p in top.ports]}
    nets = None
    if not any(QUOTE in o["name"] for v in scopes.values() for o in v["obs"]):
        with open(path) as f:
            nets = scan_net_identifiers(f.read())     # only the top definition has cables
    return {"scopes": scopes, "path": path, "widths": widths, "nets": nets, "home_index": list(nl.libraries).index(home),
            "top_index": list(home.definitions).index(top)}


def reparse_guarded(res, risky, timeout=8.0):
    """`reparse`, in a forked child with a wall-clock limit when `risky` (the reader's string-token
    regular expression backtracks exponentially after a `%`; `re` cannot be interrupted in-process)."""
    if not risky:
        return reparse(res)
    import select
    r, w = os.pipe()
    pid = os.fork()
    if pid == 0:
        try:
            os.close(r)
            out = json.dumps(reparse(res)).encode()
            os.write(w, out)
        except BaseException as e:  # noqa
            try:
                os.write(w, json.dumps({"raised": "other", "msg": "child: " + repr(e)[:150]}).encode())
            except Exception:
                pass
        finally:
            os._exit(0)
    os.close(w)
    buf = b""
    from common.proc import really_hung
    t0 = time.time()
    t_end = t0 + timeout
    try:
        while True:
            left = t_end - time.time()
            if left <= 0:
                # a loaded machine is not a hang: give up only when the child has really used its CPU budget
                if not really_hung(pid, 0.8 * timeout, time.time() - t0, 15 * timeout):
                    t_end = time.time() + timeout / 2.0
                    continue
                os.kill(pid, 9)
                return {"hang": True, "msg": "sdn.parse of the written file did not return within %.0f s" % timeout}
            rd, _, _ = select.select([r], [], [], left)
            if rd:
                chunk = os.read(r, 1 << 16)
                if not chunk:
                    break
                buf += chunk
    finally:
        os.close(r)
        try:
            os.waitpid(pid, 0)
        except Exception:
            pass
    try:
        return json.loads(buf.decode())
    except Exception:
        return {"raised": "other", "msg": "child returned nothing"}


def reparse(res):
    """Parse the written file; names per scope as the re-read netlist shows them."""
    import spydrnet as sdn
    try:
        n2 = sdn.parse(res["path"])
    except Exception as e:
        return {"raised": exc_family(e), "msg": repr(e)[:200]}
    finally:
        _set_policy("DEFAULT")   # the reader leaves its policy behind on failure (C15's business)
    try:
        libs = list(n2.libraries)
        home = libs[res["home_index"]]
        top = n2.top_instance.reference
        return {"names": {
            "netlist": [n2.name],
            "top_instance": [n2.top_instance.name],
            "libraries": [l.name for l in libs],
            "definitions": [d.name for d in home.definitions],
            "ports": [p.name for p in top.ports],
            "cables": [c.name for c in top.cables],
            "instances": [i.name for i in top.children]}}
    except Exception as e:
        return {"raised": exc_family(e), "msg": "re-read netlist has an unexpected shape: " + repr(e)[:150]}


# --------------------------------------------------------------------------------------------
# one input: correspondence + P
# --------------------------------------------------------------------------------------------
import re as _re
_BRACKET = _re.compile(r"\[[0-9]+\]$")


def classify_cable_names(cab_obs, cab_w, got):
    """The re-read cable names differ from the written ones.  Known reader conventions that rename
    cables (each a pinned finding with its own sub-domain); anything else is a new failure."""
    if any((w > 1 or o.get("bits")) and o["name"].startswith("\\") for o, w in zip(cab_obs, cab_w)):
        # the reader treats a name starting with a backslash as an escaped Verilog identifier and does
        # not split the `[index]` off: the bits of such a bus come back as separate scalar cables
        return "compose_parse.backslash-bus-cable"
    if any((w > 1 or o.get("bits")) and o["ident"] != o["name"] for o, w in zip(cab_obs, cab_w)):
        return "compose_parse.renamed-bus-cable"             # fixed by 4c30cd0: must not come back
    if any(w == 1 and _BRACKET.search(o["name"]) for o, w in zip(cab_obs, cab_w)):
        return "compose_parse.cable-name-bracket-index"      # scalar net `x[3]` re-read as bit 3 of `x`
    return "compose_parse.names-differ.cables"


class Runner:
    def __init__(self, res, drv, tmpdir):
        self.res = res
        self.drv = drv
        self.tmpdir = tmpdir
        self.seen = {}
        self._export_frag = None      # per-netlist collection of the export_readable hypotheses, scope by scope
        from common import findings
        self.open_sigs = {k["signature"] for k in findings.load() if k.get("property") == PID and k.get("status") == "open"}

    def pick(self, explaining):
        """several smallest rule sets may reproduce the implementation (e.g. an exact comparison and a
        comparison blind to per-wire forms agree on `Q_1_` beside bus `Q`): prefer one whose findings are all open"""
        if not explaining:
            return None
        for ex in explaining:
            if all(RULE_SIG[r] in self.open_sigs for r in ex):
                return ex
        return explaining[0]

    # -- model side ---------------------------------------------------------------------------
    @staticmethod
    def msibs(pre, scope):
        return [{"name": s["name"], "ident": s.get("ident"), "rename": bool(s.get("rename")),
                 "bits": sib_bits(s) if scope == "cables" else []} for s in pre]

    def model_prepass(self, pre, rules=None, scope=None):
        req = {"fn": "prepass", "sibs": self.msibs(pre, scope), "cables": scope == "cables"}
        if rules is not None:
            req["rules"] = rules
        return self.drv.ask(req)

    def attribute(self, pre, impl_out, scope=None, nets=None):
        """Which pinned rules (fewest first) make ModelOld reproduce the implementation?"""
        combos = sorted(range(1, 1 << NR), key=lambda m: bin(m).count("1"))
        found = []
        for m in combos:
            if found and bin(m).count("1") > len(found[0]):
                break
            rules = [not bool(m >> i & 1) for i in range(NR)]
            r = self.drv.ask({"fn": "prepass", "rules": rules, "sibs": self.msibs(pre, scope)})
            if "error" in r:
                continue
            if [(o["ident"], o["rename"], o.get("token")) for o in r["out"]] == impl_out and (nets is None or r.get("nets") == nets):
                found.append([RULES[i] for i in range(NR) if m >> i & 1])
        return self.pick(found)

    @staticmethod
    def _ascii(pre):
        return all(32 <= ord(c) < 127 for s in pre for c in s["name"] + (s.get("ident") or ""))

    def check_scope(self, inp, scope, pre, obs, report=True, nets=None):
        """Returns the set of P-failure signatures ("corr" marks a divergence from the model).
        `nets`: the net identifiers token-scanned from what the writer emitted for this (cable) scope."""
        sigs = set()
        ascii_only = all(ord(c) < 127 and ord(c) >= 32 for s in pre for c in s["name"] + (s.get("ident") or ""))
        # (a) correspondence
        if ascii_only:
            m = self.model_prepass(pre, scope=scope)
            if "error" in m:
                self.res["obligations"].append(("driver answered request", False, m["error"][:200]))
                return sigs
            if report:
                # reach of the headline theorems (reporting only; no verdict depends on it): the driver
                # evaluates each theorem's decidable hypotheses on this very scope
                for thm, r in sorted((m.get("fragments") or {}).items()):
                    if thm == "export_readable":
                        if self._export_frag is not None:
                            self._export_frag.append((scope, r))
                        continue
                    self.res.dist("theorem_fragment:%s:%s" % (thm, "in" if r == "in" else "out:" + r))
            if not m.get("repEq", True):
                self.res["obligations"].append(("ModelOld with repaired rules == Model", False, json.dumps(pre)[:300]))
            if not m.get("finished", True):
                self.res["obligations"].append(("conflict-fix recursion finished within the proved fuel", False, json.dumps(pre)[:300]))
            if not m.get("scopeOk", True):
                self.res["obligations"].append(("Spec.scopeOk holds on the model's own output (theorem assign_all_scopeOk)", False, json.dumps(pre)[:300]))
            impl_out = [(o["ident"], o["rename"], o.get("token")) for o in obs]
            model_out = [(o["ident"], o["rename"], o.get("token")) for o in m["out"]]
            if not m.get("netsDistinct", True):
                self.res["obligations"].append(("net identifiers of the model's own output are distinct (theorem assign_all_netIdents_distinct)", False, json.dumps(pre)[:300]))
            nets_cmp = nets if (isinstance(nets, list) and scope == "cables") else None
            if impl_out != model_out or (nets_cmp is not None and nets_cmp != m.get("nets")):
                why = self.attribute(pre, impl_out, scope, nets_cmp)
                if report:
                    small = {"level": "free", "scope": scope if scope in SCOPES else "instances", "sibs": pre}
                    if why is None:
                        self.res.corr_mismatch("make_valid/pre-pass + emitted net identifiers == Spydr.Names.assignAll/emittedNetIdents (%s)" % scope, small,
                                               impl=[impl_out[:6], (nets_cmp or [])[:8]], model=[model_out[:6], (m.get("nets") or [])[:8]])
                        self.res.dist("corr.unattributed")
                    else:
                        for rule in why:
                            self.res.corr_mismatch("make_valid/pre-pass == Spydr.Names.assignAll (%s)" % scope, small,
                                                   impl=impl_out[:6], model=model_out[:6], signature=RULE_SIG[rule])
                            self.res.dist("corr.attributed." + rule)
                sigs.add("corr")
            else:
                self.res.dist("corr.equal")
        # (b) P on the implementation's output
        fails = oracle_scope(obs)
        if ascii_only:
            sp = self.drv.ask({"fn": "spec", "obs": [{"name": o["name"], "ident": o["ident"] or "", "rename": o["rename"], "assigned": o["assigned"],
                                                       "bits": o.get("bits") or []} for o in obs]})
            lean_bad = sorted(i for i, ok in enumerate(sp.get("elem", [])) if not ok)
            py_bad = sorted(set(i for (_, i, _) in fails))
            if "error" in sp or lean_bad != py_bad:
                self.res["obligations"].append(("python oracle for P == Lean Spec.scopeOk", False,
                                                "lean %r python %r on %s" % (lean_bad, py_bad, json.dumps(obs)[:300])))
        # the reader's own rule (anchor: edif_namespace.py:26-38) must agree with the oracle / Lean Spec
        try:
            from spydrnet.plugins.namespace_manager.edif_namespace import EdifNamespace
            for o in obs:
                idt = o["ident"]
                if o["assigned"] and isinstance(idt, str) and idt and all(32 <= ord(c) < 127 for c in idt):
                    if bool(EdifNamespace._check_EDIF_identifier(idt)) != (illegal_kind(idt) is None):
                        self.res.corr_mismatch("EdifNamespace._check_EDIF_identifier == Spec.checkEdifIdentifier",
                                               {"level": "free", "scope": scope if scope in SCOPES else "instances", "sibs": pre},
                                               impl=bool(EdifNamespace._check_EDIF_identifier(idt)), model=illegal_kind(idt) is None)
        except ImportError:
            pass
        fails = fails + oracle_tokens(obs)
        if isinstance(nets, list) and not pre_distinct(obs):
            self.res.dist("nets.not-judged (pre-existing identifiers collide: outside the domain)")
        elif isinstance(nets, list):
            fails = fails + oracle_nets(nets)
        elif isinstance(nets, dict):
            fails = fails + [("compose.net-identifier-raised-" + nets.get("raised", "other"), 0, "writing the net names raised")]
        for sig, i, detail in fails:
            sigs.add(sig)
        self._last_fails = fails
        return sigs

    def run_free(self, inp, report=True):
        r = impl_free(inp)
        if "raised" in r:
            if report:
                self.res.spec_failure("add_rename_property.raised-" + r["raised"], inp, r["msg"])
            return {"add_rename_property.raised-" + r["raised"]}
        sigs = self.check_scope(inp, inp["scope"], inp["sibs"], r["obs"], report, nets=r.get("nets"))
        if report and "corr" not in sigs and "direct" in r and self._ascii(inp["sibs"]):
            # direct make_valid call == Spydr.Names.makeValid (only when the scope itself corresponds:
            # a divergence there is already reported and attributed)
            k, got = r["direct"]
            sib = inp["sibs"]
            isc = inp["scope"] == "cables"
            mv_others = [{"name": x["name"], "ident": x.get("ident"), "rename": False, "bits": sib_bits(x) if isc else []} for j, x in enumerate(sib) if j != k]
            mv_bits = sib_bits(sib[k]) if isc else []
            m = self.drv.ask({"fn": "makeValid", "name": sib[k]["name"], "bits": mv_bits, "others": mv_others})
            if m.get("id") != got:
                found = []
                for mask in sorted(range(1, 1 << NR), key=lambda q: bin(q).count("1")):
                    if found and bin(mask).count("1") > len(found[0]):
                        break
                    rules = [not bool(mask >> i & 1) for i in range(NR)]
                    mo = self.drv.ask({"fn": "makeValid", "rules": rules, "name": sib[k]["name"], "bits": mv_bits, "others": mv_others})
                    if mo.get("id") == got:
                        found.append([RULES[i] for i in range(NR) if mask >> i & 1])
                why = self.pick(found)
                if why is None:
                    self.res.corr_mismatch("EdififyNames.make_valid == Spydr.Names.makeValid", inp, impl=got if not isinstance(got, str) else got[:60], model=str(m.get("id"))[:60])
                    self.res.dist("corr.direct.unattributed")
                else:
                    for rule in why:
                        self.res.corr_mismatch("EdififyNames.make_valid == Spydr.Names.makeValid", inp, impl=got[:60], model=str(m.get("id"))[:60], signature=RULE_SIG[rule])
            else:
                self.res.dist("corr.direct.equal")
        if report:
            for sig in sorted(s for s in sigs if s != "corr"):
                self.res.dist("P.fail." + sig)
                if not self.first(sig):
                    continue
                small = self.shrink_free(inp, sig)
                sr = impl_free(small)
                so = sr.get("obs", [])
                d = [f for f in oracle_scope(so) + oracle_tokens(so) + (oracle_nets(sr["nets"]) if isinstance(sr.get("nets"), list) else []) if f[0] == sig]
                self.res.spec_failure(sig, small, d[0][2] if d else "")
        return sigs

    def first(self, sig, cap=2):
        """shrink + report only the first `cap` occurrences of a signature per shard (the rest is counted)"""
        n = self.seen.get(sig, 0)
        self.seen[sig] = n + 1
        return n < cap

    def sigs_free(self, inp):
        r = impl_free(inp)
        if "raised" in r:
            return {"add_rename_property.raised-" + r["raised"]}
        fl = oracle_scope(r["obs"]) + oracle_tokens(r["obs"])
        if isinstance(r.get("nets"), list) and pre_distinct(r["obs"]):
            fl = fl + oracle_nets(r["nets"])
        return set(f[0] for f in fl)

    def shrink_free(self, inp, sig, budget=400):
        """Greedy: drop siblings, then shorten / simplify names, keeping `sig` failing."""
        cur = json.loads(json.dumps(inp))
        steps = 0

        def still(c):
            nonlocal steps
            steps += 1
            try:
                return sig in self.sigs_free(c)
            except Exception:
                return False
        changed = True
        while changed and steps < budget:
            changed = False
            i = 0
            while i < len(cur["sibs"]) and steps < budget:
                c = dict(cur, sibs=cur["sibs"][:i] + cur["sibs"][i + 1:])
                if c["sibs"] and still(c):
                    cur = c
                    changed = True
                else:
                    i += 1
            for i in range(len(cur["sibs"])):
                s = cur["sibs"][i]
                if s.get("rename") and steps < budget:
                    c = dict(cur, sibs=cur["sibs"][:i] + [dict(s, rename=False)] + cur["sibs"][i + 1:])
                    if still(c):
                        cur = c
                        changed = True
                for key in ("name", "ident"):
                    v = cur["sibs"][i].get(key)
                    if not v:
                        continue
                    # halve runs, then drop single characters (short strings only)
                    cands = []
                    if len(v) > 8:
                        m = _re.search(r"(.)\1{7,}", v)
                        if m:
                            run = m.group(0)
                            cands.append(v[:m.start()] + run[: len(run) // 2] + v[m.end():])
                            cands.append(v[:m.start()] + run[:-1] + v[m.end():])
                    if len(v) <= 24:
                        cands += [v[:k] + v[k + 1:] for k in range(len(v))]
                    for nv in cands:
                        if not nv or steps >= budget:
                            continue
                        s2 = dict(cur["sibs"][i])
                        s2[key] = nv
                        c = dict(cur, sibs=cur["sibs"][:i] + [s2] + cur["sibs"][i + 1:])
                        if still(c):
                            cur = c
                            changed = True
                            break
        return cur

    def _export_begin(self, report):
        """start collecting for one netlist; returns the collection of an enclosing run (shrinking re-enters)"""
        prev = self._export_frag
        self._export_frag = [] if report else None
        return prev

    def _export_end(self, prev):
        """one key per netlist: inside NameHyp + AvoidsPinnedClasses in every scope, or the first failing hypothesis"""
        fr, self._export_frag = self._export_frag, prev
        if not fr:
            return
        bad = [(sc, r) for sc, r in fr if r != "in"]
        self.res.dist("theorem_fragment:export_readable:" + ("in" if not bad else "out:" + bad[0][1]))

    def run_netlist(self, inp, report=True):
        prev = self._export_begin(report)
        try:
            return self._run_netlist(inp, report)
        finally:
            self._export_end(prev)

    def _run_netlist(self, inp, report=True):
        sigs = set()
        d = tempfile.mkdtemp(dir=self.tmpdir)
        try:
            try:
                r = impl_netlist(inp, d)
            except BuildRefused as e:
                # the generator asked for something the IR refuses (never seen so far): not a case
                self.res.dist("netlist.build-refused." + str(e))
                return sigs
            if "raised" in r:
                sig = "compose.raised-" + r["raised"]
                if report:
                    self.res.spec_failure(sig, inp, r["msg"])
                return {sig}
            p_fail = False
            for sc, v in r["scopes"].items():
                s = self.check_scope(inp, sc, v["pre"], v["obs"], report, nets=r.get("nets") if sc == "cables" else None)
                for sig in sorted(x for x in s if x != "corr"):
                    p_fail = True
                    if report:
                        self.res.dist("P.fail." + sig)
                    if report and self.first(sig):
                        small = {"level": "free", "scope": sc if sc in SCOPES else "instances", "sibs": v["pre"]}
                        if sig in self.sigs_free(small):
                            small = self.shrink_free(small, sig)
                        else:
                            small = inp
                        f = [x for x in self._last_fails if x[0] == sig]
                        self.res.spec_failure(sig, small, "scope %s: %s" % (sc, f[0][2] if f else ""))
                sigs |= s
            if p_fail:
                self.res.dist("netlist.reparse-skipped (identifiers already violate P)")
                return sigs
            # (c) the "hence": the file reads back and shows the original names
            allnames = [s["name"] for sc in SCOPES for s in inp[sc]] + [inp["netlist_name"], inp["top_name"]]
            rr = reparse_guarded(r, any("%" in n for n in allnames))
            sig = None
            detail = ""
            cab_obs = r["scopes"]["cables"]["obs"]
            cab_w = r["widths"]["cables"]
            if "hang" in rr:
                sig = "compose_parse.percent-in-name-reader-hangs"
                detail = rr["msg"]
            elif "raised" in rr:
                if any(QUOTE in n for n in allnames):
                    sig = "compose_parse.quote-in-name"
                elif any(w > 1 and len(o["ident"]) + len("_%d_" % (w - 1)) > 255 for w, o in zip(cab_w, cab_obs)):
                    sig = "compose_parse.bus-bit-identifier-too-long"
                elif rr["raised"] == "index" and any(o["name"].endswith("[") for o in cab_obs):
                    sig = "compose_parse.cable-name-ends-with-open-bracket"
                elif any((w > 1 or o.get("bits")) and o["name"].startswith("\\") for o, w in zip(cab_obs, cab_w)):
                    sig = "compose_parse.backslash-bus-cable"
                elif any((w > 1 or o.get("bits")) and o["ident"] != o["name"] for o, w in zip(cab_obs, cab_w)):
                    sig = "compose_parse.renamed-bus-cable"
                else:
                    sig = "compose_parse.reader-rejects-written-file"
                detail = rr["msg"]
            else:
                for sc in ["netlist", "top_instance"] + SCOPES:
                    want = sorted(o["name"] for o in r["scopes"][sc]["obs"])
                    got = sorted(x if isinstance(x, str) else repr(x) for x in rr["names"][sc])
                    if want != got:
                        if any(QUOTE in n for n in allnames):
                            sig = "compose_parse.quote-in-name"
                        elif sc == "cables":
                            sig = classify_cable_names(cab_obs, cab_w, got)
                        else:
                            sig = "compose_parse.names-differ." + sc
                        detail = "scope %s: written %r re-read %r" % (sc, [w[:30] for w in want][:6], [g[:30] for g in got][:6])
                        break
            if sig:
                sigs.add(sig)
                if report:
                    self.res.dist("P.fail." + sig)
                if report and self.first(sig):
                    small = inp if "hang" in rr else self.shrink_netlist(inp, sig)
                    self.res.spec_failure(sig, small, detail)
            else:
                self.res.dist("netlist.reparse-ok")
            return sigs
        finally:
            shutil.rmtree(d, ignore_errors=True)

    def shrink_netlist(self, inp, sig, budget=60):
        cur = json.loads(json.dumps(inp))
        steps = 0

        def still(c):
            nonlocal steps
            steps += 1
            try:
                return sig in self.run_netlist(c, report=False)
            except Exception:
                return False
        for sc in SCOPES:
            i = 0
            lo = 2 if sc == "definitions" else (1 if sc == "libraries" else 0)
            while i < len(cur[sc]) and steps < budget:
                if len(cur[sc]) <= lo:
                    break
                c = json.loads(json.dumps(cur))
                del c[sc][i]
                if sc == "cables":
                    del c["cable_w"][i]
                if sc == "ports":
                    del c["port_w"][i]
                if still(c):
                    cur = c
                else:
                    i += 1
        for key in ("netlist_name", "top_name"):
            if steps < budget and cur[key] != "n":
                c = dict(cur)
                c[key] = "n"
                if still(c):
                    cur = c
        return cur

    def run_history(self, inp, report=True):
        prev = self._export_begin(report)
        try:
            return self._run_history(inp, report)
        finally:
            self._export_end(prev)

    def _run_history(self, inp, report=True):
        """read -> edit -> compose -> read on a reader-produced netlist (EDIF naming policy).  A compose
        that raises is a failure of the property ("export always yields a re-readable file")."""
        import spydrnet as sdn
        sigs = set()
        d = tempfile.mkdtemp(dir=self.tmpdir)
        try:
            try:
                nl, home, top, pre = build_netlist(inp)
                f1 = os.path.join(d, "a.edf")
                sdn.compose(nl, f1)
                n2 = sdn.parse(f1)
            except Exception as e:
                # the first export of well-formed mixed-case identifiers is the netlist-level stream's business
                self.res.dist("history.setup-failed." + exc_family(e))
                return sigs
            finally:
                _set_policy("DEFAULT")
            top2 = n2.top_instance.reference
            home2 = top2.library
            leaf2 = [x for x in home2.definitions if x is not top2][0]

            def lst(sc):
                return {"libraries": n2.libraries, "definitions": home2.definitions, "ports": top2.ports,
                        "cables": top2.cables, "instances": top2.children}[sc]

            def by_name(sc, nm):
                for x in lst(sc):
                    if x.name == nm:
                        return x
                return None
            try:
                for e in inp["edits"]:
                    sc = e["scope"]
                    old = by_name(sc, inp[sc][e["index"]]["name"])
                    if old is None:
                        continue
                    if e["op"] == "replace":
                        if sc == "instances":
                            for pin in list(old.pins.values()) if isinstance(old.pins, dict) else list(old.pins):
                                if pin.wire is not None:
                                    pin.wire.disconnect_pin(pin)
                            top2.remove_child(old)
                        elif sc == "cables":
                            for w in old.wires:
                                w.disconnect_pins_from(list(w.pins))
                            top2.remove_cable(old)
                        elif sc == "ports":
                            for pin in old.pins:
                                if pin.wire is not None:
                                    pin.wire.disconnect_pin(pin)
                            top2.remove_port(old)
                        elif sc == "definitions":
                            home2.remove_definition(old)
                        else:
                            n2.remove_library(old)
                    elif e["op"] == "reident":
                        old["EDIF.identifier"] = e["ident"]
                    elif e["op"] == "delident":
                        old.name = e["moved"]
                        del old["EDIF.identifier"]
                    else:
                        del old[".NAME"]
                        old.name = e["moved"]
                    if sc == "instances":
                        top2.create_child(name=e["add"], reference=leaf2)
                    elif sc == "cables":
                        top2.create_cable(name=e["add"]).create_wire()
                    elif sc == "ports":
                        q = top2.create_port(name=e["add"])
                        q.direction = sdn.IN
                        q.create_pin()
                    elif sc == "definitions":
                        home2.create_definition(name=e["add"])
                    else:
                        n2.create_library(name=e["add"])
            except Exception as e:
                # an edit the IR / the EDIF namespace refuses is C10/C14's business, not an export
                self.res.dist("history.edit-refused." + exc_family(e))
                return sigs
            # state before the export, per scope
            before = {}
            for sc in SCOPES:
                before[sc] = [(x, {"name": x.name, "ident": x.data.get("EDIF.identifier"), "rename": bool(x.data.get("EDIF.rename", False)), "w": 1})
                              for x in lst(sc)]
            f2 = os.path.join(d, "b.edf")
            try:
                sdn.compose(n2, f2)
            except Exception as e:
                sig = "history.compose-raised-" + exc_family(e)
                if report:
                    self.res.dist("P.fail." + sig)
                    if self.first(sig):
                        self.res.spec_failure(sig, self.shrink_history(inp, sig), "export after read/remove/add raised " + repr(e)[:160])
                return {sig}
            finally:
                _set_policy("DEFAULT")
            with open(f2) as fh:
                nets = scan_net_identifiers(fh.read())
            p_fail = False
            for sc in SCOPES:
                objs = list(lst(sc))                      # post-compose order
                state = {id(x): st for x, st in before[sc]}
                ps = [state[id(x)] for x in objs]
                s = self.check_scope(inp, sc, ps, _observe(objs, ps), report, nets=nets if sc == "cables" else None)
                for sig in sorted(x for x in s if x != "corr"):
                    p_fail = True
                    if report:
                        self.res.dist("P.fail." + sig)
                        if self.first(sig):
                            f = [x for x in self._last_fails if x[0] == sig]
                            self.res.spec_failure(sig, inp, "history, scope %s: %s" % (sc, f[0][2] if f else ""))
                sigs |= s
            if p_fail:
                return sigs
            try:
                n3 = sdn.parse(f2)
                t3 = n3.top_instance.reference
                got = {"libraries": [x.name for x in n3.libraries], "definitions": [x.name for x in t3.library.definitions],
                       "ports": [x.name for x in t3.ports], "cables": [x.name for x in t3.cables], "instances": [x.name for x in t3.children]}
                for sc in SCOPES:
                    want = sorted(st["name"] for _, st in before[sc])
                    if want != sorted(got[sc]):
                        sig = "history.reparse-names-differ." + sc
                        sigs.add(sig)
                        if report and self.first(sig):
                            self.res.spec_failure(sig, inp, "written %r re-read %r" % (want[:6], sorted(got[sc])[:6]))
                        break
                else:
                    self.res.dist("history.ok")
            except Exception as e:
                sig = "history.reparse-raised-" + exc_family(e)
                sigs.add(sig)
                if report and self.first(sig):
                    self.res.spec_failure(sig, inp, repr(e)[:200])
            finally:
                _set_policy("DEFAULT")
            return sigs
        finally:
            shutil.rmtree(d, ignore_errors=True)

    def shrink_history(self, inp, sig):
        cur = json.loads(json.dumps(inp))
        # one edit at a time, then fewer bystanders
        for e in list(cur["edits"]):
            c = dict(cur, edits=[e])
            try:
                if sig in self.run_history(c, report=False):
                    cur = c
                    break
            except Exception:
                pass
        return cur

    def run_transform(self, inp, report=True):
        """export -> uniquify / flatten / clone-and-add -> export of the same netlist; the full oracle (legal,
        case-insensitively unique per scope, rename written, file reads back with the names) on the second export."""
        import spydrnet as sdn
        import spydrnet.uniquify as uq
        from spydrnet.flatten import flatten
        _set_policy("DEFAULT")
        op = inp["op"]
        sigs = set()
        d = tempfile.mkdtemp(dir=self.tmpdir)

        def fail(sig, detail):
            sigs.add(sig)
            if report:
                self.res.dist("P.fail." + sig)
                if self.first(sig):
                    self.res.spec_failure(sig, inp, detail)
        try:
            ident = _sanitised(inp["shared"])
            stem = {"lower": ident.lower(), "upper": ident.upper(), "swap": ident.swapcase()}[inp["sib_case"]]
            if stem == ident:
                stem = ident.lower() if ident != ident.lower() else ident.upper()
            uid = getattr(uq, "MOD_NAME_UID", 0)
            try:
                nl = sdn.Netlist(name="design")
                prims = nl.create_library(name="prims")
                leaf = prims.create_definition(name="LEAF")
                lp = leaf.create_port(name="p")
                lp.direction = sdn.IN
                lp.create_pins(1)
                work = nl.create_library(name="work")
                for off in inp["offsets"]:
                    o = work.create_definition(name="%s_sdn_unique_%d" % (stem, uid + off))
                    q = o.create_port(name="q")
                    q.direction = sdn.IN
                    q.create_pins(1)
                sub = work.create_definition(name=inp["shared"])
                a = sub.create_port(name="a")
                a.direction = sdn.IN
                a.create_pins(1)
                inner = sub.create_child(name="inner", reference=leaf)
                net = sub.create_cable(name="n")
                net.create_wire()
                net.wires[0].connect_pin(a.pins[0])
                net.wires[0].connect_pin(inner.pins[lp.pins[0]])
                top = work.create_definition(name="top")
                for k in range(inp.get("n_inst", 2)):
                    top.create_child(name="u%d" % (k + 1), reference=sub)
                nl.top_instance = sdn.Instance(name="top_i")
                nl.top_instance.reference = top
                sdn.compose(nl, os.path.join(d, "a.edf"))          # first export: identifiers are assigned
            except Exception as e:
                self.res.dist("transform.setup-failed." + exc_family(e))
                return sigs
            try:
                if op == "uniquify":
                    uq.uniquify(nl)
                elif op == "flatten":
                    flatten(nl)
                elif op == "flatten_twice":
                    # flatten, add more hierarchy (a new block with inner nets, instantiated in the flat top),
                    # export (the new elements get identifiers), uniquify, flatten again
                    sub.create_cable(name="n/2").create_wire()
                    uq.uniquify(nl)
                    flatten(nl)
                    for b in range(inp.get("n_inst", 2)):
                        mid = work.create_definition(name="%s_blk%d" % (inp["shared"], b))
                        mp = mid.create_port(name="P")
                        mp.direction = sdn.IN
                        mp.create_pins(1)
                        mu = mid.create_child(name="U", reference=leaf)
                        w1 = mid.create_cable(name="w/1")
                        w1.create_wire()
                        w1.wires[0].connect_pin(mp.pins[0])
                        w1.wires[0].connect_pin(mu.pins[lp.pins[0]])
                        mid.create_cable(name="w/2").create_wire()
                        top.create_child(name="blk%d" % b, reference=mid)
                    sdn.compose(nl, os.path.join(d, "m.edf"))
                    uq.uniquify(nl)
                    flatten(nl)
                else:
                    c = sub.clone()
                    c.name = inp["shared"] + "_copy"
                    work.add_definition(c)
            except Exception as e:
                self.res.dist("transform.%s.refused-%s (the transformation itself: other properties)" % (op, exc_family(e)))
                return sigs
            f2 = os.path.join(d, "b.edf")
            try:
                sdn.compose(nl, f2)
            except Exception as e:
                fail("transform.%s.compose-raised-%s" % (op, exc_family(e)), "second export raised " + repr(e)[:160])
                return sigs
            finally:
                _set_policy("DEFAULT")
            # every scope of the netlist after the second export
            scopes = [("libraries", list(nl.libraries))]
            for lib in nl.libraries:
                scopes.append(("cells of %s" % lib.name, list(lib.definitions)))
                for df in lib.definitions:
                    scopes.append(("ports of %s" % df.name, list(df.ports)))
                    scopes.append(("cables of %s" % df.name, list(df.cables)))
                    scopes.append(("instances of %s" % df.name, list(df.children)))
            for what, objs in scopes:
                ps = [{"name": x.name, "ident": None} for x in objs]
                obs = _observe(objs, ps)
                seen = {}
                for k, o in enumerate(obs):
                    kind = illegal_kind(o["ident"])
                    if kind is not None:
                        fail("transform.%s.identifier-%s" % (op, kind), "%s: %r has the identifier %r" % (what, o["name"], o["ident"]))
                        continue
                    for f in written_forms(o["ident"], o.get("bits") or []):
                        key = fold(f)
                        if key in seen and seen[key][0] != k:
                            fail("transform.%s.identifiers-collide" % op,
                                 "%s: %r and %r are written as %r and %r, equal ignoring case" % (what, obs[seen[key][0]]["name"], o["name"], seen[key][1], f))
                        seen.setdefault(key, (k, f))
                for sig, k, detail in oracle_tokens(obs):
                    fail("transform.%s.original-name-not-written" % op, "%s: %s" % (what, detail))
            if sigs:
                return sigs
            try:
                n3 = sdn.parse(f2)
            except Exception as e:
                fail("transform.%s.reparse-raised-%s" % (op, exc_family(e)), repr(e)[:200])
                return sigs
            finally:
                _set_policy("DEFAULT")
            want = sorted(l.name for l in nl.libraries)
            got = sorted(l.name for l in n3.libraries)
            if want != got:
                fail("transform.%s.reparse-names-differ" % op, "libraries written %r re-read %r" % (want, got))
                return sigs
            for lib in nl.libraries:
                l3 = next(n3.get_libraries(lib.name), None)
                w = sorted(x.name for x in lib.definitions)
                g = sorted(x.name for x in l3.definitions) if l3 is not None else None
                if w != g:
                    fail("transform.%s.reparse-names-differ" % op, "cells of %s written %r re-read %r" % (lib.name, w[:8], (g or [])[:8]))
                    return sigs
                for df in lib.definitions:
                    d3 = next(l3.get_definitions(df.name), None)
                    for attr in ("ports", "cables", "children"):
                        w = sorted(x.name for x in getattr(df, attr))
                        g = sorted(x.name for x in getattr(d3, attr)) if d3 is not None else None
                        if w != g:
                            fail("transform.%s.reparse-names-differ" % op, "%s of %s written %r re-read %r" % (attr, df.name, w[:8], (g or [])[:8]))
                            return sigs
            self.res.dist("transform.%s.ok" % op)
            return sigs
        finally:
            shutil.rmtree(d, ignore_errors=True)

    def run_chain(self, inp, report=True):
        """`n` siblings x, x_sdn_1_, ..., x_sdn_<n-1>_ and one more named X: one round of
        `_conflicts_fix` per sibling (the python recursion limit is not part of the property)."""
        import spydrnet as sdn
        from spydrnet.composers.edif.edifify_names import EdififyNames
        _set_policy("DEFAULT")
        n = inp["n"]
        names = ["x"] + ["x_sdn_%d_" % i for i in range(1, n)] + ["X"]
        cls = _cls(inp.get("scope", "instances"))
        objs = []
        for nm in names:
            o = cls()
            o.name = nm
            objs.append(o)
        try:
            got = EdififyNames().make_valid(objs[-1], objs)
        except RecursionError as e:
            if report:
                self.res.dist("P.fail.make_valid.recursion-limit")
                self.res.spec_failure("make_valid.recursion-limit", inp, "make_valid raised RecursionError with %d conflicting siblings" % n)
            return {"make_valid.recursion-limit"}
        except Exception as e:
            if report:
                self.res.spec_failure("make_valid.raised-" + exc_family(e), inp, repr(e)[:200])
            return {"make_valid.raised-" + exc_family(e)}
        m = self.drv.ask({"fn": "makeValid", "name": "X", "others": [{"name": nm} for nm in names[:-1]]})
        sigs = set()
        if not m.get("finished", True):
            self.res["obligations"].append(("conflict-fix loop finished within the proved fuel", False, json.dumps(inp)))
        if m.get("id") != got:
            sigs.add("corr")
            if report:
                self.res.corr_mismatch("EdififyNames.make_valid == Spydr.Names.makeValid (chain)", inp, impl=str(got)[:60], model=str(m.get("id"))[:60])
        else:
            self.res.dist("corr.chain.equal")
        obs = [{"name": nm, "ident": None, "rename": False, "assigned": False, "bits": []} for nm in names[:-1]]
        obs.append({"name": "X", "ident": got, "rename": True, "assigned": True, "bits": []})
        for sig, i, detail in oracle_scope(obs):
            sigs.add(sig)
            if report:
                self.res.spec_failure(sig, inp, detail)
        return sigs

    def run_one(self, inp, report=True):
        if inp.get("level") == "netlist":
            return self.run_netlist(inp, report)
        if inp.get("level") == "chain":
            return self.run_chain(inp, report)
        if inp.get("level") == "history":
            return self.run_history(inp, report)
        if inp.get("level") == "transform":
            return self.run_transform(inp, report)
        return self.run_free(inp, report)


def nontrivial(inp):
    if inp.get("level") in ("netlist", "chain", "history", "transform"):
        return True
    s = inp["sibs"]
    return len(s) >= 2


def tags(res, inp):
    if inp.get("level") == "chain":
        res.dist("level.chain.%d" % inp["n"])
        return
    if inp.get("level") == "transform":
        res.dist("level.transform." + inp["op"])
        return
    if inp.get("level") == "history":
        res.dist("level.history")
        for e in inp["edits"]:
            res.dist("history.edit.%s.%s" % (e["op"], e["scope"]))
        return
    if inp.get("level") == "netlist":
        res.dist("level.netlist" + (".benign" if inp.get("benign") else ""))
        lists = [inp[sc] for sc in SCOPES]
    else:
        res.dist("level.free." + inp["scope"])
        lists = [inp["sibs"]]
    for l in lists:
        res.dist("siblings.%s" % ("1" if len(l) == 1 else "2-3" if len(l) <= 3 else "4-8" if len(l) <= 8 else "9+"))
        fl = {}
        for s in l:
            n = s["name"]
            res.dist("namelen.%s" % ("1-3" if len(n) <= 3 else "4-20" if len(n) <= 20 else "21-249" if len(n) < 250 else "250-255" if len(n) <= 255 else "256-300"))
            if _re.search(r"_sdn_[0-9]+_$", n):
                res.dist("name.has-sdn-suffix")
            if any(ord(c) > 126 for c in n):
                res.dist("name.non-ascii (oracle only)")
            if s.get("ident") is not None:
                res.dist("pre-existing-identifier")
            fl.setdefault(fold(n), []).append(n)
        if any(len(set(v)) > 1 for v in fl.values()):
            res.dist("scope.case-only-collision")
        sn = {}
        for s in l:
            sn.setdefault(fold(_sanitised(s["name"])), set()).add(s["name"])
        if any(len(v) > 1 for v in sn.values()):
            res.dist("scope.sanitised-to-same")


def shard(seed, idx, tier, n_cases, corpus, deadline, levels=None):
    import random
    res = ShardResult()
    drv = lean.Driver("drv_names")
    tmpdir = tempfile.mkdtemp(prefix="verif_names_")
    rn = Runner(res, drv, tmpdir)
    try:
        for c in corpus:
            inp = c["input"]
            res.case(inp, nontrivial(inp))
            res.dist("corpus")
            rn.run_one(inp)
        rng = random.Random(stable_hash([seed, PID, "shard", idx]))
        chains = []
        if idx == 1:
            chains = [1600] if tier == "quick" else [1000, 1600, 3000]
        for n in chains:
            inp = {"level": "chain", "n": n, "scope": rng.choice(SCOPES)}
            res.case(inp, True)
            tags(res, inp)
            rn.run_one(inp)
        for k in range(n_cases):
            if time.time() > deadline:
                res.dist("shard.stopped-at-deadline")
                break
            inp = gen_input(rng, tier, levels)
            res.case(inp, nontrivial(inp))
            tags(res, inp)
            if k < 1:
                res.sample(_short(inp))
            rn.run_one(inp)
    finally:
        drv.close()
        shutil.rmtree(tmpdir, ignore_errors=True)
    return res


SMALL_ALPHABET = "aA_-1$"


def enumerate_small(tier):
    """Bounded-exhaustive scopes: every ordered pair (thorough: names up to length 3, quick: up to 2)
    and every ordered triple of names of length 1 over a 6-character alphabet; every length 250..260
    in a few shapes, alone and beside its own truncation."""
    import itertools
    maxlen = 3 if tier == "thorough" else 2
    names = ["".join(t) for n in range(1, maxlen + 1) for t in itertools.product(SMALL_ALPHABET, repeat=n)]
    for a, b in itertools.product(names, repeat=2):
        yield {"level": "free", "scope": "instances", "sibs": [{"name": a, "ident": None, "rename": False}, {"name": b, "ident": None, "rename": False}]}
    for t in itertools.product(SMALL_ALPHABET, repeat=3):
        yield {"level": "free", "scope": "cables", "sibs": [{"name": c, "ident": None, "rename": False} for c in t]}
    for L in range(250, 261):
        for shape in ("a", "$", "A_sdn_9_", "a_sdn_99_", "-_sdn_999_"):
            if "_sdn_" in shape:
                head, suf = shape.split("_sdn_")
                nm = (head * 300)[: L - len(suf) - 5] + "_sdn_" + suf
            else:
                nm = (shape + "a" * 300)[:L]
            yield {"level": "free", "scope": "ports", "sibs": [{"name": nm, "ident": None, "rename": False}]}
            yield {"level": "free", "scope": "ports", "sibs": [{"name": nm, "ident": None, "rename": False}, {"name": nm[:255], "ident": None, "rename": False},
                                                               {"name": nm.swapcase(), "ident": None, "rename": False}]}


def exhaustive_shard(seed, idx, nsh, tier, deadline):
    res = ShardResult()
    drv = lean.Driver("drv_names")
    tmpdir = tempfile.mkdtemp(prefix="verif_names_")
    rn = Runner(res, drv, tmpdir)
    try:
        for k, inp in enumerate(enumerate_small(tier)):
            if k % nsh != idx:
                continue
            if time.time() > deadline:
                res.dist("exhaustive.stopped-at-deadline")
                break
            res.case(inp, nontrivial(inp))
            res.dist("exhaustive")
            rn.run_one(inp)
    finally:
        drv.close()
        shutil.rmtree(tmpdir, ignore_errors=True)
    return res


def _short(inp):
    if inp.get("level") in ("chain", "history", "transform"):
        return inp

    def sh(s):
        return dict(s, name=s["name"] if len(s["name"]) <= 40 else s["name"][:37] + "...(%d)" % len(s["name"]))
    if inp.get("level") == "netlist":
        return {"level": "netlist", **{sc: [sh(s) for s in inp[sc]][:4] for sc in SCOPES}}
    return {"level": "free", "scope": inp["scope"], "sibs": [sh(s) for s in inp["sibs"]][:6]}


def neighbourhood(seed, idx, inputs, n, deadline):
    """Directed search around diverging inputs for an input on which P fails on the implementation."""
    import random
    res = ShardResult()
    drv = lean.Driver("drv_names")
    tmpdir = tempfile.mkdtemp(prefix="verif_names_")
    rn = Runner(res, drv, tmpdir)
    rng = random.Random(stable_hash([seed, PID, "nbh", idx]))
    try:
        for k in range(n):
            if time.time() > deadline:
                break
            base = json.loads(json.dumps(rng.choice(inputs)))
            sibs = base["sibs"]
            for _ in range(rng.randint(1, 3)):
                v = rng.random()
                if v < 0.3 and sibs:
                    s = rng.choice(sibs)
                    sibs.append({"name": _swapcase_some(rng, s["name"]), "ident": None, "rename": False})
                elif v < 0.5 and sibs:
                    s = rng.choice(sibs)
                    sibs.append({"name": _resanitise(rng, s["name"]), "ident": None, "rename": False})
                elif v < 0.7 and sibs:
                    s = rng.choice(sibs)
                    sibs.append({"name": _sdn(rng, _sanitised(s["name"])[:240]), "ident": None, "rename": False})
                elif v < 0.8 and len(sibs) > 1:
                    del sibs[rng.randrange(len(sibs))]
                elif sibs:
                    s = rng.choice(sibs)
                    sibs.append(dict(s))
            rng.shuffle(sibs)
            res.case(base, True)
            res.dist("neighbourhood")
            rn.run_free(base)
    finally:
        drv.close()
        shutil.rmtree(tmpdir, ignore_errors=True)
    # only the P-failures matter here; the divergences are already recorded
    res["corr"] = []
    return res


def load_corpus():
    out = []
    for p in sorted(glob.glob(os.path.join(ROOT, "corpus", PID, "*.json"))):
        try:
            d = json.load(open(p))
            if "input" in d:
                out.append(d)
        except Exception:
            pass
    return out


def run(ctx):
    ctx.rule = ("generated sibling lists over an adversarial alphabet (letters of both cases, digits, _ - [ ] / \\ space $ & . : ( ) "
                "and the other printable ASCII punctuation incl. a rare double quote), name lengths 1..300 with emphasis on 253..258 "
                "and 299/300, case-only variants, names that sanitise to the same identifier, names sharing their first 255 "
                "characters, pre-existing x_sdn_N_ names (leading zeros, 9/99/999), suffixes with 240..290 digits, pre-existing legal "
                "identifiers and rename flags; level free = free-standing Library/Definition/Port/Cable/Instance objects run through "
                "the real ComposeEdif._add_rename_property over the list (duplicates allowed), level netlist = a real netlist with "
                "generated names in all five scopes + netlist + top instance, sdn.compose to .edf, sdn.parse. "
                "Cable scopes carry widths 1..4, lower indices and one-wire arrays, with the class `cable x of width w beside scalar cables named <x or its identifier>_<k>_` and case swaps; "
                "one conflict chain x, x_sdn_1_, ... , X of 1600 siblings (thorough 1000/1600/3000). "
                "History level: a netlist with mixed-case identifiers is written and read (EDIF policy), in 1-3 scopes an element is removed or re-identified and a sibling added whose name "
                "sanitises to that identifier in another case, then composed (raising = failure) and re-read. "
                "Transform level: export, then uniquify / flatten / clone-and-add of a shared cell with capitals in its name beside siblings named like the copies in another case, then export again; "
                "oracle on every scope of the second export and re-read. "
                "A case is one input; distinct = distinct canonical JSON; non-trivial = netlist / history / transform level, chain, or >= 2 siblings.")
    ctx.assumptions = [
        "names are non-empty printable ASCII (0x20..0x7e); non-ASCII names are probed only by the oracle (no model correspondence)",
        "generated sibling lists have <= 40 elements, plus one conflict chain of 1600 (thorough: 1000/1600/3000) siblings x, x_sdn_1_, ... and X",
        "theorems conflictsFix_finished / makeValid_fresh_bounded / assign_all_* carry the size hypothesis fuelFor <= 10^200 resp. totalWeight <= 10^100 "
        "(no algorithm can give fresh identifiers of bounded length to arbitrarily many siblings)",
        "pre-existing EDIF.identifier values in generated inputs are legal and what is written for them is pairwise distinct ignoring case (as in a file a reader accepted); "
        "net identifiers are not judged when a shrunk input leaves that domain",
        "cables have at least one wire and a non-negative lower index; the net identifiers of a cell are read by a token scan of the written file (not through the re-read)",
    ]
    ctx.partial_notes = [
        "last clause of C17 ('the exported file is always readable again and the re-read netlist shows the original names'): proved on the models, CONDITIONALLY, by the bridge "
        "export_readable / export_readable_outside_pinned_classes (readable provided the three pinned name classes are avoided: bus-bit-identifier-too-long, cable-name-bracket-index, backslash-bus-cable; pre-pass output satisfies every naming clause of the EDIF engine's WFNet; with the residual clauses Edif.C03.edif_roundtrip_text gives a text the "
        "model reader accepts with the view of the original netlist). Assumed there, not delivered by the pre-pass: names of siblings different and free of double quote/CR/LF, "
        "a scalar net not named like a bus bit, a bus net not starting with a backslash, the per-wire identifier of a bus within 255 characters "
        "(bus_bit_identifier_can_be_too_long: witness; open finding), and the structural clauses of WFNet. passNet (names model) composed with composeE (edif model) is tied to sdn.compose only by the two engines' correspondence runs (names: identifiers/rename flags/name tokens/net identifiers; "
        "edif: written text and re-read netlist), not by a single joint check; this engine still runs sdn.compose + sdn.parse on every generated netlist",
    ]
    lean.check_obligations(ctx, "Spydr/Names", MODULES, ["drv_names"], "Spydr/Names/Audit.lean", THEOREMS)
    if not os.path.exists(os.path.join(lean.LEAN, ".lake", "build", "bin", "drv_names")):
        ctx.obligation("driver drv_names available", False, "build failed")
        return
    if ctx.replay:
        path = ctx.replay if os.path.isabs(ctx.replay) else os.path.join(ROOT, ctx.replay)
        d = json.load(open(path))
        inputs = []
        if "input" in d and d["input"]:
            inputs.append(d["input"])
        for c in d.get("broken_correspondence", []):
            if c.get("input"):
                inputs.append(c["input"])
        r = shard(ctx.seed, 0, ctx.tier, 0, [{"input": i} for i in inputs], time.time() + 600)
        ctx.merge_shard(r)
        return
    corpus = load_corpus()
    nsh = 16
    per = ctx.scale(300, 6000)
    # wall-clock plan (measured from the start of the check): generated cases, then the enumeration
    deadline = ctx.t0 + ctx.scale(40, 800)
    args = []
    for i in range(nsh):
        args.append((ctx.seed, i, ctx.tier, per, corpus if i == 0 else [], deadline))
    run_shards(ctx, shard, args)
    run_shards(ctx, exhaustive_shard, [(ctx.seed, i, nsh, ctx.tier, ctx.t0 + ctx.scale(52, 1050)) for i in range(nsh)])
    if ctx.tier == "thorough":
        lean.leanchecker(ctx, MODULES)
    # step 3 of the contract: divergence without a failing input -> search around it
    from common import findings
    open_sigs = {k["signature"] for k in findings.load() if k["property"] == PID and k.get("status") == "open"}
    unexplained = [c for c in ctx.corr if not (c.get("signature") and c["signature"] in open_sigs) and c.get("input")]
    new_spec = [s for s in ctx.spec if s["signature"] not in open_sigs]
    if unexplained and not new_spec:
        ins = [c["input"] for c in unexplained[:8]]
        dl = time.time() + ctx.scale(40, 300)
        run_shards(ctx, neighbourhood, [(ctx.seed, i, ins, ctx.scale(300, 5000), dl) for i in range(nsh)])
    ctx.extra["known_finding_signatures_seen"] = sorted({s["signature"] for s in ctx.spec if s["signature"] in open_sigs})
