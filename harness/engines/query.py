"""Engine `query` -- property C13 (query filters mean what they say).

Lean side: lean/Spydr/Query/{Model,Spec,Lemmas,LemmasStage}.lean, Props/C13.lean, driver drv_query.
For every generated query x the check does
  (a) correspondence: multiset of the implementation's result == model stage (driver, `out`) applied to
      the implementation's own unfiltered result (pattern `*`) with the key values;
  (b) P on the implementation's output: result == Spec.filterSpec of the unfiltered result (driver,
      `spec`), no element twice, plus metamorphic relations evaluated on the implementation alone
      (exact = escaped regex, case-swapped + is_case=False = original, permuted / duplicated pattern
      lists, fast lookup registered vs deregistered, callback on top, union over patterns).
A failure is shrunk (patterns, roots, options) and classified by an "explaining" oracle: the signature
of a known defect class is used only if the implementation's result is exactly what that one defect
produces; anything else gets the generic signature `<fn>.filter_mismatch` / `<fn>.duplicate`.
"""
import json
import os
import random
import re as _re
import traceback

from common import lean, shard
from common.ctx import REPO, ROOT, stable_hash

ENGINE_DIR = "Spydr/Query"
MODULES = ["Spydr.Query.Props.C13"]
EXES = ["drv_query"]
AUDIT = "Spydr/Query/Audit.lean"
THEOREMS = [
    "Spydr.Query.glob_spec",
    "Spydr.Query.matches_spec",
    "Spydr.Query.absolute_match",
    "Spydr.Query.nocase_spec",
    "Spydr.Query.nocase_rel",
    "Spydr.Query.exact_glob_regex_agree",
    "Spydr.Query.re_of_glob_spec",
    "Spydr.Query.stage_spec_found",
    "Spydr.Query.stage_spec_direct",
    "Spydr.Query.stage_spec_map",
    "Spydr.Query.stage_spec_pipeline",
    "Spydr.Query.stage_spec_pipeline_split",
    "Spydr.Query.stage_spec_pipeline_unindexed",
    "Spydr.Query.stage_direct_keyed_skips",
    "Spydr.Query.stage_spec_h",
    "Spydr.Query.stage_spec_h_full",
    "Spydr.Query.stage_spec_none",
    "Spydr.Query.stage_nodup",
    "Spydr.Query.stage_nodup_found",
    "Spydr.Query.stage_nodup_h",
    "Spydr.Query.stage_pattern_order",
    "Spydr.Query.stage_union",
    "Spydr.Query.fast_eq_scan",
    "Spydr.Query.filter_commutes",
]

SENTINEL = "\x01no\x02match\x03"
EDIF_EXAMPLES = ["toggle", "TMR_hierarchy", "three_layer_hierarchy", "hierarchical_luts", "n_bit_counter"]

PIPE_FNS = {  # fn -> (module name, child list attribute of the parent visited directly, keyed)
    "get_libraries": ("get_libraries", "libraries", False),
    "get_definitions": ("get_definitions", "definitions", False),
    "get_ports": ("get_ports", "ports", False),
    "get_cables": ("get_cables", "cables", False),
    "get_instances": ("get_instances", "children", True),
}
H_FNS = ["get_hinstances", "get_hports", "get_hpins", "get_hcables", "get_hwires"]
NOPAT_FNS = ["get_pins", "get_wires"]
ALL_FNS = ["get_netlists"] + list(PIPE_FNS) + NOPAT_FNS + H_FNS

# signatures of the known defect classes (known_findings.d/query.json)
SIG_NOCASE = "_value_matches_pattern.is_case_false_glob.case_sensitive"
SIG_IDENT = "namespace_lookup.default_policy.edif_identifier.not_found"
SIG_NONUNIQUE = "global_service_lookup.absolute_pattern.nonunique_key.first_only"
SIG_HIGNORE = "%s.pattern_ignored_for_root"
SIG_BRACKET = "_value_matches_pattern.glob_bracket.character_class"
SIG_EDIFCI = "edif_identifier.exact_case_variant.case_sensitive_without_index"


def sig_abs_repeat(fn):
    return "%s.absolute_pattern_repeated.duplicate" % fn


def sig_multi_root(fn):
    return "%s.multi_root.duplicate" % fn


# --------------------------------------------------------------------------------------------
# netlists
# --------------------------------------------------------------------------------------------
def build_net(spec):
    """spec: {"kind":"gen","seed":int,"policy":"DEFAULT"|"EDIF"} | {"kind":"edif","name":str}"""
    import spydrnet as sdn
    from common import gen
    if spec["kind"] == "edif":
        path = os.path.join(REPO, "example_netlists", "EDIF_netlists", spec["name"] + ".edf.zip")
        nl = sdn.parse(path)
        rng = random.Random("deco-%s" % spec["name"])
        decorate(nl, rng, "EDIF", idents=False)
        return nl
    rng = random.Random("net-%d" % spec["seed"])
    nsm = sdn.namespace_manager
    had = "default" in nsm.__dict__
    old = nsm.__dict__.get("default")
    try:
        nsm.default = spec.get("policy", "DEFAULT")
        if spec.get("size") == "large":
            nl = gen.gen_netlist(rng, data=False, n_libs=(2, 4), n_leaf=(2, 5), n_mid=(3, 7), max_children=6,
                                 max_ports=5, unnamed_frac=spec.get("unnamed", 0.0))
        else:
            nl = gen.gen_netlist(rng, data=False, n_libs=(1, 3), unnamed_frac=spec.get("unnamed", 0.0))
        if spec.get("twins"):
            add_twins(nl, random.Random("twins-%d" % spec["seed"]))
        if spec.get("refused"):
            add_refused(nl, random.Random("refused-%d" % spec["seed"]))
    finally:
        if had:
            nsm.default = old
        else:
            try:
                del nsm.default
            except AttributeError:
                pass
    decorate(nl, rng, spec.get("policy", "DEFAULT"), idents=True, brackets=bool(spec.get("brackets")),
             punct=bool(spec.get("punct")))
    if spec.get("cross"):
        cross_keys(nl, random.Random("cross-%d" % spec["seed"]))
    return nl


EARLIER = {}  # id(netlist) -> {key: values present before an edit}
GHOSTS = {}   # id(netlist) -> identifiers / names carried by elements whose attachment was refused


def add_refused(nl, rng):
    """A few refused attachments before the queries (an orphan whose identifier is new but whose name
    clashes with a sibling, and the other way round): a refused edit must not leave anything behind in
    the name index that an exact query could find."""
    import spydrnet as sdn
    ghosts = GHOSTS[id(nl)] = []
    n = 0
    for lib in nl.libraries:
        for d in lib.definitions:
            for lst, mk, add in ((d.children, sdn.Instance, d.add_child), (d.ports, sdn.Port, d.add_port),
                                 (d.cables, sdn.Cable, d.add_cable)):
                named = [e for e in lst if e.name]
                if not named or rng.random() < 0.5:
                    continue
                a = rng.choice(named)
                o = mk()
                n += 1
                gid = "ghost%d_Q" % n
                try:
                    if rng.random() < 0.7 or "EDIF.identifier" not in a:
                        o["EDIF.identifier"] = gid
                        o.name = a.name                       # the name clashes, the identifier is new
                        ghosts.append(gid)
                    else:
                        o["EDIF.identifier"] = a["EDIF.identifier"]   # the identifier clashes, the name is new
                        o.name = gid
                        ghosts.append(gid)
                    add(o)
                    lst_now = list(lst)
                    if any(x is o for x in lst_now):
                        # accepted (e.g. DEFAULT policy does not police identifiers): take it out again
                        {sdn.Instance: d.remove_child, sdn.Port: d.remove_port, sdn.Cable: d.remove_cable}[mk](o)
                except ValueError:
                    pass


def case_variant(name, rng):
    idx = [i for i, c in enumerate(name) if c.isalpha()]
    if not idx:
        return name
    r = rng.random()
    if r < 0.4:
        return name.swapcase()
    if r < 0.7:
        return name.upper() if name.upper() != name else name.lower()
    i = rng.choice(idx)
    return name[:i] + name[i].swapcase() + name[i + 1:]


def add_twins(nl, rng):
    """Siblings whose names differ only in letter case (legal under both policies: `.NAME` is case
    sensitive), at every level: libraries, definitions, ports, cables and child instances.  A twin
    child references the same definition as its sibling, so whole hierarchical paths below them are
    equal up to case (`Core/reg`, `core/REG`)."""
    def fresh(sibs, name):
        have = set(x.name for x in sibs)
        for _ in range(4):
            v = case_variant(name, rng)
            if v not in have:
                return v
        return None
    defs = [d for lib in nl.libraries for d in lib.definitions]
    for d in defs:
        for a in [c for c in list(d.children) if c.name and c.reference is not None]:
            if rng.random() < 0.45:
                v = fresh(d.children, a.name)
                if v:
                    d.create_child(name=v, reference=a.reference)
        for a in [p for p in list(d.ports) if p.name]:
            if rng.random() < 0.35:
                v = fresh(d.ports, a.name)
                if v:
                    p = d.create_port(name=v)
                    p.create_pins(max(1, len(a.pins)))
                    if len(p.pins) == 1 and not a.is_scalar:
                        p.is_scalar = False
                    if not p.is_scalar:
                        p.lower_index = a.lower_index
        for a in [c for c in list(d.cables) if c.name]:
            if rng.random() < 0.35:
                v = fresh(d.cables, a.name)
                if v:
                    c = d.create_cable(name=v)
                    c.create_wires(max(1, len(a.wires)))
                    if len(c.wires) == 1 and not a.is_scalar:
                        c.is_scalar = False
                    if not c.is_scalar:
                        c.lower_index = a.lower_index
    for lib in list(nl.libraries):
        for d in [x for x in list(lib.definitions) if x.name]:
            if rng.random() < 0.2:
                v = fresh(lib.definitions, d.name)
                if v:
                    lib.create_definition(name=v)
        if lib.name and rng.random() < 0.4:
            v = fresh(nl.libraries, lib.name)
            if v:
                nl.create_library(name=v)


UK_POOL = ["k", "kk", "Kk", "ab", "aB", "b[0]", "b[1]", "x.y", "z", "u-0", "a&b", "c d", "n#1", "t~q"]
PUNCT = ["-", "&", "~", "#", " ", ".", "+", "$", "^", "(", "|"]


def first_class(nl):
    out = [nl]
    for lib in nl.libraries:
        out.append(lib)
        for d in lib.definitions:
            out.append(d)
            out.extend(d.ports)
            out.extend(d.cables)
            out.extend(d.children)
    if nl.top_instance is not None:
        out.append(nl.top_instance)
    return out


def cross_keys(nl, rng):
    """Values shared ACROSS keys among siblings: an element's EDIF.identifier (plain data under the
    DEFAULT policy) or user key equals the .NAME of another sibling, so that an answer taken from the
    table of the wrong key is visible."""
    groups = [list(nl.libraries)]
    for lib in nl.libraries:
        groups.append(list(lib.definitions))
        for d in lib.definitions:
            groups += [list(d.ports), list(d.cables), list(d.children)]
    for g in groups:
        named = [e for e in g if e.name]
        if len(named) < 2:
            continue
        for key in ("EDIF.identifier", "uk"):
            if rng.random() < 0.6:
                a, b = rng.sample(named, 2)
                try:
                    a[key] = b.name
                except ValueError:
                    pass
                if rng.random() < 0.4:
                    try:
                        b[key] = a.name        # swapped pair
                    except ValueError:
                        pass


def decorate(nl, rng, policy, idents=True, brackets=False, punct=False):
    """EDIF.identifier on about half of the named elements (spelling differs from the name; unique
    ignoring case among siblings because the names are), and a user key `uk` with a small value
    pool (deliberately not unique among siblings)."""
    for e in first_class(nl):
        if idents and e.name and rng.random() < 0.55 and "EDIF.identifier" not in e:
            ident = "".join(c for c in e.name if c.isalnum() or c == "_")
            ident = rng.choice([ident.swapcase() + "_Id", "X" + ident, ident.upper() + "q"])
            try:
                e["EDIF.identifier"] = ident
            except ValueError:
                pass
        if rng.random() < 0.5:
            e["uk"] = rng.choice(UK_POOL)
    if punct:
        # names with punctuation that re.escape really escapes: exact = escaped regex must hold for them too
        for lib in nl.libraries:
            for d in lib.definitions:
                for lst in (d.ports, d.cables, d.children):
                    for e in list(lst):
                        if e.name and rng.random() < 0.25:
                            k = rng.randint(1, len(e.name))
                            new = e.name[:k] + rng.choice(PUNCT) + e.name[k:]
                            if new not in set(x.name for x in lst):
                                try:
                                    e.name = new
                                except ValueError:
                                    pass
            for d in list(lib.definitions):
                if d.name and rng.random() < 0.2:
                    try:
                        d.name = d.name + rng.choice(PUNCT) + "v"
                    except ValueError:
                        pass
    if brackets:
        # names that contain array-index text (legal under both policies; the EDIF reader produces such
        # cable and instance names): every pattern family is applied to them as to any other name
        for lib in nl.libraries:
            for d in lib.definitions:
                for lst in (d.ports, d.cables, d.children):
                    for e in list(lst):
                        if e.name and rng.random() < 0.25:
                            new = "%s[%d]" % (e.name, rng.randrange(4))
                            if new not in set(x.name for x in lst):
                                try:
                                    e.name = new
                                except ValueError:
                                    pass


class World:
    """Deterministic enumeration of every object of a netlist (ids), and of hierarchical references."""

    def __init__(self, nl):
        import spydrnet as sdn
        self.sdn = sdn
        self.nl = nl
        self.objs = []
        self.kind = []
        self.index = {}
        self.hindex = {}
        self.hobjs = []

        def add(kind, o):
            k = self._k(o)
            if k not in self.index:
                self.index[k] = len(self.objs)
                self.objs.append(o)
                self.kind.append(kind)
        add("netlist", nl)
        for lib in nl.libraries:
            add("library", lib)
            for d in lib.definitions:
                add("definition", d)
                for p in d.ports:
                    add("port", p)
                    for q in p.pins:
                        add("innerpin", q)
                for c in d.cables:
                    add("cable", c)
                    for w in c.wires:
                        add("wire", w)
                for i in d.children:
                    add("instance", i)
        if nl.top_instance is not None:
            add("instance", nl.top_instance)
        for i in range(len(self.objs)):
            if self.kind[i] == "instance":
                for q, o in self.objs[i].pins.items():
                    add("outerpin", o)

    def _k(self, o):
        from spydrnet.ir.outerpin import OuterPin
        if isinstance(o, OuterPin):
            return ("op", id(o.instance), id(o.inner_pin))
        return id(o)

    def oid(self, o):
        from spydrnet.util.hierarchical_reference import HRef
        if isinstance(o, HRef):
            return self.hid(o)
        return self.index.get(self._k(o), -1)     # -1: an element that is not part of the netlist

    def hpath(self, h):
        p = []
        while h is not None:
            p.append(h.item)
            h = h.parent
        p.reverse()
        return p

    def hid(self, h):
        key = tuple(self.oid(x) for x in self.hpath(h))
        if key not in self.hindex:
            self.hindex[key] = 100000 + len(self.hobjs)
            self.hobjs.append(h)  # keeps the flyweight alive
        return self.hindex[key]

    def hrefs_instances(self):
        """all hierarchical instances, deterministic order"""
        out = []
        top = self.nl.top_instance
        if top is None:
            return out
        from spydrnet.util.hierarchical_reference import HRef
        stack = [HRef.from_parent_and_item(None, top)]
        while stack:
            h = stack.pop()
            out.append(h)
            ref = h.item.reference
            if ref is not None and len(out) < 400:
                for c in reversed(ref.children):
                    stack.append(HRef.from_parent_and_item(h, c))
        return out


# --------------------------------------------------------------------------------------------
# running the implementation
# --------------------------------------------------------------------------------------------
def exc_family(e):
    for cls, n in ((AssertionError, "assert"), (KeyError, "key"), (IndexError, "index"), (ValueError, "value"),
                   (TypeError, "type"), (RuntimeError, "runtime")):
        if isinstance(e, cls):
            return n
    return "other"


def resolve_roots(w, roots):
    out = []
    for r in roots:
        if r[0] == "obj":
            out.append(w.objs[r[1]])
        else:  # ["href", [ids of the path]]
            from spydrnet.util.hierarchical_reference import HRef
            h = None
            for i in r[1]:
                h = HRef.from_parent_and_item(h, w.objs[i])
            out.append(h)
    return out


def make_filter(w, mode):
    if mode == "odd":
        return lambda e: w.oid(e) % 2 == 1
    if mode == "third":
        return lambda e: w.oid(e) % 3 != 0
    return None


def impl(w, x, pats=None, is_case=None, is_re=None, filt=None, trace=None, obj_override=None, stream=False):
    """Run the real query. Returns ("ok", [ids]) or ("raise", family).  `obj_override`: the object passed
    as first argument (a caller-owned list); `stream`: consume the generator element by element and
    return ("ok", count)."""
    sdn = w.sdn
    fn = x["fn"]
    f = getattr(sdn, fn)
    roots = resolve_roots(w, x["roots"])
    obj = roots[0] if len(roots) == 1 and not x.get("as_list") else list(roots)
    if obj_override is not None:
        obj = obj_override
    kw = {}
    opts = x.get("opts", {})
    if "selection" in opts:
        kw["selection"] = opts["selection"]
    if "recursive" in opts:
        kw["recursive"] = opts["recursive"]
    if fn not in NOPAT_FNS:
        kw["patterns"] = list(x["pats"] if pats is None else pats)
        kw["is_case"] = x["is_case"] if is_case is None else is_case
        kw["is_re"] = x["is_re"] if is_re is None else is_re
        if fn not in H_FNS:
            kw["key"] = x["key"]
    fl = make_filter(w, x.get("filter", "none") if filt is None else filt)
    if fl is not None:
        kw["filter"] = fl
    mod = None
    saved = None
    if trace is not None and fn in PIPE_FNS:
        import importlib
        mod = importlib.import_module("spydrnet.util." + PIPE_FNS[fn][0])
        lname = "lookup_all" if hasattr(mod, "lookup_all") else "lookup"   # name before / after the repair
        saved = getattr(mod, lname)

        def spy(parent, et, key, value):
            trace.append(parent)
            return saved(parent, et, key, value)
        setattr(mod, lname, spy)
    try:
        if stream:
            return ("ok", sum(1 for _ in f(obj, **kw)))
        res = list(f(obj, **kw))
        return ("ok", [w.oid(e) for e in res])
    except Exception as e:  # candidate collection of some root kinds raises; class family only
        return ("raise", exc_family(e))
    finally:
        if mod is not None:
            setattr(mod, lname, saved)


class FastLookup:
    """register / deregister the namespace plugin's fast lookup, restoring the previous state"""

    def __init__(self, on):
        self.on = on

    def __enter__(self):
        from spydrnet.global_state import global_service as gs
        self.gs = gs
        self.saved = dict(gs._registered_lookups)
        if not self.on:
            for k in (".NAME", "EDIF.identifier"):
                gs.deregister_lookup(k)
        return self

    def __exit__(self, *a):
        self.gs._registered_lookups.clear()
        self.gs._registered_lookups.update(self.saved)
        return False


# --------------------------------------------------------------------------------------------
# key values
# --------------------------------------------------------------------------------------------
def key_of(w, x, i):
    """candidate [id, key|null] for a non-hierarchical element"""
    o = w.objs[i]
    k = x["key"]
    try:
        if k in o:
            v = o[k]
            return [i, v if isinstance(v, str) else None]
    except TypeError:
        pass
    return [i, None]


def hname_rel(w, h, root_len):
    from spydrnet.ir import InnerPin, Wire
    path = w.hpath(h)
    rel = path[root_len:]
    idx = None
    last = rel[-1] if rel else None
    if isinstance(last, Wire):
        cable = last.cable
        if not cable.is_scalar:
            idx = cable.lower_index + cable.wires.index(last)
        rel = rel[:-1]
    elif isinstance(last, InnerPin):
        port = last.port
        if not port.is_scalar:
            idx = port.lower_index + port.pins.index(last)
        rel = rel[:-1]
    s = "/".join((e.name if e.name else "") for e in rel)
    if idx is not None:
        s = "%s[%d]" % (s, idx)
    return s


def full_hname(w, hid_):
    """name of a hierarchical reference relative to the top instance (HRef.name convention)"""
    return hname_rel(w, w.hobjs[hid_ - 100000], 1)


def h_key(w, x, hid_, roots_paths):
    """relative hierarchical name of a result of a get_h* query: relative to the first root (in the
    processing order, i.e. reversed argument order) that contains it"""
    h = w.hobjs[hid_ - 100000]
    path = [w.oid(e) for e in w.hpath(h)]
    recursive = x.get("opts", {}).get("recursive", False)
    ipath = [i for i in path if w.kind[i] == "instance"]
    for rp in roots_paths:
        if len(path) > len(rp) and path[:len(rp)] == rp:
            if x["fn"] == "get_hinstances":
                direct = len(path) == len(rp) + 1
            else:
                direct = ipath == rp
            if recursive or direct:
                return hname_rel(w, h, len(rp))
    return None


def root_paths(w, x):
    """paths (id lists) of the name-searched roots in processing order"""
    out = []
    for r in reversed(x["roots"]):
        if r[0] == "href":
            if w.kind[r[1][-1]] == "instance":
                out.append(list(r[1]))
        elif w.kind[r[1]] == "netlist":
            top = w.nl.top_instance
            if top is not None:
                out.append([w.oid(top)])
    return out


# --------------------------------------------------------------------------------------------
# Python oracle (independent matcher, used for classification and metamorphic pattern choice)
# --------------------------------------------------------------------------------------------
def py_glob(p, v):
    # iterative two-pointer wildcard match (independent of fnmatch and of the Lean model)
    i = j = 0
    star = -1
    mark = 0
    while j < len(v):
        if i < len(p) and p[i] == "*":
            star = i
            mark = j
            i += 1
        elif i < len(p) and (p[i] == "?" or p[i] == v[j]):
            i += 1
            j += 1
        elif star >= 0:
            i = star + 1
            mark += 1
            j = mark
        else:
            return False
    while i < len(p) and p[i] == "*":
        i += 1
    return i == len(p)


def py_match(p, v, is_case, is_re):
    if v is None:
        v = ""
    if is_re:
        try:
            return _re.fullmatch(p, v, 0 if is_case else _re.IGNORECASE) is not None
        except _re.error:
            return False
    if not is_case:
        p, v = p.lower(), v.lower()
    return py_glob(p, v)


def is_abs(p, is_case, is_re):
    return is_case and not is_re and "*" not in p and "?" not in p


GLOB_UNSAFE = set("[]\\")
RE_OK = _re.compile(r"^[ -~]*$")


def wildcard_safe(s):
    return not (set(s) & GLOB_UNSAFE) and "*" not in s and "?" not in s


# --------------------------------------------------------------------------------------------
# one case
# --------------------------------------------------------------------------------------------
class Case:
    """Everything derived from x that does not depend on the patterns: base set, groups, keys."""

    def __init__(self, w, x):
        self.w = w
        self.x = x
        fn = x["fn"]
        self.fn = fn
        self.ok = True
        self.why = ""
        st, base = impl(w, x, pats=["*"], is_case=True, is_re=False, filt="none")
        if st != "ok":
            self.ok = False
            self.why = "base_raises:" + base
            return
        self.base = base
        self.variant = ("found" if fn == "get_netlists" else "pipeline" if fn in PIPE_FNS else
                        "none" if fn in NOPAT_FNS else "h")
        self.groups = []
        self.others = []
        self.bypass = []
        self.keyed = False
        self.cands = {}
        policy = None
        if self.variant == "found":
            for i in dedup(base):
                o = w.objs[i]
                v = o.get(x["key"], None)
                self.cands[i] = [i, v if isinstance(v, str) else None]
            self.others = [self.cands[i] for i in base]
        elif self.variant == "pipeline":
            tr = []
            st, r0 = impl(w, x, pats=[SENTINEL], is_case=True, is_re=False, filt="none", trace=tr)
            if st != "ok":
                self.ok = False
                self.why = "sentinel_raises:" + r0
                return
            attr = PIPE_FNS[fn][1]
            self.keyed = PIPE_FNS[fn][2]
            seen = set()
            ingroup = set()
            self.parents = []
            for p in tr:
                pi = w.oid(p)
                if pi in seen:
                    continue
                seen.add(pi)
                self.parents.append(pi)
                g = []
                for c in getattr(p, attr):
                    ci = w.oid(c)
                    self.cands[ci] = key_of(w, x, ci)
                    g.append(self.cands[ci])
                    ingroup.add(ci)
                self.groups.append(g)
            for i in base:
                if i not in self.cands:
                    self.cands[i] = key_of(w, x, i)
                if i not in ingroup or (self.keyed and self.cands[i][1] is None):
                    self.others.append(self.cands[i])
            policy = w.nl.get(".NS", None)
        elif self.variant == "none":
            self.others = [[i, None] for i in base]
        else:
            st, byp = impl(w, x, pats=[SENTINEL], is_case=True, is_re=False, filt="none")
            if st != "ok":
                self.ok = False
                self.why = "sentinel_raises:" + byp
                return
            self.bypass = [[i, full_hname(w, i)] for i in byp]
            for c in self.bypass:
                self.cands[c[0]] = c
            bset = set(byp)
            rps = root_paths(w, x)
            for i in base:
                if i in bset:
                    continue
                k = h_key(w, x, i, rps)
                if k is None:
                    self.ok = False
                    self.why = "hname_unresolved"
                    return
                self.cands[i] = [i, k]
                self.others.append(self.cands[i])
            # bypass elements keep key null on both lists (the model never looks at it)
        self.policy = policy
        self.base_dups = len(base) != len(set(base))

    def cfg(self, is_case, is_re, fast):
        x = self.x
        indexed = False
        ci = False
        if self.variant == "pipeline":
            # identifiers under the EDIF policy compare case-insensitively (documented; granted by the
            # property) -- whether or not an index is there to do it
            ci = x["key"] == "EDIF.identifier" and self.policy == "EDIF"
            if fast:
                if x["key"] == ".NAME":
                    indexed = self.policy in ("DEFAULT", "EDIF")
                elif x["key"] == "EDIF.identifier":
                    indexed = self.policy == "EDIF"     # DEFAULT does not index it -> linear search
        return {"isCase": is_case, "isRe": is_re, "indexed": indexed, "ci": ci}

    def values(self):
        vals = []
        for c in list(self.cands.values()):
            if c[1] is not None and c[1] != "":
                vals.append(c[1])
        return sorted(set(vals))

    def request(self, pats, is_case, is_re, fast, filt):
        drop = []
        if filt != "none":
            f = make_filter(self.w, filt)
            ids = set(c[0] for g in self.groups for c in g) | set(c[0] for c in self.others) | set(c[0] for c in self.bypass)
            if filt == "odd":
                drop = sorted(i for i in ids if i % 2 != 1)
            else:
                drop = sorted(i for i in ids if i % 3 == 0)
        return {"fn": "stage", "variant": self.variant, "cfg": self.cfg(is_case, is_re, fast), "keyed": self.keyed,
                "groups": self.groups, "others": self.others, "bypass": self.bypass, "pats": list(pats), "drop": drop,
                "base": sorted(set(self.base))}


def dedup(l):
    seen = set()
    out = []
    for i in l:
        if i not in seen:
            seen.add(i)
            out.append(i)
    return out


def pinned_expected(case, pats, is_case, is_re, fast, defects, extra_others=()):
    """What the pinned commit returns (as a sorted id list with multiplicity) if exactly the defect
    classes in `defects` are present and everything else is as specified.  Python mirror of the
    stage semantics, used only to *classify* a failure (never to accept one)."""
    x = case.x
    fn = case.fn
    cfg = case.cfg(is_case, is_re, fast)

    def vm(p, v):
        if v is None:
            v = ""
        if "bracket" in defects and not is_re:
            # the pinned code hands the pattern to fnmatch: `[` opens a character class
            import fnmatch
            if is_case or "nocase" in defects:
                return fnmatch.fnmatchcase(v, p)
            return fnmatch.fnmatchcase(v.lower(), p.lower())
        if "nocase" in defects and not is_case and not is_re:
            return py_match(p, v, True, False)
        return py_match(p, v, is_case, is_re)

    def abs_eq_second(v, p):
        # exact comparison outside the indexed lookup: the code is case-sensitive; the property grants
        # case-insensitivity for EDIF-policy identifiers
        if cfg["ci"] and "edifci" not in defects:
            return (v or "").lower() == p.lower()
        return (v or "") == p
    out = []
    if case.variant == "found":
        found = list(case.others)
        for p in pats:
            if is_abs(p, is_case, is_re):
                y = [c for c in found if c[1] == p]
            else:
                y = [c for c in found if vm(p, c[1] or "")]
            out += [c[0] for c in y]
            found = [c for c in found if c not in y]
        return sorted(out)
    if case.variant == "none":
        return sorted(set(c[0] for c in case.others))
    if case.variant == "h":
        byp = dedup([c[0] for c in case.bypass])
        if "hignore" not in defects:
            byp = []
            allc = [c for k, c in enumerate(case.bypass) if c[0] not in [d[0] for d in case.bypass[:k]]]
        else:
            allc = []
        rem = allc + [c for c in case.others if c[0] not in [d[0] for d in case.bypass]]
        rem = [c for k, c in enumerate(rem) if c[0] not in [d[0] for d in rem[:k]]]
        out = list(byp)
        for p in pats:
            if is_abs(p, is_case, is_re):
                y = [c for c in rem if c[1] == p]
            else:
                y = [c for c in rem if vm(p, c[1])]
            out += [c[0] for c in y]
            rem = [c for c in rem if c not in y]
        return sorted(out)
    # pipeline
    found = []
    keyed = case.keyed
    for g in case.groups:
        for p in pats:
            if is_abs(p, is_case, is_re):
                def eq(c):
                    if c[1] is None:
                        return False
                    if cfg["ci"] and (cfg["indexed"] or "edifci" not in defects):
                        return c[1].lower() == p.lower()
                    return c[1] == p
                hits = [c for c in g if eq(c)]
                if "ident" in defects and x["key"] == "EDIF.identifier" and fast and case.policy == "DEFAULT":
                    hits = []
                elif cfg["indexed"] or "nonunique" in defects:
                    hits = hits[:1]
                y = [c for c in hits if c[0] not in found]
            else:
                y = [c for c in g if c[0] not in found and (not keyed or c[1] is not None) and vm(p, c[1] or "")]
            for c in y:
                if c[0] not in found:
                    found.append(c[0])
                    out.append(c[0])
    direct_found = list(found)
    fresh = []
    for c in list(case.others) + list(extra_others):
        if c[0] in found:
            continue
        found.append(c[0])
        fresh.append(c)
    if "absrepeat" in defects and fn in ("get_instances", "get_libraries", "get_definitions"):
        if fn == "get_definitions":
            names = dedup([(c[1] or "") for c in fresh])
            for p in pats:
                if is_abs(p, is_case, is_re):
                    out += [c[0] for c in fresh if abs_eq_second(c[1], p) and (c[1] or "") in names]
                else:
                    hit = [n for n in names if vm(p, n)]
                    out += [c[0] for c in fresh if (c[1] or "") in hit]
                    names = [n for n in names if n not in hit]
        else:
            if not fresh and "forcegate" not in defects:
                return sorted(out)
            pool = list(found) if "multiroot" in defects else [c[0] for c in fresh]
            cmap = dict(case.cands)
            for p in pats:
                if is_abs(p, is_case, is_re):
                    out += [c[0] for c in fresh if abs_eq_second(c[1], p)]
                else:
                    y = [i for i in pool if vm(p, (cmap[i][1] or ""))]
                    out += y
                    pool = [i for i in pool if i not in y]
        return sorted(out)
    rem = list(fresh)
    for p in pats:
        if is_abs(p, is_case, is_re):
            y = [c for c in rem if abs_eq_second(c[1], p)]
        else:
            y = [c for c in rem if vm(p, c[1] or "")]
        out += [c[0] for c in y]
        rem = [c for c in rem if c not in y]
    return sorted(out)


ATOMS = ["nocase", "ident", "nonunique", "absrepeat", "multiroot", "multiroot+forcegate", "hignore"]


def atom_sig(a, fn):
    return {"nocase": SIG_NOCASE, "ident": SIG_IDENT, "nonunique": SIG_NONUNIQUE, "absrepeat": sig_abs_repeat(fn),
            "multiroot": sig_multi_root(fn), "multiroot+forcegate": sig_multi_root(fn), "hignore": SIG_HIGNORE % fn,
            "bracket": SIG_BRACKET, "edifci": SIG_EDIFCI}[a]


_OPEN = None


def open_signatures():
    global _OPEN
    if _OPEN is None:
        from common import findings
        _OPEN = set(f["signature"] for f in findings.load() if f.get("property") == "C13" and f.get("status") == "open")
    return _OPEN


def classify(case, pats, is_case, is_re, fast, got):
    """signatures of the smallest set of known defect classes that explains `got` exactly, else None"""
    import itertools
    br = ["bracket"] if (not is_re and any("[" in p for p in pats)) else []
    if case.variant == "h":
        atoms = br + (["hignore", "nocase"] if case.bypass else ["nocase"])
    elif case.variant == "pipeline":
        atoms = br + ["nocase", "ident", "nonunique"]
        if case.cfg(is_case, is_re, fast)["ci"]:
            atoms.append("edifci")
        if case.fn in ("get_instances", "get_libraries", "get_definitions"):
            atoms.append("absrepeat")
        if case.fn in ("get_instances", "get_libraries"):
            atoms += ["multiroot", "multiroot+forcegate"]
    else:
        atoms = br + ["nocase"]
    got = sorted(got)
    try:
        if pinned_expected(case, pats, is_case, is_re, fast, set()) == got:
            return None     # the defect-free mirror gives this result too: no known defect is *needed* to explain it
    except Exception:
        return None
    # explanations made of findings that are still open are preferred over ones that need a defect
    # class already repaired in /repo (the same output can have two explanations)
    opens = [a for a in atoms if atom_sig(a, case.fn) in open_signatures()]
    plan = [(opens, n) for n in (1, 2, 3)] + [(atoms, n) for n in (1, 2, 3)]
    for pool, n in plan:
        for sub in itertools.combinations(pool, n):
            if "multiroot" in sub and "multiroot+forcegate" in sub:
                continue
            ds = set()
            for a in sub:
                ds.update(a.split("+"))
            if "multiroot" in ds:
                ds.add("absrepeat")
            extras = [()]
            if "nonunique" in ds and case.variant == "pipeline":
                # which children of the directly visited parents were *also* reached through another root
                # kind cannot be observed from outside; it only matters for children the first-match lookup
                # skipped, so every subset of those is tried
                absp = [p for p in pats if is_abs(p, is_case, is_re)]
                inb = set(case.base)
                rel = [c for g in case.groups for c in g if c[0] in inb and c[1] in absp]
                rel = [c for k, c in enumerate(rel) if c not in rel[:k]][:7]
                extras = [tuple(c for k, c in enumerate(rel) if m >> k & 1) for m in range(1 << len(rel))]
            try:
                if any(pinned_expected(case, pats, is_case, is_re, fast, ds, ex) == got for ex in extras):
                    sigs = []
                    for a in sub:
                        if a == "absrepeat" and "multiroot" in ds:
                            continue
                        sg = atom_sig(a, case.fn)
                        if sg not in sigs:
                            sigs.append(sg)
                    return sigs
            except Exception:
                continue
    return None


class Runner:
    def __init__(self, drv, res):
        self.drv = drv
        self.res = res

    def query(self, case, pats, is_case, is_re, fast, filt):
        """returns (impl_status, impl_ids_sorted, model_out_sorted, spec_sorted, hyp)"""
        x = case.x
        with FastLookup(fast):
            st, got = impl(case.w, x, pats=pats, is_case=is_case, is_re=is_re, filt=filt)
        ans = self.drv.ask(case.request(pats, is_case, is_re, fast, filt))
        if "error" in ans:
            raise RuntimeError("driver: %s" % ans["error"])
        self.last_reach = ans.get("reach", {})
        return st, (sorted(got) if st == "ok" else got), sorted(ans["out"]), sorted(ans["spec"]), ans["hyp"]

    def check(self, case, pats, is_case, is_re, fast, filt, report=True):
        """full check of one query. Returns None if fine, else (kind, [signatures], detail)."""
        st, got, out, spec, hyp = self.query(case, pats, is_case, is_re, fast, filt)
        if st != "ok":
            return ("raise", ["%s.raises_%s" % (case.fn, got)], {"raised": got, "model": out})
        self.res.dist("hyp:%s" % hyp)
        # reach of the headline theorems on this very query (driver-evaluated hypotheses); evidence only,
        # no verdict depends on these counters
        for th, verdict in getattr(self, "last_reach", {}).items():
            self.res.dist("theorem_fragment:%s:%s" % (th, "in" if verdict == "in" else "out:" + verdict))
        cf = case.cfg(is_case, is_re, fast)
        if cf["indexed"]:
            self.res.dist("lookup:indexed" + ("+case_insensitive" if cf["ci"] else ""))
        elif case.variant == "pipeline":
            self.res.dist("lookup:linear")
        bad = None
        if got != spec or len(got) != len(set(got)):
            sigs = classify(case, pats, is_case, is_re, fast, got) if filt == "none" else None
            if sigs is None and filt != "none":
                # classify on the unfiltered query
                st2, got2, out2, spec2, _ = self.query(case, pats, is_case, is_re, fast, "none")
                if st2 == "ok" and (got2 != spec2 or len(got2) != len(set(got2))):
                    sigs = classify(case, pats, is_case, is_re, fast, got2)
            if sigs is None:
                sigs = [("%s.duplicate" % case.fn) if len(got) != len(set(got)) and sorted(set(got)) == spec
                        else "%s.filter_mismatch" % case.fn]
            bad = ("spec", sigs, {"impl": got, "spec": spec, "model": out})
        if got != out:
            if bad is None:
                return ("corr", None, {"impl": got, "model": out, "spec": spec})
            return ("spec+corr", bad[1], bad[2])
        return bad


def input_of(case, pats, is_case, is_re, fast, filt):
    x = dict(case.x)
    x.update({"pats": list(pats), "is_case": is_case, "is_re": is_re, "fast": fast, "filter": filt})
    return x


def shrink(runner, w, x, sig, kind):
    """greedy: fewer patterns, fewer roots, default options; keeps the same failure kind/signature"""
    def fails(y):
        try:
            c = Case(w, y)
            if not c.ok:
                return False
            r = runner.check(c, y["pats"], y["is_case"], y["is_re"], y["fast"], y.get("filter", "none"))
            return r is not None and r[0].split("+")[0] == kind.split("+")[0] and r[1] == sig
        except Exception:
            return False
    cur = dict(x)
    changed = True
    while changed:
        changed = False
        for k in range(len(cur["pats"])):
            if len(cur["pats"]) > 1:
                y = dict(cur, pats=cur["pats"][:k] + cur["pats"][k + 1:])
                if fails(y):
                    cur = y
                    changed = True
                    break
        if changed:
            continue
        for k in range(len(cur["roots"])):
            if len(cur["roots"]) > 1:
                y = dict(cur, roots=cur["roots"][:k] + cur["roots"][k + 1:])
                if fails(y):
                    cur = y
                    changed = True
                    break
        if changed:
            continue
        for key, val in (("filter", "none"), ("opts", {}), ("as_list", False)):
            if cur.get(key, val) != val:
                y = dict(cur)
                y[key] = val
                if fails(y):
                    cur = y
                    changed = True
                    break
    return cur


# --------------------------------------------------------------------------------------------
# generation of queries for one netlist
# --------------------------------------------------------------------------------------------
SELS = {
    "get_libraries": ["INSIDE", "OUTSIDE"], "get_definitions": ["INSIDE", "OUTSIDE"],
    "get_instances": ["INSIDE", "OUTSIDE"], "get_cables": ["INSIDE", "OUTSIDE", "BOTH", "ALL"],
    "get_pins": ["INSIDE", "OUTSIDE"], "get_wires": ["INSIDE", "OUTSIDE", "BOTH", "ALL"],
    "get_hcables": ["INSIDE", "OUTSIDE", "BOTH", "ALL"], "get_hwires": ["INSIDE", "OUTSIDE", "BOTH", "ALL"],
}
HAS_REC = {"get_libraries", "get_definitions", "get_instances", "get_cables", "get_wires"} | set(H_FNS)
ROOT_KINDS = ["netlist", "library", "definition", "instance", "port", "cable", "innerpin", "outerpin", "wire", "href"]


def pick_roots(w, rng, hrefs):
    kind = rng.choice(ROOT_KINDS)
    if kind == "href":
        if not hrefs:
            return [["obj", 0]]
        h = rng.choice(hrefs)
        path = [w.oid(e) for e in w.hpath(h)]
        if rng.random() < 0.35:
            # reference to a port / cable / pin / wire below that instance
            ref = h.item.reference
            if ref is not None:
                pool = list(ref.ports) + list(ref.cables)
                if pool:
                    it = rng.choice(pool)
                    path = path + [w.oid(it)]
                    sub = list(getattr(it, "pins", [])) or list(getattr(it, "wires", []))
                    if sub and rng.random() < 0.5:
                        path = path + [w.oid(rng.choice(sub))]
        return [["href", path]]
    idxs = [i for i, k in enumerate(w.kind) if k == kind]
    if not idxs:
        return [["obj", 0]]
    return [["obj", rng.choice(idxs)]]


def gen_query(w, rng, hrefs, fn=None):
    fn = fn or rng.choice(ALL_FNS)
    roots = pick_roots(w, rng, hrefs)
    r = rng.random()
    if r < 0.22:
        roots = roots + pick_roots(w, rng, hrefs)
        if rng.random() < 0.3:
            roots = roots + pick_roots(w, rng, hrefs)
    x = {"fn": fn, "roots": roots, "opts": {}, "key": ".NAME"}
    if fn in SELS and rng.random() < 0.7:
        x["opts"]["selection"] = rng.choice(SELS[fn])
    if fn in HAS_REC and rng.random() < 0.5:
        x["opts"]["recursive"] = rng.random() < 0.7
    if fn not in H_FNS and fn not in NOPAT_FNS:
        x["key"] = rng.choice([".NAME", ".NAME", "EDIF.identifier", "uk"])
    if len(roots) == 1 and rng.random() < 0.2:
        x["as_list"] = True
    return x


def swap_one(s, rng):
    idx = [i for i, c in enumerate(s) if c.isalpha()]
    if not idx:
        return s
    if rng.random() < 0.5:
        return s.swapcase()
    i = rng.choice(idx)
    return s[:i] + s[i].swapcase() + s[i + 1:]


def gen_patterns(case, rng):
    """list of (pats, is_case, is_re, family)"""
    vals = case.values()
    ea = EARLIER.get(id(case.w.nl), {}).get(case.x.get("key", ".NAME") if case.fn not in H_FNS else ".NAME", [])
    if ea and case.variant in ("pipeline", "found"):
        vals = vals + [rng.choice(ea)]
    if case.x.get("key", ".NAME") != ".NAME" and case.variant in ("pipeline", "found"):
        # names of the candidates as patterns for another key (an answer from the wrong table shows)
        nm = sorted(set(o.name for o in (case.w.objs[i] for i in case.cands if 0 <= i < len(case.w.objs))
                        if getattr(o, "name", None)))
        if nm:
            vals = vals + [rng.choice(nm), rng.choice(nm)]
    gh = GHOSTS.get(id(case.w.nl), [])
    if gh and case.x.get("key") in (".NAME", "EDIF.identifier") and case.variant == "pipeline":
        vals = vals + [rng.choice(gh), rng.choice(gh)]
    out = []
    if not vals:
        vals = ["zz"]
    safe = [v for v in vals if wildcard_safe(v)]

    def one(v):
        fam = rng.choice(["exact", "swap", "prefix", "qmark", "re_exact", "re_prefix", "infix", "absent"])
        if fam == "exact":
            return v, fam
        if fam == "swap":
            return swap_one(v, rng), fam
        if fam == "absent":
            return v + "_zz", fam
        if fam == "re_exact":
            return _re.escape(v), fam
        if fam == "re_prefix":
            k = rng.randint(0, len(v))
            return _re.escape(v[:k]) + ".*" + ("." if rng.random() < 0.2 else ""), fam
        if "*" in v or "?" in v:
            return v, "exact"
        if fam == "prefix":
            k = rng.randint(0, len(v))
            return v[:k] + "*", fam
        if fam == "qmark":
            k = rng.randrange(len(v))
            return v[:k] + "?" + v[k + 1:], fam
        k = rng.randint(0, len(v))
        j = rng.randint(k, len(v))
        return v[:k] + "*" + v[j:], fam

    for _ in range(6):
        n = rng.choice([1, 1, 2, 3])
        items = [one(rng.choice(vals)) for _ in range(n)]
        fams = [f for _, f in items]
        is_re = any(f.startswith("re_") for f in fams)
        if is_re:
            items = [(p if f.startswith("re_") else _re.escape(p) if f in ("exact", "swap", "absent") else _re.escape(p).replace("\\*", ".*").replace("\\?", "."), f)
                     for p, f in items]
        pats = [p for p, _ in items]
        r = rng.random()
        if r < 0.25 and pats:
            pats = pats + [rng.choice(pats)]          # repeated
        elif r < 0.4 and len(pats) > 1:
            rng.shuffle(pats)
        is_case = rng.random() < 0.6
        # names containing `[` (array indices) are matched like any other name: literal with either
        # is_case, case-swapped, prefix*, single ? -- no pattern class is avoided
        out.append((pats, is_case, is_re, "+".join(sorted(set(fams)))))
    return out


# --------------------------------------------------------------------------------------------
# metamorphic relations on the implementation alone
# --------------------------------------------------------------------------------------------
def metamorphic(runner, case, pats, is_case, is_re, fast, rng, res):
    """returns list of (relation, input, detail) that fail although both sides individually agree with
    the Spec (i.e. not explained by a spec failure that is reported anyway)"""
    fails = []
    w = case.w
    x = case.x

    def q(pp, ic, ir, fa=fast, fi="none"):
        with FastLookup(fa):
            st, got = impl(w, x, pats=pp, is_case=ic, is_re=ir, filt=fi)
        return sorted(got) if st == "ok" else None
    base = q(pats, is_case, is_re)
    if base is None:
        return fails
    X0 = input_of(case, pats, is_case, is_re, fast, "none")
    # permutation / duplication of the pattern list
    pp = list(pats)
    rng.shuffle(pp)
    pp = pp + [rng.choice(pp)]
    r = q(pp, is_case, is_re)
    if r is not None and sorted(set(r)) != sorted(set(base)):
        fails.append(("pattern_order", [X0, input_of(case, pp, is_case, is_re, fast, "none")], {"a": base, "b": r}))
    # union over patterns
    if len(pats) > 1:
        u = set()
        okk = True
        for p in pats:
            rr = q([p], is_case, is_re)
            if rr is None:
                okk = False
                break
            u |= set(rr)
        if okk and sorted(u) != sorted(set(base)):
            fails.append(("union", [X0] + [input_of(case, [p], is_case, is_re, fast, "none") for p in pats], {"a": base, "union": sorted(u)}))
    # fast lookup on == off (exact patterns whose case matches; the documented EDIF exception aside)
    cfg = case.cfg(is_case, is_re, True)
    if True:
        r = q(pats, is_case, is_re, fa=not fast)
        if r is not None and sorted(set(r)) != sorted(set(base)):
            fails.append(("fast_lookup", [X0, input_of(case, pats, is_case, is_re, not fast, "none")], {"a": base, "b": r}))
    # exact = escaped regex (case sensitive)
    if is_case and not is_re and all("*" not in p and "?" not in p for p in pats) and not cfg["ci"]:   # exact EDIF identifiers ignore case, a regex does not
        r = q([_re.escape(p) for p in pats], True, True)
        if r is not None and sorted(set(r)) != sorted(set(base)):
            fails.append(("exact_vs_regex", [X0, input_of(case, [_re.escape(p) for p in pats], True, True, fast, "none")], {"exact": base, "regex": r}))
    # wildcard = translated regex
    if not is_re and not (is_case and cfg["ci"]):
        tp = [_re.escape(p).replace("\\*", ".*").replace("\\?", ".") for p in pats]
        r = q(tp, is_case, True)
        b2 = base
        if r is not None and sorted(set(r)) != sorted(set(b2)):
            fails.append(("glob_vs_regex", [X0, input_of(case, tp, is_case, True, fast, "none")], {"glob": b2, "regex": r}))
    # case-swapped + is_case=False = original + is_case=False
    sp = [swap_one(p, rng) if not is_re else p for p in pats]
    if not is_re:
        a = q(pats, False, False)
        b = q(sp, False, False)
        if a is not None and b is not None and sorted(set(a)) != sorted(set(b)):
            fails.append(("case_swap", [input_of(case, sp, False, False, fast, "none"), input_of(case, pats, False, False, fast, "none")], {"orig": a, "swapped": b}))
    # literal with is_case=False == escaped regex with is_case=False == case-swapped literal
    if not is_re and all("*" not in p and "?" not in p for p in pats):
        a = q(pats, False, False)
        xa = input_of(case, pats, False, False, fast, "none")
        ep = [_re.escape(p) for p in pats]
        b = q(ep, False, True)
        if a is not None and b is not None and sorted(set(a)) != sorted(set(b)):
            fails.append(("literal_nocase_vs_regex", [xa, input_of(case, ep, False, True, fast, "none")], {"literal": a, "regex": b}))
        for sw in ([p.swapcase() for p in pats], [p.upper() for p in pats], [p.lower() for p in pats]):
            c = q(sw, False, False)
            if a is not None and c is not None and sorted(set(a)) != sorted(set(c)):
                fails.append(("literal_nocase_vs_swapped", [xa, input_of(case, sw, False, False, fast, "none")], {"literal": a, "swapped": c}))
                break
    # related queries in both orders within one process (state kept between queries must not leak):
    # A, then the same patterns with the other is_case / is_re reading, then A again
    for ic2, ir2 in ((not is_case, is_re), (is_case, not is_re)):
        q(pats, ic2, ir2)
        again = q(pats, is_case, is_re)
        if again is not None and again != base:
            fails.append(("order_dependence", [X0, input_of(case, pats, ic2, ir2, fast, "none")], {"first": base, "after_related_query": again}))
            break
    # callback on top
    for fi in ("odd",):
        r = q(pats, is_case, is_re, fi=fi)
        f = make_filter(w, fi)
        exp = sorted(i for i in base if (i % 2 == 1))
        if r is not None and r != exp:
            fails.append(("filter_on_top", [input_of(case, pats, is_case, is_re, fast, fi), X0], {"filtered": r, "expected": exp}))
    return fails


def api_relations(case, pats, is_case, is_re, fast):
    """for every query function: (a) the roots passed as a caller-owned list are left unchanged and
    the same list object gives the same answer when used again; (b) consuming the generator element by
    element yields as many elements as list() does.  Returns [(relation, detail)]."""
    w, x = case.w, case.x
    fails = []
    with FastLookup(fast):
        st0, ref = impl(w, x, pats=pats, is_case=is_case, is_re=is_re, filt="none")
        if st0 != "ok":
            return fails
        roots = resolve_roots(w, x["roots"])
        mine = list(roots)
        st1, r1 = impl(w, x, pats=pats, is_case=is_case, is_re=is_re, filt="none", obj_override=mine)
        same = len(mine) == len(roots) and all(a is b for a, b in zip(mine, roots))
        if not same:
            fails.append(("roots_list_modified", {"before": len(roots), "after": len(mine)}))
        st2, r2 = impl(w, x, pats=pats, is_case=is_case, is_re=is_re, filt="none", obj_override=mine)
        if st1 == "ok" and st2 == "ok" and sorted(r1) != sorted(r2):
            fails.append(("roots_list_reuse", {"first": sorted(r1), "second": sorted(r2)}))
        if st1 == "ok" and len(roots) > 1 and sorted(r1) != sorted(ref):
            fails.append(("roots_list_vs_fresh", {"list": sorted(r1), "fresh": sorted(ref)}))
        st3, n = impl(w, x, pats=pats, is_case=is_case, is_re=is_re, filt="none", stream=True)
        if st3 == "ok" and n != len(ref):
            fails.append(("streaming_count", {"streamed": n, "listed": len(ref)}))
        if st1 != "ok" or st2 != "ok" or st3 != "ok":
            fails.append(("raises_on_repeat", {"list": st1, "again": st2, "stream": st3}))
    return fails


# --------------------------------------------------------------------------------------------
# shard worker
# --------------------------------------------------------------------------------------------
def report(res, runner, w, kind, sig, x, detail, do_shrink=True):
    if kind in ("spec", "spec+corr", "raise"):
        if do_shrink:
            try:
                x = shrink(runner, w, x, sig, kind)
            except Exception:
                pass
        for sg in sig:
            res.spec_failure(sg, x, json.dumps(detail)[:600])
        if kind == "spec+corr":
            # ignored only while every explaining finding is open: attribute it to the first one
            res.corr_mismatch("stage correspondence (" + x["fn"] + ")", x, detail.get("impl"), detail.get("model"), signature=sig[0])
    elif kind == "corr":
        res.corr_mismatch("stage correspondence (" + x["fn"] + ")", x, detail.get("impl"), detail.get("model"))
    elif kind == "meta":
        res.spec_failure(sig[0], x, json.dumps(detail)[:600])


def shard_worker(seed, tier, si, nshards, budget_s, net_specs, per_net):
    import time
    t0 = time.time()
    res = shard.ShardResult()
    drv = lean.Driver("drv_query")
    runner = Runner(drv, res)
    reported = set()
    try:
        for ns in net_specs:
            if time.time() - t0 > budget_s:
                res.dist("budget_exhausted")
                break
            rng = random.Random(stable_hash([seed, "C13", si, ns]))
            try:
                nl = build_net(ns)
            except Exception:
                res.dist("net_build_failed")
                continue
            w = World(nl)
            hrefs = w.hrefs_instances()
            res.dist("net:%s:%s" % (ns["kind"], ns.get("policy", "EDIF")))
            history = []      # edits applied to this netlist so far (every reported input carries them)
            earlier = EARLIER[id(nl)] = {}    # key -> values that elements of this netlist carried earlier
            n_edits = 0
            for qi in range(per_net):
                if time.time() - t0 > budget_s:
                    break
                x0 = gen_query(w, rng, hrefs)
                if history:
                    x0["pre"] = list(history)
                try:
                    case = Case(w, x0)
                except Exception:
                    res["obligations"].append(("harness case construction", False, traceback.format_exc()[-1500:]))
                    continue
                if not case.ok:
                    res.dist(case.why.split(":")[0] + ":" + x0["fn"])
                    continue
                res.dist("fn:" + x0["fn"])
                res.dist("variant:" + case.variant)
                res.dist("roots:%d" % len(x0["roots"]))
                res.dist("base_size:%s" % ("0" if not case.base else "1-3" if len(case.base) <= 3 else "4+"))
                if case.variant == "pipeline":
                    res.dist("pipeline:%s%s" % ("direct" if case.groups else "", "+other" if case.others else ""))
                if case.base_dups:
                    sig = classify(case, ["*"], True, False, True, case.base) or ["%s.duplicate" % case.fn]
                    xi = input_of(case, ["*"], True, False, True, "none")
                    xi["net"] = ns
                    if ("spec", tuple(sig)) not in reported:
                        reported.add(("spec", tuple(sig)))
                        report(res, runner, w, "spec", sig, xi, {"impl": sorted(case.base)})
                    else:
                        for sg in sig:
                            res.dist("repeat:" + sg)
                if case.fn in NOPAT_FNS:
                    combos = [(["*"], True, False, "nopattern")]
                else:
                    combos = gen_patterns(case, rng)
                for pats, is_case, is_re, fam in combos:
                    fast = rng.random() < 0.6
                    filt = rng.choice(["none", "none", "odd", "third"])
                    x = input_of(case, pats, is_case, is_re, fast, filt)
                    try:
                        r = runner.check(case, pats, is_case, is_re, fast, filt)
                    except Exception:
                        res["obligations"].append(("harness check ran", False, traceback.format_exc()[-1500:]))
                        continue
                    nontrivial = len(case.base) >= 2
                    res.case(stable_hash([ns, x]), nontrivial)
                    res.dist("family:" + fam)
                    res.dist("mode:%s%s" % ("re" if is_re else "glob", "" if is_case else "+nocase"))
                    res.dist("fast:%s" % fast)
                    res.sample({"fn": x["fn"], "roots": x["roots"], "pats": pats, "is_case": is_case, "is_re": is_re, "key": x["key"]})
                    if r is not None:
                        kind, sig, detail = r
                        x["net"] = ns
                        key = (kind.split("+")[0], tuple(sig or ()))
                        if key in reported and kind != "corr":
                            # one (shrunk) record per failure class and shard; repeats are only counted, so
                            # that the per-shard cap on records can never hide a different failure
                            for sg in sig:
                                res.dist("repeat:" + sg)
                        else:
                            reported.add(key)
                            report(res, runner, w, kind, sig, x, detail)
                        if kind == "corr":
                            # model and implementation disagree although P holds here: search the
                            # neighbourhood (same roots / options / key, many more pattern lists, both
                            # lookup settings) for an input on which P itself fails
                            res.dist("corr_neighbourhood_search")
                            for _ in range(25):
                                for pats2, ic2, ir2, _f in gen_patterns(case, rng):
                                    for fast2 in (True, False):
                                        try:
                                            r2 = runner.check(case, pats2, ic2, ir2, fast2, "none")
                                        except Exception:
                                            r2 = None
                                        if r2 is not None and r2[0] != "corr":
                                            x2 = input_of(case, pats2, ic2, ir2, fast2, "none")
                                            x2["net"] = ns
                                            k2 = (r2[0].split("+")[0], tuple(r2[1] or ()))
                                            if k2 not in reported:
                                                reported.add(k2)
                                                report(res, runner, w, r2[0], r2[1], x2, r2[2])
                        continue
                    if pats is combos[0][0]:
                        # calling conventions, every query function: caller-owned root list unchanged and
                        # reusable, streaming consumption = list()
                        try:
                            af = api_relations(case, pats, is_case, is_re, fast)
                        except Exception:
                            res["obligations"].append(("harness api relations ran", False, traceback.format_exc()[-1500:]))
                            af = []
                        res.dist("api_relations")
                        for rel, det in af:
                            xa = input_of(case, pats, is_case, is_re, fast, "none")
                            xa["net"] = ns
                            sg = ["%s.metamorphic.%s" % (case.fn, rel)]
                            if ("meta", tuple(sg)) not in reported:
                                reported.add(("meta", tuple(sg)))
                                report(res, runner, w, "meta", sg, xa, det)
                    if case.fn in NOPAT_FNS:
                        continue
                    try:
                        mf = metamorphic(runner, case, pats, is_case, is_re, fast, rng, res)
                    except Exception:
                        res["obligations"].append(("harness metamorphic ran", False, traceback.format_exc()[-1500:]))
                        continue
                    # the same patterns under the other case reading, checked against the Spec right after the
                    # original query (and the original once more afterwards): both orders in one process
                    for ic2, ir2 in ((not is_case, is_re), (is_case, is_re)):
                        try:
                            r2 = runner.check(case, pats, ic2, ir2, fast, "none")
                        except Exception:
                            r2 = None
                        if r2 is not None:
                            x2 = input_of(case, pats, ic2, ir2, fast, "none")
                            x2["net"] = ns
                            x2["after"] = {"is_case": is_case, "is_re": is_re}
                            k2 = (r2[0].split("+")[0], tuple(r2[1] or ()))
                            if k2 in reported and r2[0] != "corr":
                                for sg in r2[1]:
                                    res.dist("repeat:" + sg)
                            else:
                                reported.add(k2)
                                report(res, runner, w, r2[0], r2[1], x2, r2[2])
                    for rel, xis, detail in mf:
                        # is one side of the relation itself a spec failure (then that is what is reported)?
                        explained = False
                        for xi in xis:
                            xi["net"] = ns
                            try:
                                c2 = runner.check(case, xi["pats"], xi["is_case"], xi["is_re"], xi["fast"], xi["filter"])
                            except Exception:
                                c2 = None
                            if c2 is not None:
                                explained = True
                                kind, sig, det = c2
                                key = (kind.split("+")[0], tuple(sig or ()))
                                if key in reported and kind != "corr":
                                    for sg in sig:
                                        res.dist("repeat:" + sg)
                                else:
                                    reported.add(key)
                                    report(res, runner, w, kind, sig, xi, det)
                        if not explained:
                            report(res, runner, w, "meta", ["%s.metamorphic.%s" % (case.fn, rel)], xis[0], detail)
                # ---- edit between two runs of the same query family (state kept by the implementation
                # between queries must follow the netlist): query (done above), rename / re-key / re-index
                # something without adding or removing anything, query again; the second result is checked
                # against model and Spec recomputed on the edited netlist
                if case.fn in NOPAT_FNS or not combos or rng.random() > 0.4:
                    continue
                pre_pats, pre_ic, pre_ir, _fam = combos[-1]
                preq = input_of(case, pre_pats, pre_ic, pre_ir, True, "none")
                preq.pop("pre", None)
                steps = [["q", preq]]
                old_now = []
                for _ in range(rng.choice([1, 1, 2])):
                    n_edits += 1
                    ed = gen_edit(w, rng, case, n_edits)
                    ov = edit_old_value(w, ed) if ed is not None else None
                    if ed is not None and apply_edit(w, ed):
                        if ov is not None:
                            earlier.setdefault(ov[0], []).append(ov[1])
                            if ov[0] == x0.get("key", ".NAME") or (case.fn in H_FNS and ov[0] == ".NAME"):
                                old_now.append(ov[1])
                        steps.append(["edit", ed])
                        history.append(["edit", ed])
                        res.dist("edit:" + ed["op"])
                if len(steps) == 1:
                    continue
                x1 = dict(x0)
                x1["pre"] = list(x0.get("pre", [])) + steps
                try:
                    case2 = Case(w, x1)
                except Exception:
                    res["obligations"].append(("harness case construction after edit", False, traceback.format_exc()[-1500:]))
                    continue
                if not case2.ok:
                    res.dist("after_edit:" + case2.why.split(":")[0])
                    continue
                combos2 = [(pre_pats, pre_ic, pre_ir, "old")] + [c for c in combos[:2]] + gen_patterns(case2, rng)[:3]
                for ov in old_now[:2]:
                    # values that were present before the edit: exact, case-variant, escaped regex, prefix*
                    combos2 += [([ov], True, False, "earlier_exact"), ([swap_one(ov, rng)], True, False, "earlier_swap"),
                                ([_re.escape(ov)], True, True, "earlier_regex"), ([ov[:max(1, len(ov) - 1)] + "*"], True, False, "earlier_prefix")]
                for pats, is_case, is_re, fam in combos2:
                    for fast in (True, False):
                        try:
                            r = runner.check(case2, pats, is_case, is_re, fast, "none")
                        except Exception:
                            res["obligations"].append(("harness check after edit ran", False, traceback.format_exc()[-1500:]))
                            continue
                        xe = input_of(case2, pats, is_case, is_re, fast, "none")
                        res.case(stable_hash([ns, xe]), len(case2.base) >= 2)
                        res.dist("after_edit")
                        if r is not None:
                            kind, sig, detail = r
                            xe["net"] = ns
                            key = (kind.split("+")[0], tuple(sig or ()))
                            if key in reported and kind != "corr":
                                for sg in sig:
                                    res.dist("repeat:" + sg)
                            else:
                                reported.add(key)
                                report(res, runner, w, kind, sig, xe, detail)
    finally:
        drv.close()
    return res


EDIT_KINDS = ("port", "cable", "instance", "definition", "library")


def gen_edit(w, rng, case, n):
    """An edit that changes names / key values / bundle indexing but adds and removes nothing (so every
    id of the World stays valid): rename, set / delete EDIF.identifier, set / delete the user key,
    lower_index, is_scalar.  Biased to elements the query just looked at."""
    pool = []
    if case is not None and case.ok and case.base and rng.random() < 0.7:
        i = rng.choice(case.base)
        if i >= 100000:
            pool = [j for j in (w.oid(e) for e in w.hpath(w.hobjs[i - 100000])) if j >= 0 and w.kind[j] in EDIT_KINDS]
        elif 0 <= i < len(w.kind) and w.kind[i] in EDIT_KINDS:
            pool = [i]
    if not pool:
        pool = [j for j, k in enumerate(w.kind) if k in EDIT_KINDS]
    if not pool:
        return None
    i = rng.choice(pool)
    o = w.objs[i]
    kind = w.kind[i]
    ops = ["rename", "rename", "rename", "set_ident", "set_uk"]
    key = case.x.get("key") if case is not None else None
    if key == "EDIF.identifier":
        ops += ["set_ident"] * 6           # rename the identifier the query family is about
    elif key == "uk":
        ops += ["set_uk"] * 4
    if kind in ("instance", "cable") and getattr(o, "parent" if kind == "instance" else "definition", None) is not None:
        ops += ["readd"]
    if "EDIF.identifier" in o:
        ops.append("del_ident")
    if "uk" in o:
        ops.append("del_uk")
    if kind in ("port", "cable"):
        ops += ["lower_index", "lower_index"]
        if len(o.pins if kind == "port" else o.wires) == 1:
            ops.append("is_scalar")
    op = rng.choice(ops)
    if op == "rename":
        base = o.name if o.name else "un"
        val = rng.choice([base + "_r%d" % n, "r%d_" % n + base, base.swapcase() if base.swapcase() != base else base + "_R"])
    elif op == "set_ident":
        val = rng.choice(["edit%d_Id", "Ed%d_X", "ED%dz"]) % n
    elif op == "set_uk":
        val = rng.choice(UK_POOL)
    elif op == "lower_index":
        val = rng.randint(0, 6)
    elif op == "is_scalar":
        val = not o.is_scalar
    else:
        val = None
    return {"op": op, "obj": i, "value": val}


def edit_old_value(w, e):
    """(key, value) the edited element carried before the edit, if the edit changes a key value"""
    o = w.objs[e["obj"]]
    k = {"rename": ".NAME", "set_ident": "EDIF.identifier", "del_ident": "EDIF.identifier",
         "set_uk": "uk", "del_uk": "uk"}.get(e["op"])
    if k is None:
        return None
    try:
        v = o[k] if k in o else None
    except Exception:
        v = None
    return (k, v) if isinstance(v, str) and v else None


def apply_edit(w, e):
    """returns True if the edit was accepted"""
    o = w.objs[e["obj"]]
    try:
        if e["op"] == "rename":
            o.name = e["value"]
        elif e["op"] == "set_ident":
            o["EDIF.identifier"] = e["value"]
        elif e["op"] == "del_ident":
            del o["EDIF.identifier"]
        elif e["op"] == "set_uk":
            o["uk"] = e["value"]
        elif e["op"] == "del_uk":
            del o["uk"]
        elif e["op"] == "lower_index":
            o.lower_index = e["value"]
        elif e["op"] == "is_scalar":
            o.is_scalar = e["value"]
        elif e["op"] == "readd":
            # take a child out of its definition and put it back (removal and re-attachment go through
            # the name index); ids stay valid, only its position changes
            from spydrnet.ir import Instance
            if isinstance(o, Instance):
                d = o.parent
                d.remove_child(o)
                d.add_child(o)
            else:
                d = o.definition
                d.remove_cable(o)
                d.add_cable(o)
        return True
    except (ValueError, RuntimeError, KeyError, AssertionError):
        return False


def run_pre(w, x):
    """replays the history of an input: queries run before (results discarded) and edits, in order"""
    for step in x.get("pre", []):
        if step[0] == "edit":
            apply_edit(w, step[1])
        else:
            y = step[1]
            with FastLookup(y.get("fast", True)):
                impl(w, y)


def replay_input(ctx, runner, res, x):
    ns = x["net"]
    nl = build_net(ns)
    w = World(nl)
    run_pre(w, x)
    case = Case(w, x)
    if not case.ok:
        res.dist(case.why)
        return
    res.case(stable_hash(x), True)
    if case.base_dups:
        for sg in (classify(case, ["*"], True, False, True, case.base) or ["%s.duplicate" % case.fn]):
            res.spec_failure(sg, x, "base query returns an element twice")
    r = runner.check(case, x["pats"], x["is_case"], x["is_re"], x["fast"], x.get("filter", "none"))
    if r is not None:
        kind, sig, detail = r
        report(res, runner, w, kind, sig, x, detail, do_shrink=False)


def corpus_worker(paths):
    res = shard.ShardResult()
    drv = lean.Driver("drv_query")
    runner = Runner(drv, res)
    try:
        for p in paths:
            try:
                d = json.load(open(p))
                x = d.get("input", d)
                replay_input(None, runner, res, x)
                res.dist("corpus")
            except Exception:
                res["obligations"].append(("corpus input %s replays" % os.path.basename(p), False, traceback.format_exc()[-1500:]))
    finally:
        drv.close()
    return res


def run(ctx):
    ok = lean.check_obligations(ctx, ENGINE_DIR, MODULES, EXES, AUDIT, THEOREMS)
    ctx.rule = ("netlists: common.gen.gen_netlist (hierarchical, 1-3 libraries, shared definitions) under the DEFAULT and the "
                "EDIF policy, decorated with EDIF.identifier (spelling differs from the name) and a non-unique user key `uk`, "
                "plus the bundled EDIF examples toggle/TMR_hierarchy/three_layer_hierarchy/hierarchical_luts/n_bit_counter; "
                "queries: the 13 get_* functions x 1-3 roots of every kind (netlist, library, definition, instance, port, cable, "
                "inner/outer pin, wire, hierarchical reference) x selection x recursive x key (.NAME, EDIF.identifier, uk) x "
                "1-4 patterns derived from the values present (exact, case-swapped, prefix*, infix*, single ?, escaped regex, "
                "regex prefix .*, absent; repeated / permuted lists) x is_case x is_re x fast lookup registered/deregistered x "
                "filter callback; after 40 % of the queries 1-2 edits that add/remove nothing (rename, set/delete EDIF.identifier or the "
                "user key, lower_index, is_scalar) are applied and the same query family is run again in the same process (old and new "
                "patterns, lookup on/off) and checked against model and Spec recomputed on the edited netlist; "
                "a case is distinct by (netlist, history, query); non-trivial when the unfiltered result has >= 2 elements")
    ctx.assumptions = [
        "candidate collection of the get_* functions is not modelled: the base set is the implementation's own result for `*` (DESIGN decision 6)",
        "only `*` and `?` are wildcards; `[` in a pattern stands for itself (model = code as repaired by docs/fixes/query_glob_bracket_literal.diff; on the pinned code this is the open finding _value_matches_pattern.glob_bracket.character_class); regex patterns are escaped literals, `.`, `.*`",
        "names / values are printable ASCII strings; the empty pattern is not generated",
        "identifiers under the EDIF policy compare case-insensitively for exact patterns (granted by the property); the code does so only through the registered index -- fast-on/off IS compared there and the difference is the open finding edif_identifier.exact_case_variant.case_sensitive_without_index",
        "sibling names are unique (C10's invariant); the harness reports the fraction of inputs for which the driver evaluates the stage theorems' hypotheses to true",
    ]
    ctx.partial_notes = []
    if not ok:
        return
    if ctx.tier == "thorough" and not ctx.replay:
        lean.leanchecker(ctx, ["Spydr.Query.Model", "Spydr.Query.Spec", "Spydr.Query.Lemmas", "Spydr.Query.LemmasStage",
                               "Spydr.Query.Props.C13"])
    drv = None
    if ctx.replay:
        res = shard.ShardResult()
        drv = lean.Driver("drv_query")
        try:
            d = json.load(open(ctx.replay if os.path.isabs(ctx.replay) else os.path.join(ROOT, ctx.replay)))
            x = d.get("input", d)
            if "fn" not in x:
                ctx.obligation("replay file names a failing input", True, "obligation replay: nothing to run")
            else:
                replay_input(ctx, Runner(drv, res), res, x)
        finally:
            drv.close()
        ctx.merge_shard(res)
        return
    # corpus first
    cdir = os.path.join(ROOT, "corpus", "C13")
    paths = sorted(os.path.join(cdir, f) for f in os.listdir(cdir) if f.endswith(".json")) if os.path.isdir(cdir) else []
    if paths:
        ctx.merge_shard(corpus_worker(paths))
    nshards = 16
    nets_per_shard = ctx.scale(40, 600)
    per_net = ctx.scale(16, 30)
    budget = ctx.scale(60, 1000)
    args = []
    for si in range(nshards):
        rng = ctx.rng("shard", si)
        specs = []
        for k in range(nets_per_shard):
            r = rng.random()
            if r < 0.12:
                specs.append({"kind": "edif", "name": rng.choice(EDIF_EXAMPLES)})
            else:
                specs.append({"kind": "gen", "seed": rng.randrange(10 ** 9), "policy": "EDIF" if r < 0.4 else "DEFAULT",
                              "unnamed": 0.15 if rng.random() < 0.25 else 0.0,
                              "size": "large" if rng.random() < 0.2 else "small",
                              "twins": rng.random() < 0.35, "refused": rng.random() < 0.3,
                              "brackets": rng.random() < 0.35, "punct": rng.random() < 0.35,
                              "cross": rng.random() < 0.4})
        args.append((ctx.seed, ctx.tier, si, nshards, budget, specs, per_net))
    shard.run_shards(ctx, shard_worker, args)
    ht, hf = ctx.hist.get("hyp:True", 0), ctx.hist.get("hyp:False", 0)
    if ht + hf:
        ctx.extra["stage_theorem_hypotheses_hold_fraction"] = round(ht / float(ht + hf), 3)
        ctx.partial_notes.append(
            "the decidable hypotheses of the stage theorems (duplicate-free candidates, unique sibling keys where an index "
            "answers, keys present or no empty pattern, no unfiltered bypass elements in get_h*) held for %d of %d driver "
            "evaluations; on the others the model is still compared with the implementation and P is still evaluated, only "
            "the theorem does not speak" % (ht, ht + hf))
    # failing-input search when only the correspondence / an obligation broke is inherent here: every
    # case evaluates P on the implementation as well, so the neighbourhood has been searched already.
